// Driver for the wire-level trace validation of real connections (C06, C07).
//
//	rpcstress <rounds> <workers> <ops>       (trace file: $CAPNP_VERIF_TRACE, written by the verif tracing transport)
//
// Two real Conns in one process are joined by a pipe; nothing is scripted: the
// peer of each connection is the other connection.  Every vat exports a
// capability whose methods return values, return new capabilities, call back
// capabilities they were given and take a while; worker goroutines on both
// sides make seeded random sequences of calls (plain, pipelined on unreturned
// answers, with capability parameters, cancelled, on returned capabilities),
// drop references and finally close.  The hook verifWrapTransport records the
// wire history of both ends; spec/rpc/RpcWire.tla validates each end.
// The driver itself checks what the application sees: every call resolves,
// results carry the tag that was sent, a round winds down.
package main

import (
	"context"
	"encoding/json"
	"fmt"
	"math/rand"
	"os"
	"runtime"
	"strconv"
	"sync"
	"sync/atomic"
	"time"

	capnp "capnproto.org/go/capnp/v3"
	"capnproto.org/go/capnp/v3/rpc"
	"capnproto.org/go/capnp/v3/server"
)

type J = map[string]interface{}

var (
	mEcho   = capnp.Method{InterfaceID: 0xbeef, MethodID: 0} // returns the tag
	mNewCap = capnp.Method{InterfaceID: 0xbeef, MethodID: 1} // returns the tag and a new capability in pointer 0
	mCallMe = capnp.Method{InterfaceID: 0xbeef, MethodID: 2} // calls echo on the capability in pointer 0 of the parameters, returns its result
	mSlow   = capnp.Method{InterfaceID: 0xbeef, MethodID: 3} // waits for a moment (or cancellation), returns the tag
)

var resSize = capnp.ObjectSize{DataSize: 8, PointerCount: 1}

type stats struct {
	calls, ok, errs, wrong, hung int64
	shutdowns                    int64
	created                      int64
}

type shut struct{ st *stats }

func (s shut) Shutdown() { atomic.AddInt64(&s.st.shutdowns, 1) }

func newCap(st *stats, depth int) *capnp.Client {
	atomic.AddInt64(&st.created, 1)
	methods := []server.Method{
		{Method: mEcho, Impl: func(ctx context.Context, call *server.Call) error {
			res, err := call.AllocResults(resSize)
			if err != nil {
				return err
			}
			res.SetUint32(0, call.Args().Uint32(0))
			return nil
		}},
		{Method: mNewCap, Impl: func(ctx context.Context, call *server.Call) error {
			res, err := call.AllocResults(resSize)
			if err != nil {
				return err
			}
			res.SetUint32(0, call.Args().Uint32(0))
			if depth < 3 {
				id := res.Message().AddCap(newCap(st, depth+1))
				return res.SetPtr(0, capnp.NewInterface(res.Segment(), id).ToPtr())
			}
			return nil
		}},
		{Method: mCallMe, Impl: func(ctx context.Context, call *server.Call) error {
			tag := call.Args().Uint32(0)
			p, err := call.Args().Ptr(0)
			if err != nil {
				return err
			}
			c := p.Interface().Client()
			if c == nil {
				return fmt.Errorf("no capability")
			}
			c = c.AddRef()
			defer c.Release()
			call.Ack()
			ans, rel := c.SendCall(ctx, capnp.Send{Method: mEcho, ArgsSize: resSize, PlaceArgs: func(s capnp.Struct) error { s.SetUint32(0, tag+1); return nil }})
			defer rel()
			r, err := ans.Struct()
			if err != nil {
				return err
			}
			res, err := call.AllocResults(resSize)
			if err != nil {
				return err
			}
			res.SetUint32(0, r.Uint32(0)-1)
			return nil
		}},
		{Method: mSlow, Impl: func(ctx context.Context, call *server.Call) error {
			tag := call.Args().Uint32(0)
			call.Ack()
			select {
			case <-time.After(time.Duration(tag%5) * 300 * time.Microsecond):
			case <-ctx.Done():
				return ctx.Err()
			}
			res, err := call.AllocResults(resSize)
			if err != nil {
				return err
			}
			res.SetUint32(0, tag)
			return nil
		}},
	}
	return capnp.NewClient(server.New(methods, nil, shut{st}, &server.Policy{MaxConcurrentCalls: 64, AnswerQueueSize: 64}))
}

// place builds the parameters; *placed tells the caller whether the capability was handed over to the message
func place(tag uint32, c *capnp.Client, placed ...*bool) func(capnp.Struct) error {
	return func(s capnp.Struct) error {
		s.SetUint32(0, tag)
		if c != nil {
			if len(placed) > 0 {
				*placed[0] = true
			}
			id := s.Message().AddCap(c)
			return s.SetPtr(0, capnp.NewInterface(s.Segment(), id).ToPtr())
		}
		return nil
	}
}

var problems []J
var pmu sync.Mutex

func problem(p J) {
	pmu.Lock()
	if len(problems) < 20 {
		problems = append(problems, p)
	}
	pmu.Unlock()
}

// wait for an answer with a watchdog: a call that never resolves is a finding of its own
func result(st *stats, what string, tag uint32, ans *capnp.Answer) (capnp.Struct, error) {
	done := make(chan struct{})
	var s capnp.Struct
	var err error
	go func() { s, err = ans.Struct(); close(done) }()
	select {
	case <-done:
	case <-time.After(10 * time.Second):
		atomic.AddInt64(&st.hung, 1)
		buf := make([]byte, 1<<16)
		n := runtime.Stack(buf, true)
		problem(J{"what": "call-never-resolved", "op": what, "tag": tag, "dump": string(buf[:n])})
		return capnp.Struct{}, fmt.Errorf("hung")
	}
	atomic.AddInt64(&st.calls, 1)
	if err != nil {
		atomic.AddInt64(&st.errs, 1)
	} else {
		atomic.AddInt64(&st.ok, 1)
	}
	return s, err
}

func worker(rng *rand.Rand, st *stats, conn *rpc.Conn, id, nops int, closing *int32) {
	ctx := context.Background()
	boot := conn.Bootstrap(ctx)
	defer boot.Release()
	var held []*capnp.Client
	defer func() {
		for _, c := range held {
			c.Release()
		}
	}()
	target := func() *capnp.Client {
		if len(held) > 0 && rng.Intn(3) == 0 {
			return held[rng.Intn(len(held))]
		}
		return boot
	}
	for i := 0; i < nops; i++ {
		tag := uint32(id*100000 + i*10)
		switch rng.Intn(8) {
		case 0, 1: // plain call
			ans, rel := target().SendCall(ctx, capnp.Send{Method: mEcho, ArgsSize: resSize, PlaceArgs: place(tag, nil)})
			s, err := result(st, "echo", tag, ans)
			if err == nil && s.Uint32(0) != tag {
				atomic.AddInt64(&st.wrong, 1)
				problem(J{"what": "wrong-result", "op": "echo", "tag": tag, "got": s.Uint32(0)})
			}
			rel()
		case 2: // new capability, kept
			ans, rel := target().SendCall(ctx, capnp.Send{Method: mNewCap, ArgsSize: resSize, PlaceArgs: place(tag, nil)})
			s, err := result(st, "newcap", tag, ans)
			if err == nil {
				if s.Uint32(0) != tag {
					atomic.AddInt64(&st.wrong, 1)
					problem(J{"what": "wrong-result", "op": "newcap", "tag": tag, "got": s.Uint32(0)})
				}
				if p, err := s.Ptr(0); err == nil && p.Interface().Client() != nil && len(held) < 6 {
					held = append(held, p.Interface().Client().AddRef())
				}
			}
			rel()
		case 3: // pipelined calls on an answer that has not returned: newcap, then echo x2 on its result
			ans, rel := target().SendCall(ctx, capnp.Send{Method: mNewCap, ArgsSize: resSize, PlaceArgs: place(tag, nil)})
			// (Answer.PipelineSend, not Future.Client: calls through such clients can deadlock with the resolution - known finding D17 of C11)
			f0 := []capnp.PipelineOp{{Field: 0}}
			a1, r1 := ans.PipelineSend(ctx, f0, capnp.Send{Method: mEcho, ArgsSize: resSize, PlaceArgs: place(tag+1, nil)})
			a2, r2 := ans.PipelineSend(ctx, f0, capnp.Send{Method: mSlow, ArgsSize: resSize, PlaceArgs: place(tag+2, nil)})
			for k, a := range []*capnp.Answer{a1, a2} {
				s, err := result(st, "pipelined", tag+uint32(k)+1, a)
				if err == nil && s.Uint32(0) != tag+uint32(k)+1 {
					atomic.AddInt64(&st.wrong, 1)
					problem(J{"what": "wrong-result", "op": "pipelined", "tag": tag + uint32(k) + 1, "got": s.Uint32(0)})
				}
			}
			result(st, "newcap", tag, ans)
			r1()
			r2()
			rel()
		case 4: // a local capability as parameter; the callee calls it back
			local := newCap(st, 3)
			placed := false
			ans, rel := target().SendCall(ctx, capnp.Send{Method: mCallMe, ArgsSize: resSize, PlaceArgs: place(tag, local, &placed)})
			if !placed {
				local.Release() // the call failed before its parameters were built
			}
			s, err := result(st, "callme", tag, ans)
			if err == nil && s.Uint32(0) != tag {
				atomic.AddInt64(&st.wrong, 1)
				problem(J{"what": "wrong-result", "op": "callme", "tag": tag, "got": s.Uint32(0)})
			}
			rel()
		case 5: // an imported capability as parameter (goes back as receiverHosted); the callee calls it: loop-back
			if len(held) == 0 {
				continue
			}
			c := held[rng.Intn(len(held))].AddRef()
			placed := false
			ans, rel := boot.SendCall(ctx, capnp.Send{Method: mCallMe, ArgsSize: resSize, PlaceArgs: place(tag, c, &placed)})
			if !placed {
				c.Release()
			}
			s, err := result(st, "callme-imported", tag, ans)
			if err == nil && s.Uint32(0) != tag {
				atomic.AddInt64(&st.wrong, 1)
				problem(J{"what": "wrong-result", "op": "callme-imported", "tag": tag, "got": s.Uint32(0)})
			}
			rel()
		case 6: // cancelled call
			cctx, cancel := context.WithCancel(ctx)
			ans, rel := target().SendCall(cctx, capnp.Send{Method: mSlow, ArgsSize: resSize, PlaceArgs: place(tag+4, nil)})
			if rng.Intn(2) == 0 {
				runtime.Gosched()
			}
			cancel()
			s, err := result(st, "cancelled", tag+4, ans)
			if err == nil && s.Uint32(0) != tag+4 {
				atomic.AddInt64(&st.wrong, 1)
				problem(J{"what": "wrong-result", "op": "cancelled", "tag": tag + 4, "got": s.Uint32(0)})
			}
			rel()
		case 7: // drop a held capability
			if len(held) > 0 {
				k := rng.Intn(len(held))
				held[k].Release()
				held = append(held[:k], held[k+1:]...)
			}
		}
		if atomic.LoadInt32(closing) != 0 {
			return
		}
	}
}

// bufPipe is one direction of an in-memory connection with an unbounded buffer: writes never block.  (With net.Pipe, which
// has no buffer at all, two vats that write at the same moment block each other for good: each receive loop is waiting for
// its sender lock while the holder of that lock waits for the other side to read - see DESIGN.md, observation O1.)
type bufPipe struct {
	mu     sync.Mutex
	cond   *sync.Cond
	buf    []byte
	closed bool
}

func newBufPipe() *bufPipe { p := &bufPipe{}; p.cond = sync.NewCond(&p.mu); return p }

func (p *bufPipe) Write(b []byte) (int, error) {
	p.mu.Lock()
	defer p.mu.Unlock()
	if p.closed {
		return 0, fmt.Errorf("write on closed pipe")
	}
	p.buf = append(p.buf, b...)
	p.cond.Broadcast()
	return len(b), nil
}

func (p *bufPipe) Read(b []byte) (int, error) {
	p.mu.Lock()
	defer p.mu.Unlock()
	for len(p.buf) == 0 && !p.closed {
		p.cond.Wait()
	}
	if len(p.buf) == 0 {
		return 0, fmt.Errorf("EOF")
	}
	n := copy(b, p.buf)
	p.buf = p.buf[n:]
	return n, nil
}

func (p *bufPipe) Close() error {
	p.mu.Lock()
	p.closed = true
	p.cond.Broadcast()
	p.mu.Unlock()
	return nil
}

type duplex struct{ r, w *bufPipe }

func (d duplex) Read(b []byte) (int, error)  { return d.r.Read(b) }
func (d duplex) Write(b []byte) (int, error) { return d.w.Write(b) }
func (d duplex) Close() error                { d.r.Close(); d.w.Close(); return nil }

func round(seed int64, nworkers, nops int, st *stats) {
	ab, ba := newBufPipe(), newBufPipe()
	p1, p2 := duplex{r: ba, w: ab}, duplex{r: ab, w: ba}
	a := rpc.NewConn(rpc.NewStreamTransport(p1), &rpc.Options{BootstrapClient: newCap(st, 0)})
	b := rpc.NewConn(rpc.NewStreamTransport(p2), &rpc.Options{BootstrapClient: newCap(st, 0)})
	var wg sync.WaitGroup
	var closing int32
	for w := 0; w < nworkers; w++ {
		for side, c := range []*rpc.Conn{a, b} {
			wg.Add(1)
			go func(w, side int, c *rpc.Conn) {
				defer wg.Done()
				worker(rand.New(rand.NewSource(seed*1000+int64(w*2+side))), st, c, int(seed%1000)*10+w*2+side, nops, &closing)
			}(w, side, c)
		}
	}
	// half of the rounds close while the workers are still busy
	early := seed%2 == 0
	if early {
		time.Sleep(time.Duration(1+seed%3) * time.Millisecond)
		atomic.StoreInt32(&closing, 1)
	}
	fin := make(chan struct{})
	go func() { wg.Wait(); close(fin) }()
	if !early {
		select {
		case <-fin:
		case <-time.After(60 * time.Second):
			buf := make([]byte, 1<<17)
			n := runtime.Stack(buf, true)
			problem(J{"what": "round-hung", "seed": seed, "dump": string(buf[:n])})
			enc := json.NewEncoder(os.Stdout)
			for _, p := range problems {
				enc.Encode(p)
			}
			os.Exit(3)
		}
	}
	closed := make(chan struct{})
	go func() { a.Close(); b.Close(); close(closed) }()
	select {
	case <-closed:
	case <-time.After(30 * time.Second):
		buf := make([]byte, 1<<17)
		n := runtime.Stack(buf, true)
		problem(J{"what": "close-hung", "seed": seed, "dump": string(buf[:n])})
		enc := json.NewEncoder(os.Stdout)
		for _, p := range problems {
			enc.Encode(p)
		}
		os.Exit(3)
	}
	select {
	case <-fin:
	case <-time.After(30 * time.Second):
		buf := make([]byte, 1<<17)
		n := runtime.Stack(buf, true)
		problem(J{"what": "workers-hung-after-close", "seed": seed, "dump": string(buf[:n])})
		enc := json.NewEncoder(os.Stdout)
		for _, p := range problems {
			enc.Encode(p)
		}
		os.Exit(3)
	}
}

func main() {
	rounds, _ := strconv.Atoi(os.Args[1])
	nworkers, _ := strconv.Atoi(os.Args[2])
	nops, _ := strconv.Atoi(os.Args[3])
	seed, _ := strconv.ParseInt(os.Getenv("VERIF_SEED"), 10, 64)
	st := &stats{}
	for r := 0; r < rounds; r++ {
		round(seed*100000+int64(r), nworkers, nops, st)
	}
	// every capability created (bootstrap capabilities, results, parameters) is shut down once nothing refers to it
	deadline := time.Now().Add(5 * time.Second)
	for atomic.LoadInt64(&st.shutdowns) < atomic.LoadInt64(&st.created) && time.Now().Before(deadline) {
		time.Sleep(5 * time.Millisecond)
	}
	enc := json.NewEncoder(os.Stdout)
	for _, p := range problems {
		enc.Encode(p)
	}
	enc.Encode(J{"summary": true, "rounds": rounds, "calls": st.calls, "ok": st.ok, "errors": st.errs, "wrong": st.wrong, "hung": st.hung,
		"capabilities_created": st.created, "capabilities_shut_down": st.shutdowns})
}
