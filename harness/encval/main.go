// Driver for C17 (Equal) and C18 (Canonicalize): builds TLC-generated value
// trees (spec/enc/ValGen.tla) through the public builder API in several arena
// configurations / build orders and compares the library's verdict or bytes
// with what the specification computes.
//
//	encval eq <pairs.ndjson>       {a, b, eq: yes|no|either}
//	encval canon <values.ndjson>   {v, hascap, canon: [[8 bytes]...]}
package main

import (
	"bufio"
	"bytes"
	"context"
	"encoding/binary"
	"encoding/json"
	"fmt"
	"os"
	"sync"

	capnp "capnproto.org/go/capnp/v3"
)

type J = map[string]interface{}

type hook struct{ id int }

func (h *hook) Send(ctx context.Context, s capnp.Send) (*capnp.Answer, capnp.ReleaseFunc) {
	return capnp.ErrorAnswer(s.Method, fmt.Errorf("verif")), func() {}
}
func (h *hook) Recv(ctx context.Context, r capnp.Recv) capnp.PipelineCaller {
	r.Reject(fmt.Errorf("verif"))
	return nil
}
func (h *hook) Brand() capnp.Brand { return capnp.Brand{Value: h} }
func (h *hook) Shutdown()          {}

var (
	outMu sync.Mutex
	enc   = json.NewEncoder(os.Stdout)
)

func emit(v interface{}) {
	outMu.Lock()
	enc.Encode(v)
	outMu.Unlock()
}

func num(v interface{}) int { return int(v.(float64)) }

func wordOf(v interface{}) uint64 {
	xs := v.([]interface{})
	var b [8]byte
	for i := 0; i < len(xs) && i < 8; i++ {
		b[i] = byte(xs[i].(float64))
	}
	return binary.LittleEndian.Uint64(b[:])
}

type arena struct {
	name string
	mk   func() capnp.Arena
	post bool // build children before parents
}

type tightArena struct {
	segs [][]byte
	caps []int
}

func (a *tightArena) NumSegments() int64 { return int64(len(a.segs)) }
func (a *tightArena) Data(id capnp.SegmentID) ([]byte, error) {
	if int(id) >= len(a.segs) {
		return nil, fmt.Errorf("no segment %d", id)
	}
	return a.segs[id], nil
}
func (a *tightArena) Allocate(minsz capnp.Size, segs map[capnp.SegmentID]*capnp.Segment) (capnp.SegmentID, []byte, error) {
	need := (int(minsz) + 7) &^ 7
	c := 8 * a.caps[len(a.segs)%len(a.caps)]
	if c < need {
		c = need
	}
	b := make([]byte, c)
	for i := range b {
		b[i] = 0xAA
	}
	a.segs = append(a.segs, b[:0])
	return capnp.SegmentID(len(a.segs) - 1), b[:0], nil
}

var arenas = []arena{
	{"std-single/pre", func() capnp.Arena { return capnp.SingleSegment(nil) }, false},
	{"std-multi/post", func() capnp.Arena { return capnp.MultiSegment(nil) }, true},
	{"tight-1/pre", func() capnp.Arena { return &tightArena{caps: []int{1}} }, false},
	{"tight-3-2/post", func() capnp.Arena { return &tightArena{caps: []int{3, 2}} }, true},
}

// build constructs value v in the message of seg and returns a pointer to it.
func build(seg *capnp.Segment, v J, post bool) (capnp.Ptr, error) {
	switch v["t"] {
	case "null":
		return capnp.Ptr{}, nil
	case "cap":
		return capnp.NewInterface(seg, capnp.CapabilityID(num(v["i"].([]interface{})[0]))).ToPtr(), nil
	case "struct":
		s, err := buildStruct(seg, v, post, func(sz capnp.ObjectSize) (capnp.Struct, error) { return capnp.NewStruct(seg, sz) }, len(v["d"].([]interface{})), len(v["p"].([]interface{})))
		return s.ToPtr(), err
	case "list":
		k := num(v["k"])
		n := int32(num(v["n"]))
		es, _ := v["e"].([]interface{})
		switch k {
		case 0:
			return capnp.NewVoidList(seg, n).List.ToPtr(), nil
		case 1:
			l, err := capnp.NewBitList(seg, n)
			if err != nil {
				return capnp.Ptr{}, err
			}
			for i, e := range es {
				l.Set(i, e.(float64) == 1)
			}
			return l.List.ToPtr(), nil
		case 2, 3, 4, 5:
			var l capnp.List
			var err error
			switch k {
			case 2:
				var x capnp.UInt8List
				x, err = capnp.NewUInt8List(seg, n)
				l = x.List
			case 3:
				var x capnp.UInt16List
				x, err = capnp.NewUInt16List(seg, n)
				l = x.List
			case 4:
				var x capnp.UInt32List
				x, err = capnp.NewUInt32List(seg, n)
				l = x.List
			case 5:
				var x capnp.UInt64List
				x, err = capnp.NewUInt64List(seg, n)
				l = x.List
			}
			if err != nil {
				return capnp.Ptr{}, err
			}
			for i, e := range es {
				w := wordOf(e)
				switch k {
				case 2:
					capnp.UInt8List{List: l}.Set(i, uint8(w))
				case 3:
					capnp.UInt16List{List: l}.Set(i, uint16(w))
				case 4:
					capnp.UInt32List{List: l}.Set(i, uint32(w))
				case 5:
					capnp.UInt64List{List: l}.Set(i, w)
				}
			}
			return l.ToPtr(), nil
		case 6:
			var kids []capnp.Ptr
			if post {
				for _, e := range es {
					c, err := build(seg, e.(J), post)
					if err != nil {
						return capnp.Ptr{}, err
					}
					kids = append(kids, c)
				}
			}
			l, err := capnp.NewPointerList(seg, n)
			if err != nil {
				return capnp.Ptr{}, err
			}
			for i, e := range es {
				var c capnp.Ptr
				if post {
					c = kids[i]
				} else if c, err = build(seg, e.(J), post); err != nil {
					return capnp.Ptr{}, err
				}
				if err := l.Set(i, c); err != nil {
					return capnp.Ptr{}, err
				}
			}
			return l.List.ToPtr(), nil
		case 7:
			sz := capnp.ObjectSize{DataSize: capnp.Size(8 * num(v["dw"])), PointerCount: uint16(num(v["pc"]))}
			l, err := capnp.NewCompositeList(seg, sz, n)
			if err != nil {
				return capnp.Ptr{}, err
			}
			for i, e := range es {
				i := i
				if _, err := buildStruct(seg, e.(J), false, func(capnp.ObjectSize) (capnp.Struct, error) { return l.Struct(i), nil }, 0, 0); err != nil {
					return capnp.Ptr{}, err
				}
			}
			return l.ToPtr(), nil
		}
	}
	return capnp.Ptr{}, fmt.Errorf("cannot build %v", v["t"])
}

func buildStruct(seg *capnp.Segment, v J, post bool, alloc func(capnp.ObjectSize) (capnp.Struct, error), dw, pc int) (capnp.Struct, error) {
	ds := v["d"].([]interface{})
	ps := v["p"].([]interface{})
	var kids []capnp.Ptr
	if post {
		for _, p := range ps {
			c, err := build(seg, p.(J), post)
			if err != nil {
				return capnp.Struct{}, err
			}
			kids = append(kids, c)
		}
	}
	s, err := alloc(capnp.ObjectSize{DataSize: capnp.Size(8 * dw), PointerCount: uint16(pc)})
	if err != nil {
		return s, err
	}
	for i, d := range ds {
		s.SetUint64(capnp.DataOffset(8*i), wordOf(d))
	}
	for i, p := range ps {
		var c capnp.Ptr
		if post {
			c = kids[i]
		} else if c, err = build(seg, p.(J), post); err != nil {
			return s, err
		}
		if err := s.SetPtr(uint16(i), c); err != nil {
			return s, err
		}
	}
	return s, nil
}

var shared = []*capnp.Client{capnp.NewClient(&hook{0}), capnp.NewClient(&hook{1})}

func newMsg(a arena, v J) (*capnp.Message, capnp.Ptr, error) {
	m, seg, err := capnp.NewMessage(a.mk())
	if err != nil {
		return nil, capnp.Ptr{}, err
	}
	for _, c := range shared {
		m.AddCap(c.AddRef())
	}
	p, err := build(seg, v, a.post)
	if err != nil {
		return nil, capnp.Ptr{}, err
	}
	if err := m.SetRoot(p); err != nil {
		return nil, capnp.Ptr{}, err
	}
	root, err := m.Root()
	return m, root, err
}

func verdict(b bool) string {
	if b {
		return "yes"
	}
	return "no"
}

func doEq(line int, r J, stats map[string]int) {
	a, b := r["a"].(J), r["b"].(J)
	want := r["eq"].(string)
	rep := func(what, got string, extra string) {
		emit(J{"line": line, "what": what, "want": want, "got": got, "arenas": extra, "a": a, "b": b, "da": r["da"]})
	}
	for ai, aa := range arenas {
		ab := arenas[(ai+1)%len(arenas)]
		func() {
			defer func() {
				if p := recover(); p != nil {
					rep("panic", fmt.Sprint(p), aa.name+"|"+ab.name)
				}
			}()
			ma, pa, err := newMsg(aa, a)
			if err != nil {
				rep("build-a", err.Error(), aa.name)
				return
			}
			_, pb, err := newMsg(ab, b)
			if err != nil {
				rep("build-b", err.Error(), ab.name)
				return
			}
			tag := aa.name + "|" + ab.name
			eq1, err1 := capnp.Equal(pa, pb)
			eq2, err2 := capnp.Equal(pb, pa)
			stats["equal_calls"] += 2
			if err1 != nil || err2 != nil {
				rep("error", fmt.Sprint(err1, err2), tag)
				return
			}
			if eq1 != eq2 {
				rep("asymmetric", verdict(eq1)+"/"+verdict(eq2), tag)
			}
			if want != "either" && verdict(eq1) != want {
				rep("verdict", verdict(eq1), tag)
			}
			// reflexive; equal to its deep copy; equal to its re-encoding
			if ok, err := capnp.Equal(pa, pa); err != nil || !ok {
				rep("reflexive", fmt.Sprint(ok, err), tag)
			}
			mc, _, _ := capnp.NewMessage(capnp.MultiSegment(nil))
			if err := mc.SetRoot(pa); err == nil {
				rc, _ := mc.Root()
				if ok, err := capnp.Equal(pa, rc); err != nil || !ok {
					rep("copy", fmt.Sprint(ok, err), tag)
				}
				if ok, err := capnp.Equal(rc, pa); err != nil || !ok {
					rep("copy-sym", fmt.Sprint(ok, err), tag)
				}
			} else {
				rep("copy-error", err.Error(), tag)
			}
			bb, err := ma.Marshal()
			if err == nil {
				m2, err := capnp.Unmarshal(bb)
				if err == nil {
					for _, c := range shared {
						m2.AddCap(c.AddRef())
					}
					r2, _ := m2.Root()
					if ok, err := capnp.Equal(pa, r2); err != nil || !ok {
						rep("reencode", fmt.Sprint(ok, err), tag)
					}
				}
			}
			stats["equal_calls"] += 4
			// both values in ONE message, built one right after the other (zero-sized objects then share an address with
			// their neighbour): the verdict does not depend on where the values live
			if ai == 0 {
				func() {
					m1, seg1, err := capnp.NewMessage(aa.mk())
					if err != nil {
						return
					}
					for _, c := range shared {
						m1.AddCap(c.AddRef())
					}
					qa, err := build(seg1, a, false)
					if err != nil {
						return
					}
					qb, err := build(seg1, b, false)
					if err != nil {
						return
					}
					for _, pr := range [][2]capnp.Ptr{{qa, qb}, {qb, qa}} {
						eq, err := capnp.Equal(pr[0], pr[1])
						stats["equal_calls"]++
						if err != nil {
							rep("same-message-error", err.Error(), tag)
							return
						}
						if want != "either" && verdict(eq) != want {
							rep("same-message-verdict", verdict(eq), tag)
							return
						}
					}
				}()
			}
			// a layout of a whose padding bits / bytes carry garbage (spec-generated): same value, so the same verdicts
			if da, ok := r["da"]; ok && ai == 0 {
				if dirty := wordsToBytes(da); len(dirty) > 0 {
					md := &capnp.Message{Arena: capnp.SingleSegment(dirty)}
					pd, err := md.Root()
					if err != nil {
						rep("dirty-unreadable", err.Error(), tag)
						return
					}
					e1, err1 := capnp.Equal(pd, pa)
					e2, err2 := capnp.Equal(pa, pd)
					e3, err3 := capnp.Equal(pd, pb)
					e4, err4 := capnp.Equal(pb, pd)
					stats["equal_calls"] += 4
					if err1 != nil || err2 != nil || err3 != nil || err4 != nil {
						rep("dirty-error", fmt.Sprint(err1, err2, err3, err4), tag)
						return
					}
					if !e1 || !e2 {
						rep("dirty-self", verdict(e1)+"/"+verdict(e2), tag)
					}
					if want != "either" && (verdict(e3) != want || verdict(e4) != want) {
						rep("dirty-verdict", verdict(e3)+"/"+verdict(e4), tag)
					}
				}
			}
		}()
	}
}

func wordsToBytes(v interface{}) []byte {
	ws := v.([]interface{})
	out := make([]byte, 0, 8*len(ws))
	for _, w := range ws {
		for _, x := range w.([]interface{}) {
			out = append(out, byte(x.(float64)))
		}
	}
	return out
}

func doCanon(line int, r J, stats map[string]int) {
	v := r["v"].(J)
	hascap := r["hascap"].(bool)
	want := wordsToBytes(r["canon"])
	rep := func(what, got, ar string) {
		emit(J{"line": line, "what": what, "got": got, "want": fmt.Sprintf("%x", want), "arena": ar, "v": v})
	}
	// the same value in a layout with garbage in the list padding (generated by the spec): same canonical bytes
	if dirty := wordsToBytes(r["dirty"]); !hascap && len(dirty) > 0 {
		func() {
			defer func() {
				if p := recover(); p != nil {
					rep("panic", fmt.Sprint(p), "dirty-padding")
				}
			}()
			md := &capnp.Message{Arena: capnp.SingleSegment(dirty)}
			rd, err := md.Root()
			if err != nil {
				rep("dirty-unreadable", err.Error(), "dirty-padding")
				return
			}
			got, err := capnp.Canonicalize(rd.Struct())
			stats["canonicalize_calls"]++
			if err != nil {
				rep("error", err.Error(), "dirty-padding")
			} else if !bytes.Equal(got, want) {
				rep("bytes", fmt.Sprintf("%x", got), "dirty-padding")
			}
		}()
	}
	for _, aa := range arenas {
		func() {
			defer func() {
				if p := recover(); p != nil {
					rep("panic", fmt.Sprint(p), aa.name)
				}
			}()
			_, root, err := newMsg(aa, v)
			if err != nil {
				rep("build", err.Error(), aa.name)
				return
			}
			got, err := capnp.Canonicalize(root.Struct())
			stats["canonicalize_calls"]++
			if hascap {
				if err == nil {
					rep("capability-accepted", fmt.Sprintf("%x", got), aa.name)
				}
				return
			}
			if err != nil {
				rep("error", err.Error(), aa.name)
				return
			}
			if !bytes.Equal(got, want) {
				rep("bytes", fmt.Sprintf("%x", got), aa.name)
				return
			}
			// canonicalising the canonical message returns it unchanged
			m2 := &capnp.Message{Arena: capnp.SingleSegment(append([]byte(nil), got...))}
			r2, err := m2.Root()
			if err != nil {
				rep("canonical-unreadable", err.Error(), aa.name)
				return
			}
			again, err := capnp.Canonicalize(r2.Struct())
			stats["canonicalize_calls"]++
			if err != nil || !bytes.Equal(again, got) {
				rep("not-idempotent", fmt.Sprintf("%x %v", again, err), aa.name)
			}
		}()
	}
}

func main() {
	mode := os.Args[1]
	f, err := os.Open(os.Args[2])
	if err != nil {
		panic(err)
	}
	sc := bufio.NewScanner(f)
	sc.Buffer(make([]byte, 1<<20), 256<<20)
	type job struct {
		line int
		r    J
	}
	jobs := make(chan job, 64)
	var wg sync.WaitGroup
	var smu sync.Mutex
	stats := map[string]int{}
	for k := 0; k < 12; k++ {
		wg.Add(1)
		go func() {
			defer wg.Done()
			local := map[string]int{}
			for j := range jobs {
				if mode == "eq" {
					doEq(j.line, j.r, local)
				} else {
					doCanon(j.line, j.r, local)
				}
			}
			smu.Lock()
			for k, v := range local {
				stats[k] += v
			}
			smu.Unlock()
		}()
	}
	n := 0
	for sc.Scan() {
		n++
		var r J
		if err := json.Unmarshal(sc.Bytes(), &r); err != nil {
			panic(err)
		}
		jobs <- job{n, r}
	}
	close(jobs)
	wg.Wait()
	emit(J{"summary": true, "cases": n, "arenas": len(arenas), "stats": stats})
}
