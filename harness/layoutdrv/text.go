package main

// Mode "text" (C20): every struct type of the generated packages is rendered with text.Marshal after one
// field was set through its generated setter; the text is parsed back and the token of every active
// primitive / Text / Data field is paired with what the generated getter returns.  Records follow
// spec/layout/TextTrace.tla.

import (
	"bytes"
	"fmt"
	"math"
	"reflect"
	"regexp"
	"strconv"

	capnp "capnproto.org/go/capnp/v3"
	"capnproto.org/go/capnp/v3/encoding/text"
	"capnproto.org/go/capnp/v3/internal/schema"
)

type tok struct {
	kind string // punct, word, string
	b    []byte
}

func lex(s []byte) ([]tok, error) {
	var ts []tok
	i := 0
	for i < len(s) {
		c := s[i]
		switch {
		case c == ' ':
			i++
		case bytes.IndexByte([]byte("()[]=,"), c) >= 0:
			ts = append(ts, tok{"punct", s[i : i+1]})
			i++
		case c == '<':
			// "<opaque pointer>": how the format shows an AnyPointer (as the reference implementation does)
			j := bytes.IndexByte(s[i:], '>')
			if j < 0 {
				return nil, fmt.Errorf("unterminated < at %d", i)
			}
			ts = append(ts, tok{"opaque", s[i : i+j+1]})
			i += j + 1
		case c == '"':
			j := i + 1
			for j < len(s) && s[j] != '"' {
				if s[j] == '\\' {
					j++
				}
				j++
			}
			if j >= len(s) {
				return nil, fmt.Errorf("unterminated string at %d", i)
			}
			ts = append(ts, tok{"string", s[i : j+1]})
			i = j + 1
		default:
			j := i
			for j < len(s) && bytes.IndexByte([]byte(" ()[]=,\""), s[j]) < 0 {
				j++
			}
			ts = append(ts, tok{"word", s[i:j]})
			i = j
		}
	}
	return ts, nil
}

type tval struct {
	kind   string // word, string, struct, list
	b      []byte
	fields []tfield
	elems  []tval
}
type tfield struct {
	name string
	v    tval
}

func parseVal(ts []tok, i int) (tval, int, error) {
	if i >= len(ts) {
		return tval{}, i, fmt.Errorf("unexpected end")
	}
	t := ts[i]
	switch {
	case t.kind == "punct" && t.b[0] == '(':
		v := tval{kind: "struct"}
		i++
		for i < len(ts) && !(ts[i].kind == "punct" && ts[i].b[0] == ')') {
			if ts[i].kind != "word" || i+1 >= len(ts) || ts[i+1].b[0] != '=' {
				return v, i, fmt.Errorf("expected name = at token %d", i)
			}
			name := string(ts[i].b)
			fv, ni, err := parseVal(ts, i+2)
			if err != nil {
				return v, ni, err
			}
			v.fields = append(v.fields, tfield{name, fv})
			i = ni
			if i < len(ts) && ts[i].kind == "punct" && ts[i].b[0] == ',' {
				i++
			}
		}
		return v, i + 1, nil
	case t.kind == "punct" && t.b[0] == '[':
		v := tval{kind: "list"}
		i++
		for i < len(ts) && !(ts[i].kind == "punct" && ts[i].b[0] == ']') {
			ev, ni, err := parseVal(ts, i)
			if err != nil {
				return v, ni, err
			}
			v.elems = append(v.elems, ev)
			i = ni
			if i < len(ts) && ts[i].kind == "punct" && ts[i].b[0] == ',' {
				i++
			}
		}
		return v, i + 1, nil
	case t.kind == "string":
		return tval{kind: "string", b: t.b}, i + 1, nil
	case t.kind == "word":
		return tval{kind: "word", b: t.b}, i + 1, nil
	case t.kind == "opaque":
		return tval{kind: "opaque", b: t.b}, i + 1, nil
	}
	return tval{}, i, fmt.Errorf("unexpected token %q", t.b)
}

func parseText(s string) (tval, error) {
	ts, err := lex([]byte(s))
	if err != nil {
		return tval{}, err
	}
	v, i, err := parseVal(ts, 0)
	if err == nil && i != len(ts) {
		err = fmt.Errorf("trailing tokens")
	}
	return v, err
}

func (v tval) get(name string) (tval, bool) {
	for _, f := range v.fields {
		if f.name == name {
			return f.v, true
		}
	}
	return tval{}, false
}

func fieldRec(vid, path, kind string, tk, acc, tokp []byte) {
	emit(J{"k": "field", "vid": vid, "path": path, "kind": kind, "tok": ints(tk), "acc": ints(acc), "tokp": ints(tokp),
		"s": []int{}, "lit": []int{}, "n": 0, "text": []int{}})
}

var numberRE = regexp.MustCompile(`^-?[0-9]+(\.[0-9]+)?([eE][+-]?[0-9]+)?$`)

// floatBits reads a float token by the grammar of the text format (inf, -inf, nan, decimal numbers)
func floatBits(tk []byte, bits int) string {
	var f float64
	switch s := string(tk); {
	case s == "inf":
		f = math.Inf(1)
	case s == "-inf":
		f = math.Inf(-1)
	case s == "nan":
		return "nan"
	case numberRE.MatchString(s):
		var err error
		if f, err = strconv.ParseFloat(s, bits); err != nil {
			return "unparseable"
		}
	default:
		return "unparseable"
	}
	if bits == 32 {
		return fmt.Sprintf("%08x", math.Float32bits(float32(f)))
	}
	return fmt.Sprintf("%016x", math.Float64bits(f))
}

func accBits(v reflect.Value, bits int) string {
	f := v.Float()
	if f != f {
		return "nan"
	}
	if bits == 32 {
		return fmt.Sprintf("%08x", math.Float32bits(float32(f)))
	}
	return fmt.Sprintf("%016x", math.Float64bits(f))
}

func enumName(f fld, v uint16) string {
	n := findNode(f.typ.Enum().TypeId())
	es, _ := n.Enum().Enumerants()
	if int(v) < es.Len() {
		nm, _ := es.At(int(v)).Name()
		return nm
	}
	return strconv.Itoa(int(v))
}

// active: g is shown when f was the field set (g outside unions, or selected by the same discriminants)
func shownWith(f, g fld) bool {
	if g.isGroup {
		return false
	}
	// every discriminant on g's path must be selected by f's path
	sel := func(doff, dval, at int, path []string) bool {
		for ai, a := range f.acts {
			if a.doff == doff && f.actAt[ai] == at && samePrefix(path, f.path, at) {
				return a.dval == dval
			}
		}
		if f.hasdisc && f.doff == doff && len(f.path)-1 == at && samePrefix(path, f.path, at) {
			return f.dval == dval
		}
		return false
	}
	for ai, a := range g.acts {
		if !sel(a.doff, a.dval, g.actAt[ai], g.path) {
			return false
		}
	}
	if g.hasdisc && !sel(g.doff, g.dval, len(g.path)-1, g.path) {
		return false
	}
	return true
}

var (
	sharedBuf bytes.Buffer
	sharedEnc = text.NewEncoder(&sharedBuf)
	sharedN   int
	// renderings on the shared encoder that failed (truncated input)
	failedEncodes int
)

func doText() {
	for _, t := range types {
		fs := enumerate(t.id, nil, nil, nil)
		for fi, f := range fs {
			f := f
			if f.isGroup || f.bits == 0 && !f.ptr {
				continue
			}
			if f.ptr && f.kind != schema.Type_Which_text && f.kind != schema.Type_Which_data {
				continue
			}
			vals := testValues(f.bits)
			if f.ptr {
				vals = []uint64{0, 1}
			}
			if f.kind == schema.Type_Which_float32 {
				vals = append(vals, uint64(math.Float32bits(float32(math.Inf(1)))), uint64(math.Float32bits(float32(math.Inf(-1)))), 0x7fc00000, uint64(math.Float32bits(1e-3)), uint64(math.Float32bits(3.4e38)))
			}
			if f.kind == schema.Type_Which_float64 {
				vals = append(vals, math.Float64bits(math.Inf(1)), math.Float64bits(math.Inf(-1)), 0x7ff8000000000000, math.Float64bits(1e-300), math.Float64bits(123456789.125))
			}
			for vi, v := range vals {
				vid := fmt.Sprintf("%s/%d/%d", t.name, fi, vi)
				guarded("text", t, f, func() {
					_, seg, _ := capnp.NewMessage(capnp.SingleSegment(nil))
					s, rv := t.mk(seg)
					cur, ok := descend(t, f, s, rv, false)
					if !ok {
						return
					}
					last := f.path[len(f.path)-1]
					setter := cur.MethodByName("Set" + title(last))
					if !setter.IsValid() {
						return
					}
					switch {
					case f.kind == schema.Type_Which_text:
						setter.Call([]reflect.Value{reflect.ValueOf([]string{"", "q\"b\\s\x00\xff'"}[v])})
					case f.kind == schema.Type_Which_data:
						setter.Call([]reflect.Value{reflect.ValueOf([][]byte{{}, {0, '"', '\\', 200}}[v])})
					default:
						setter.Call([]reflect.Value{goValue(setter.Type().In(0), v)})
					}
					str, err := text.Marshal(t.id, s)
					if err != nil {
						fieldRec(vid, f.name(), "word", []byte("error: "+err.Error()), []byte("a text value"), nil)
						return
					}
					emit(J{"k": "render", "vid": vid, "n": 0, "keep": false, "text": ints([]byte(str)), "s": []int{}, "lit": []int{}, "path": "", "kind": "", "tok": []int{}, "acc": []int{}, "tokp": []int{}})
					// a rendering that fails half way (the same struct in a segment cut short, so that the object of its last
					// pointer field is out of bounds) must leave nothing behind on the shared encoder
					if f.ptr && vi == 1 {
						if raw := seg.Data(); len(raw) > 16 {
							cutm := &capnp.Message{Arena: capnp.SingleSegment(append([]byte(nil), raw[:len(raw)-8]...))}
							if cr, err := cutm.Root(); err == nil && cr.Struct().IsValid() {
								sharedBuf.Reset()
								if err := sharedEnc.Encode(t.id, cr.Struct()); err != nil {
									failedEncodes++
								}
								sharedBuf.Reset()
							}
						}
					}
					// the same value on an Encoder that has rendered every earlier value of every type: same text
					sharedBuf.Reset()
					var str2 string
					if err := sharedEnc.Encode(t.id, s); err != nil {
						str2 = "error: " + err.Error()
					} else {
						str2 = sharedBuf.String()
					}
					sharedN++
					emit(J{"k": "render", "vid": vid, "n": sharedN, "keep": false, "text": ints([]byte(str2)), "s": []int{}, "lit": []int{}, "path": "", "kind": "", "tok": []int{}, "acc": []int{}, "tokp": []int{}})
					pv, err := parseText(str)
					if err != nil {
						fieldRec(vid, f.name(), "word", []byte("unparseable: "+err.Error()), []byte("a well-formed struct"), nil)
						return
					}
					// every field shown: token against the generated getter
					for _, g := range fs {
						if !shownWith(f, g) || g.bits == 0 && !g.ptr {
							continue
						}
						if g.ptr && g.kind != schema.Type_Which_text && g.kind != schema.Type_Which_data {
							continue
						}
						tv, found := pv, true
						for _, p := range g.path {
							if tv, found = tv.get(p); !found {
								break
							}
						}
						if !found {
							fieldRec(vid, g.name(), "word", []byte("<missing>"), []byte("<present>"), nil)
							continue
						}
						gc, ok := descend(t, g, s, rv, false)
						if !ok {
							continue
						}
						getter := gc.MethodByName(title(g.path[len(g.path)-1]))
						if !getter.IsValid() {
							continue
						}
						r := getter.Call(nil)[0]
						switch {
						case g.kind == schema.Type_Which_text:
							fieldRec(vid, g.name(), "string", tv.b, []byte(r.String()), nil)
						case g.kind == schema.Type_Which_data:
							fieldRec(vid, g.name(), "string", tv.b, r.Bytes(), nil)
						case g.kind == schema.Type_Which_bool:
							fieldRec(vid, g.name(), "word", tv.b, []byte(strconv.FormatBool(r.Bool())), nil)
						case g.kind == schema.Type_Which_enum:
							fieldRec(vid, g.name(), "word", tv.b, []byte(enumName(g, uint16(r.Uint()))), nil)
						case g.kind == schema.Type_Which_float32 || g.kind == schema.Type_Which_float64:
							fieldRec(vid, g.name(), "float", tv.b, []byte(accBits(r, g.bits)), []byte(floatBits(tv.b, g.bits)))
						case r.Kind() == reflect.Int8 || r.Kind() == reflect.Int16 || r.Kind() == reflect.Int32 || r.Kind() == reflect.Int64:
							fieldRec(vid, g.name(), "word", tv.b, []byte(strconv.FormatInt(r.Int(), 10)), nil)
						default:
							fieldRec(vid, g.name(), "word", tv.b, []byte(strconv.FormatUint(r.Uint(), 10)), nil)
						}
					}
				})
			}
		}
	}
}
