// Driver for C15 / C19.  The packages it exercises are generated at check time by the capnpc-go built
// from the working tree (overlaid under internal/verifh/gen_*), and the table of their struct types
// (types_gen.go) is derived from that generated code.  Everything is driven by the schema nodes the
// generated packages register: for every struct type, every field (descending into groups) is exercised
// through the generated accessors (mode gen) and through pogs.Insert / pogs.Extract with a Go type
// built from the schema with reflect.StructOf (mode pogs).  The records go to layouttrace.ndjson and are
// judged by TLC against spec/layout/Layout.tla.
//
//	layoutdrv gen  <trace.ndjson>
//	layoutdrv pogs <trace.ndjson>
package main

import (
	"bufio"
	"bytes"
	"encoding/binary"
	"encoding/json"
	"fmt"
	"math"
	"os"
	"reflect"
	"strings"

	capnp "capnproto.org/go/capnp/v3"
	"capnproto.org/go/capnp/v3/internal/nodemap"
	"capnproto.org/go/capnp/v3/internal/schema"
	"capnproto.org/go/capnp/v3/pogs"
)

type J = map[string]interface{}

var out *json.Encoder
var nlines int
var counts = map[string]int{}

func emit(e J) {
	for _, k := range []string{"before", "after", "val", "dflt", "pbefore", "pafter", "acts", "got"} {
		if e[k] == nil {
			e[k] = []int{}
		}
	}
	for _, k := range []string{"bits", "off", "doff", "dval", "a", "b"} {
		if e[k] == nil {
			e[k] = 0
		}
	}
	for _, k := range []string{"who", "type", "field", "what"} {
		if e[k] == nil {
			e[k] = ""
		}
	}
	if e["hasdisc"] == nil {
		e["hasdisc"] = false
	}
	if e["ok"] == nil {
		e["ok"] = true
	}
	if e["res"] == nil {
		e["res"] = false
	}
	if e["tagok"] == nil {
		e["tagok"] = true
	}
	if e["isnull"] == nil {
		e["isnull"] = false
	}
	out.Encode(e)
	nlines++
	counts[e["k"].(string)]++
}

func ints(b []byte) []int {
	r := make([]int, len(b))
	for i, x := range b {
		r[i] = int(x)
	}
	return r
}

type typ struct {
	name string
	id   uint64
	mk   func(seg *capnp.Segment) (capnp.Struct, reflect.Value)
}

// types is filled by types_gen.go
var types []typ

type act struct{ doff, dval int }

type fld struct {
	path    []string // enclosing group names, then the field's name
	kind    schema.Type_Which
	typ     schema.Type
	bits    int // 0 for Void
	ptr     bool
	off     int
	dflt    []byte
	hasdisc bool
	doff    int
	dval    int
	acts    []act  // discriminants of the enclosing groups that are union members, outermost first
	actAt   []int  // for each act: index in path of the group it activates
	isGroup bool   // a group that is a union member (its setter only writes the discriminant)
	pdflt   []byte // default of a Text / Data field
	sdflt   []byte // default of a struct-typed (target T: its x, y) or List(UInt16)-typed (its elements) field; nil = no default
}

func (f fld) name() string { return strings.Join(f.path, ".") }

var nodes nodemap.Map

func bitsOf(k schema.Type_Which) int {
	switch k {
	case schema.Type_Which_bool:
		return 1
	case schema.Type_Which_int8, schema.Type_Which_uint8:
		return 8
	case schema.Type_Which_int16, schema.Type_Which_uint16, schema.Type_Which_enum:
		return 16
	case schema.Type_Which_int32, schema.Type_Which_uint32, schema.Type_Which_float32:
		return 32
	case schema.Type_Which_int64, schema.Type_Which_uint64, schema.Type_Which_float64:
		return 64
	}
	return 0
}

func isPtrKind(k schema.Type_Which) bool {
	switch k {
	case schema.Type_Which_text, schema.Type_Which_data, schema.Type_Which_list, schema.Type_Which_structType,
		schema.Type_Which_interface, schema.Type_Which_anyPointer:
		return true
	}
	return false
}

func le(v uint64, n int) []byte {
	var b [8]byte
	binary.LittleEndian.PutUint64(b[:], v)
	return append([]byte(nil), b[:n]...)
}

func defaultBytes(k schema.Type_Which, v schema.Value) []byte {
	switch k {
	case schema.Type_Which_bool:
		if v.IsValid() && v.Which() == schema.Value_Which_bool && v.Bool() {
			return []byte{1}
		}
		return []byte{0}
	case schema.Type_Which_int8:
		return le(uint64(uint8(v.Int8())), 1)
	case schema.Type_Which_uint8:
		return le(uint64(v.Uint8()), 1)
	case schema.Type_Which_int16:
		return le(uint64(uint16(v.Int16())), 2)
	case schema.Type_Which_uint16:
		return le(uint64(v.Uint16()), 2)
	case schema.Type_Which_enum:
		return le(uint64(v.Enum()), 2)
	case schema.Type_Which_int32:
		return le(uint64(uint32(v.Int32())), 4)
	case schema.Type_Which_uint32:
		return le(uint64(v.Uint32()), 4)
	case schema.Type_Which_float32:
		return le(uint64(math.Float32bits(v.Float32())), 4)
	case schema.Type_Which_int64:
		return le(uint64(v.Int64()), 8)
	case schema.Type_Which_uint64:
		return le(v.Uint64(), 8)
	case schema.Type_Which_float64:
		return le(math.Float64bits(v.Float64()), 8)
	}
	return []byte{}
}

func findNode(id uint64) schema.Node {
	n, err := nodes.Find(id)
	if err != nil || !n.IsValid() {
		panic(fmt.Sprint("no schema node for ", id, " ", err))
	}
	return n
}

// fields of a struct node in schema terms, descending into groups
func enumerate(id uint64, path []string, acts []act, actAt []int) []fld {
	n := findNode(id)
	sn := n.StructNode()
	fields, _ := sn.Fields()
	var fs []fld
	for i := 0; i < fields.Len(); i++ {
		f := fields.At(i)
		name, _ := f.Name()
		p := append(append([]string{}, path...), name)
		d := fld{path: p, acts: acts, actAt: actAt}
		if f.DiscriminantValue() != schema.Field_noDiscriminant {
			d.hasdisc, d.doff, d.dval = true, int(sn.DiscriminantOffset()), int(f.DiscriminantValue())
		}
		switch f.Which() {
		case schema.Field_Which_slot:
			t, _ := f.Slot().Type()
			d.kind, d.typ, d.off = t.Which(), t, int(f.Slot().Offset())
			d.bits = bitsOf(d.kind)
			d.ptr = isPtrKind(d.kind)
			if !d.ptr {
				dv, _ := f.Slot().DefaultValue()
				d.dflt = defaultBytes(d.kind, dv)
			} else if dv, _ := f.Slot().DefaultValue(); dv.IsValid() {
				switch {
				case d.kind == schema.Type_Which_text && dv.Which() == schema.Value_Which_text:
					d.pdflt, _ = dv.TextBytes()
				case d.kind == schema.Type_Which_data && dv.Which() == schema.Value_Which_data:
					d.pdflt, _ = dv.Data()
				case d.kind == schema.Type_Which_structType && dv.Which() == schema.Value_Which_structValue:
					d.sdflt = summaryOfPtr(dv.StructValue())
				case d.kind == schema.Type_Which_list && dv.Which() == schema.Value_Which_list:
					d.sdflt = summaryOfPtr(dv.List())
				}
			}
			if d.bits == 0 && !d.ptr && !d.hasdisc {
				continue // a Void that is not a union member has no accessors with an effect
			}
			fs = append(fs, d)
		case schema.Field_Which_group:
			a2, at2 := acts, actAt
			if d.hasdisc {
				g := d
				g.isGroup = true
				fs = append(fs, g)
				a2 = append(append([]act{}, acts...), act{d.doff, d.dval})
				at2 = append(append([]int{}, actAt...), len(path))
			}
			fs = append(fs, enumerate(f.Group().TypeId(), p, a2, at2)...)
		}
	}
	return fs
}

// summaryOfPtr renders a struct default (first four data bytes: T.x, pad, T.y as stored) or a List(UInt16) default
// (its elements) - read from the schema node, not from the generated code
func summaryOfPtr(p capnp.Ptr, err error) []byte {
	if err != nil || !p.IsValid() {
		return nil
	}
	if st := p.Struct(); st.IsValid() {
		return []byte{st.Uint8(0), st.Uint8(2), st.Uint8(3)}
	}
	if l := p.List(); l.IsValid() {
		out := []byte{}
		ul := capnp.UInt16List{List: l}
		for i := 0; i < ul.Len() && i < 8; i++ {
			out = append(out, byte(ul.At(i)), byte(ul.At(i)>>8))
		}
		return out
	}
	return nil
}

// summaryOfResult renders what a generated getter of a struct / List(UInt16) field returned, the same way
func summaryOfResult(v reflect.Value) ([]byte, bool) {
	if sf := v.FieldByName("Struct"); sf.IsValid() {
		st, ok := sf.Interface().(capnp.Struct)
		if !ok {
			return nil, false
		}
		if !st.IsValid() {
			return []byte{}, true
		}
		return []byte{st.Uint8(0), st.Uint8(2), st.Uint8(3)}, true
	}
	if lf := v.FieldByName("List"); lf.IsValid() {
		l, ok := lf.Interface().(capnp.List)
		if !ok {
			return nil, false
		}
		out := []byte{}
		if !l.IsValid() {
			return out, true
		}
		ul := capnp.UInt16List{List: l}
		for i := 0; i < ul.Len() && i < 8; i++ {
			out = append(out, byte(ul.At(i)), byte(ul.At(i)>>8))
		}
		return out, true
	}
	return nil, false
}

// genPtrDefault: a null slot of a struct / list field with a default reads as that default (the default of this very field,
// also when another member of the union shares the slot)
func genPtrDefault(t typ, f fld) {
	if f.sdflt == nil {
		return
	}
	last := f.path[len(f.path)-1]
	guarded("gen", t, f, func() {
		_, seg, _ := capnp.NewMessage(capnp.SingleSegment(nil))
		s, rv := t.mk(seg)
		cur, ok := descend(t, f, s, rv, false)
		if !ok {
			return
		}
		if f.hasdisc {
			s.SetUint16(capnp.DataOffset(2*f.doff), uint16(f.dval))
		}
		getter := cur.MethodByName(title(last))
		if !getter.IsValid() || getter.Type().NumOut() != 2 {
			return
		}
		r := getter.Call(nil)
		if err, _ := r[1].Interface().(error); err != nil {
			failure("gen", t, f, "error", err)
			return
		}
		got, ok := summaryOfResult(r[0])
		if !ok {
			return
		}
		e := f.base("gen", t)
		e["k"], e["got"], e["dflt"] = "pdef", ints(got), ints(f.sdflt)
		emit(e)
	})
}

// every union of a type: discriminant offsets (in 16-bit units)
func unions(id uint64) []int {
	n := findNode(id)
	sn := n.StructNode()
	var u []int
	if sn.DiscriminantCount() > 0 {
		u = append(u, int(sn.DiscriminantOffset()))
	}
	fields, _ := sn.Fields()
	for i := 0; i < fields.Len(); i++ {
		if f := fields.At(i); f.Which() == schema.Field_Which_group {
			u = append(u, unions(f.Group().TypeId())...)
		}
	}
	return u
}

func dataOf(s capnp.Struct) []byte {
	n := int(s.Size().DataSize)
	b := make([]byte, n)
	for i := range b {
		b[i] = s.Uint8(capnp.DataOffset(i))
	}
	return b
}

func fill(s capnp.Struct, bg byte) {
	for i := 0; i < int(s.Size().DataSize); i++ {
		s.SetUint8(capnp.DataOffset(i), bg)
	}
}

// marker pointers: slot i holds Data{9, i}; ptrsOf reports 0 = null, 1+i = the marker of slot i, 200 = something else
func markPtrs(s capnp.Struct) {
	for i := 0; i < int(s.Size().PointerCount); i++ {
		d, err := capnp.NewData(s.Segment(), []byte{9, byte(i)})
		if err != nil {
			panic(err)
		}
		if err := s.SetPtr(uint16(i), d.List.ToPtr()); err != nil {
			panic(err)
		}
	}
}

func ptrsOf(s capnp.Struct) []int {
	r := make([]int, int(s.Size().PointerCount))
	for i := range r {
		p, err := s.Ptr(uint16(i))
		switch {
		case err != nil:
			r[i] = 250
		case !p.IsValid():
			r[i] = 0
		default:
			r[i] = 200
			if b := p.Data(); len(b) == 2 && b[0] == 9 {
				r[i] = 1 + int(b[1])
			}
		}
	}
	return r
}

func testValues(bits int) []uint64 {
	switch bits {
	case 0:
		return []uint64{0}
	case 1:
		return []uint64{0, 1}
	case 8:
		return []uint64{0, 1, 0xff, 0x80, 0x5a}
	case 16:
		return []uint64{0, 1, 0xffff, 0x8000, 0x1234}
	case 32:
		return []uint64{0, 1, 0xffffffff, 0x80000000, 0x12345678}
	}
	return []uint64{0, 1, 0xffffffffffffffff, 0x8000000000000000, 0x123456789abcdef0}
}

func title(s string) string { return strings.ToUpper(s[:1]) + s[1:] }

// goValue converts raw bits into a value of Go type t
func goValue(t reflect.Type, v uint64) reflect.Value {
	x := reflect.New(t).Elem()
	switch t.Kind() {
	case reflect.Bool:
		x.SetBool(v != 0)
	case reflect.Float32:
		x.SetFloat(float64(math.Float32frombits(uint32(v))))
	case reflect.Float64:
		x.SetFloat(math.Float64frombits(v))
	case reflect.Int8, reflect.Int16, reflect.Int32, reflect.Int64, reflect.Int:
		switch t.Bits() {
		case 8:
			x.SetInt(int64(int8(v)))
		case 16:
			x.SetInt(int64(int16(v)))
		case 32:
			x.SetInt(int64(int32(v)))
		default:
			x.SetInt(int64(v))
		}
	default:
		x.SetUint(v)
	}
	return x
}

func rawOf(v reflect.Value, bits int) []byte {
	if bits == 0 {
		return []byte{}
	}
	switch v.Kind() {
	case reflect.Bool:
		if v.Bool() {
			return []byte{1}
		}
		return []byte{0}
	case reflect.Float32:
		return le(uint64(math.Float32bits(float32(v.Float()))), 4)
	case reflect.Float64:
		return le(math.Float64bits(v.Float()), 8)
	case reflect.Int8, reflect.Int16, reflect.Int32, reflect.Int64, reflect.Int:
		return le(uint64(v.Int()), bits/8)
	}
	return le(v.Uint(), bits/8)
}

func (f fld) base(who string, t typ) J {
	a := []int{}
	for _, x := range f.acts {
		a = append(a, x.doff, x.dval)
	}
	return J{"who": who, "type": t.name, "field": f.name(), "bits": f.bits, "off": f.off, "dflt": ints(f.dflt),
		"hasdisc": f.hasdisc, "doff": f.doff, "dval": f.dval}
}

func failure(who string, t typ, f fld, k string, what interface{}) {
	e := f.base(who, t)
	e["k"], e["ok"], e["what"] = k, false, fmt.Sprint(what)
	emit(e)
}

// ---------------------------------------------------------------- generated accessors (C15)

// descend walks through the accessors of the enclosing groups, activating those that are union members
// (each activation is itself recorded as a "set" of zero bits plus discriminant)
func descend(t typ, f fld, s capnp.Struct, rv reflect.Value, record bool) (reflect.Value, bool) {
	cur := rv
	for gi, g := range f.path[:len(f.path)-1] {
		for ai, at := range f.actAt {
			if at == gi {
				before, pb := dataOf(s), ptrsOf(s)
				m := cur.MethodByName("Set" + title(g))
				if !m.IsValid() {
					failure("gen", t, f, "missing-accessor", "Set"+title(g))
					return cur, false
				}
				m.Call(nil)
				if record {
					emit(J{"k": "set", "who": "gen", "type": t.name, "field": strings.Join(f.path[:gi+1], "."), "bits": 0, "hasdisc": true,
						"doff": f.acts[ai].doff, "dval": f.acts[ai].dval, "before": ints(before), "after": ints(dataOf(s)), "pbefore": pb, "pafter": ptrsOf(s)})
				}
			}
		}
		m := cur.MethodByName(title(g))
		if !m.IsValid() {
			failure("gen", t, f, "missing-accessor", title(g))
			return cur, false
		}
		cur = m.Call(nil)[0]
	}
	return cur, true
}

func guarded(who string, t typ, f fld, fn func()) {
	defer func() {
		if p := recover(); p != nil {
			failure(who, t, f, "panic", p)
		}
	}()
	fn()
}

func doGen() {
	for _, t := range types {
		n := findNode(t.id)
		sn := n.StructNode()
		{
			_, seg, _ := capnp.NewMessage(capnp.SingleSegment(nil))
			s, _ := t.mk(seg)
			emit(J{"k": "size", "who": "gen", "type": t.name, "a": int(s.Size().DataSize), "b": int(s.Size().PointerCount),
				"off": int(sn.DataWordCount()) * 8, "bits": int(sn.PointerCount())})
			dn, _ := n.DisplayName()
			short := dn[int(n.DisplayNamePrefixLength()):]
			// <Type>_TypeID names the node of that type (types renamed by an annotation are not compared)
			if anns, _ := n.Annotations(); anns.Len() == 0 {
				emit(J{"k": "name", "who": "gen", "type": t.name, "ok": strings.HasSuffix(norm(t.name), norm(short)), "what": dn})
			}
		}
		if sn.DataWordCount() > 1024 || sn.PointerCount() > 1024 {
			// size-boundary structs: the allocation size is judged; the field accessors are the same code as in the
			// small struct they were derived from, and byte images of 512 KiB would only slow the judge down.  The last
			// data word and the last pointer slot must be addressable in a freshly allocated struct.
			_, seg, _ := capnp.NewMessage(capnp.SingleSegment(nil))
			s, _ := t.mk(seg)
			okd := sn.DataWordCount() == 0 || int(s.Size().DataSize) >= int(sn.DataWordCount())*8
			okp := sn.PointerCount() == 0 || s.SetPtr(sn.PointerCount()-1, capnp.Ptr{}) == nil
			emit(J{"k": "name", "who": "gen", "type": t.name, "ok": okd && okp, "what": "last data word / pointer slot of the declared sections is addressable"})
			continue
		}
		fs := enumerate(t.id, nil, nil, nil)
		for _, f := range fs {
			f := f
			last := f.path[len(f.path)-1]
			if f.isGroup {
				// recorded by descend when one of its fields is exercised; exercise it here too for empty groups
				guarded("gen", t, f, func() {
					_, seg, _ := capnp.NewMessage(capnp.SingleSegment(nil))
					s, rv := t.mk(seg)
					fill(s, 0xff)
					markPtrs(s)
					cur, ok := descend(t, f, s, rv, false)
					if !ok {
						return
					}
					before, pb := dataOf(s), ptrsOf(s)
					m := cur.MethodByName("Set" + title(last))
					if !m.IsValid() {
						failure("gen", t, f, "missing-accessor", "Set"+title(last))
						return
					}
					m.Call(nil)
					e := f.base("gen", t)
					e["k"], e["before"], e["after"], e["pbefore"], e["pafter"] = "set", ints(before), ints(dataOf(s)), pb, ptrsOf(s)
					emit(e)
				})
				continue
			}
			if f.ptr {
				genPtr(t, f)
				genPtrValues(t, f)
				genPtrDefault(t, f)
				continue
			}
			for _, bg := range []byte{0x00, 0xff} {
				for _, v := range testValues(f.bits) {
					guarded("gen", t, f, func() {
						_, seg, _ := capnp.NewMessage(capnp.SingleSegment(nil))
						s, rv := t.mk(seg)
						fill(s, bg)
						markPtrs(s)
						cur, ok := descend(t, f, s, rv, bg == 0 && v == 0)
						if !ok {
							return
						}
						before, pb := dataOf(s), ptrsOf(s)
						setter := cur.MethodByName("Set" + title(last))
						if !setter.IsValid() {
							failure("gen", t, f, "missing-accessor", "Set"+title(last))
							return
						}
						var arg reflect.Value
						if f.bits == 0 {
							setter.Call(nil)
						} else {
							arg = goValue(setter.Type().In(0), v)
							setter.Call([]reflect.Value{arg})
						}
						e := f.base("gen", t)
						e["k"], e["before"], e["after"], e["pbefore"], e["pafter"] = "set", ints(before), ints(dataOf(s)), pb, ptrsOf(s)
						if f.bits > 0 {
							e["val"] = ints(rawOf(arg, f.bits))
						}
						emit(e)
						if f.bits == 0 {
							return
						}
						getter := cur.MethodByName(title(last))
						if !getter.IsValid() {
							failure("gen", t, f, "missing-accessor", title(last))
							return
						}
						got := getter.Call(nil)[0]
						g := f.base("gen", t)
						g["k"], g["before"], g["val"] = "get", ints(dataOf(s)), ints(rawOf(got, f.bits))
						emit(g)
					})
				}
				// getter of a union member while another member is selected: the generated code checks the tag
				if f.bits > 0 && f.hasdisc && bg == 0 {
					_, seg, _ := capnp.NewMessage(capnp.SingleSegment(nil))
					s, rv := t.mk(seg)
					if cur, ok := descend(t, f, s, rv, false); ok {
						s.SetUint16(capnp.DataOffset(2*f.doff), uint16(f.dval+1))
						refused := false
						func() {
							defer func() {
								if recover() != nil {
									refused = true
								}
							}()
							cur.MethodByName(title(last)).Call(nil)
						}()
						x := f.base("gen", t)
						x["k"], x["ok"], x["what"] = "checktag", refused, "getter of an inactive union member returned a value"
						emit(x)
					}
				}
				// getter on raw bytes never touched by the setter
				if f.bits > 0 {
					guarded("gen", t, f, func() {
						_, seg, _ := capnp.NewMessage(capnp.SingleSegment(nil))
						s, rv := t.mk(seg)
						fill(s, bg)
						cur, ok := descend(t, f, s, rv, false)
						if !ok {
							return
						}
						if f.hasdisc {
							s.SetUint16(capnp.DataOffset(2*f.doff), uint16(f.dval))
						}
						// a recognisable pattern so that a getter reading a neighbouring field is seen
						for i := 0; i < int(s.Size().DataSize); i++ {
							if bg == 0 && !(f.hasdisc && i/2 == f.doff) && !actByte(f, i) {
								s.SetUint8(capnp.DataOffset(i), byte(i*37+11))
							}
						}
						got := cur.MethodByName(title(last)).Call(nil)[0]
						g := f.base("gen", t)
						g["k"], g["before"], g["val"] = "get", ints(dataOf(s)), ints(rawOf(got, f.bits))
						emit(g)
					})
				}
			}
		}
		for _, doff := range unions(t.id)[:min(1, len(unions(t.id)))] {
			if sn.DiscriminantCount() == 0 {
				break
			}
			for _, w := range []uint16{0, 1, 7, 300} {
				_, seg, _ := capnp.NewMessage(capnp.SingleSegment(nil))
				s, rv := t.mk(seg)
				s.SetUint16(capnp.DataOffset(2*doff), w)
				m := rv.MethodByName("Which")
				if !m.IsValid() {
					emit(J{"k": "missing-accessor", "who": "gen", "type": t.name, "field": "Which", "ok": false})
					continue
				}
				got := m.Call(nil)[0]
				emit(J{"k": "which", "who": "gen", "type": t.name, "doff": doff, "dval": int(got.Uint()), "before": ints(dataOf(s))})
			}
		}
	}
}

func norm(s string) string {
	return strings.ToLower(strings.NewReplacer("_", "", ".", "", "$", "").Replace(s))
}

func actByte(f fld, i int) bool {
	for _, a := range f.acts {
		if i/2 == a.doff {
			return true
		}
	}
	return false
}

func min(a, b int) int {
	if a < b {
		return a
	}
	return b
}

// pointer fields: New<F> / Set<F> then Has<F>; only slot `off` of the pointer section (and the discriminant) may change
func genPtr(t typ, f fld) {
	last := f.path[len(f.path)-1]
	for _, bg := range []byte{0x00, 0xff} {
		guarded("gen", t, f, func() {
			_, seg, _ := capnp.NewMessage(capnp.SingleSegment(nil))
			s, rv := t.mk(seg)
			fill(s, bg)
			markPtrs(s)
			cur, ok := descend(t, f, s, rv, false)
			if !ok {
				return
			}
			// Has on the marker (non-null) and on null, with the right discriminant in place
			if f.hasdisc {
				s.SetUint16(capnp.DataOffset(2*f.doff), uint16(f.dval))
			}
			has := cur.MethodByName("Has" + title(last))
			if has.IsValid() {
				for _, null := range []bool{false, true} {
					if null {
						s.SetPtr(uint16(f.off), capnp.Ptr{})
					}
					e := f.base("gen", t)
					e["k"], e["pbefore"], e["res"] = "has", ptrsOf(s), has.Call(nil)[0].Bool()
					emit(e)
				}
			}
			// Has with another member selected: false whatever the slot holds
			if f.hasdisc && has.IsValid() {
				markPtrs(s)
				s.SetUint16(capnp.DataOffset(2*f.doff), uint16(f.dval+1))
				e := f.base("gen", t)
				e["k"], e["pbefore"], e["res"], e["tagok"] = "has", ptrsOf(s), has.Call(nil)[0].Bool(), false
				emit(e)
			}
			markPtrs(s)
			fill(s, bg)
			before, pb := dataOf(s), ptrsOf(s)
			var call func() []reflect.Value
			if m := cur.MethodByName("New" + title(last)); m.IsValid() {
				switch m.Type().NumIn() {
				case 0:
					call = func() []reflect.Value { return m.Call(nil) }
				case 1:
					call = func() []reflect.Value { return m.Call([]reflect.Value{reflect.ValueOf(int32(2))}) }
				}
			}
			if call == nil {
				m := cur.MethodByName("Set" + title(last))
				if !m.IsValid() {
					failure("gen", t, f, "missing-accessor", "Set"+title(last))
					return
				}
				if m.Type().NumIn() != 1 {
					return
				}
				switch pt := m.Type().In(0); {
				case pt.Kind() == reflect.String:
					call = func() []reflect.Value { return m.Call([]reflect.Value{reflect.ValueOf("hi")}) }
				case pt.Kind() == reflect.Slice && pt.Elem().Kind() == reflect.Uint8:
					call = func() []reflect.Value { return m.Call([]reflect.Value{reflect.ValueOf([]byte{1, 2})}) }
				case pt == reflect.TypeOf(capnp.Ptr{}):
					d, _ := capnp.NewData(s.Segment(), []byte{7})
					call = func() []reflect.Value { return m.Call([]reflect.Value{reflect.ValueOf(d.List.ToPtr())}) }
				default:
					return // capability-typed fields: no value to set without an RPC system
				}
			}
			res := call()
			if n := len(res); n > 0 {
				if err, _ := res[n-1].Interface().(error); err != nil {
					failure("gen", t, f, "error", err)
					return
				}
			}
			e := f.base("gen", t)
			e["k"], e["before"], e["after"], e["pbefore"], e["pafter"] = "pset", ints(before), ints(dataOf(s)), pb, ptrsOf(s)
			emit(e)
			if has.IsValid() {
				h := f.base("gen", t)
				h["k"], h["pbefore"], h["res"] = "has", ptrsOf(s), has.Call(nil)[0].Bool()
				emit(h)
			}
			// the getter returns what was stored (text / data)
			if g := cur.MethodByName(title(last)); g.IsValid() && g.Type().NumOut() == 2 {
				r := g.Call(nil)
				okv := true
				switch r[0].Kind() {
				case reflect.String:
					okv = r[0].String() == "hi"
				case reflect.Slice:
					if r[0].Type().Elem().Kind() == reflect.Uint8 {
						okv = bytes.Equal(r[0].Bytes(), []byte{1, 2})
					}
				}
				x := f.base("gen", t)
				x["k"], x["ok"], x["what"] = "readback", okv, fmt.Sprint(r[0].Interface())
				emit(x)
			}
		})
	}
}

// bytesOfResult renders what a Text / Data getter (or Go mirror field) holds
func bytesOfValue(v reflect.Value) []byte {
	if v.Kind() == reflect.String {
		return []byte(v.String())
	}
	return append([]byte{}, v.Bytes()...)
}

// Text / Data values with defaults: a null slot reads as the default, a stored value (also the empty one) as itself
func genPtrValues(t typ, f fld) {
	if f.kind != schema.Type_Which_text && f.kind != schema.Type_Which_data {
		return
	}
	last := f.path[len(f.path)-1]
	for ci, c := range [][]byte{nil, {}, []byte("x\"y")} {
		ci, c := ci, c
		guarded("gen", t, f, func() {
			_, seg, _ := capnp.NewMessage(capnp.SingleSegment(nil))
			s, rv := t.mk(seg)
			cur, ok := descend(t, f, s, rv, false)
			if !ok {
				return
			}
			if f.hasdisc {
				s.SetUint16(capnp.DataOffset(2*f.doff), uint16(f.dval))
			}
			setter, getter := cur.MethodByName("Set"+title(last)), cur.MethodByName(title(last))
			if !setter.IsValid() || !getter.IsValid() {
				return
			}
			if ci > 0 {
				var arg reflect.Value
				if setter.Type().In(0).Kind() == reflect.String {
					arg = reflect.ValueOf(string(c))
				} else {
					arg = reflect.ValueOf(c)
				}
				if r := setter.Call([]reflect.Value{arg}); len(r) > 0 && !r[0].IsNil() {
					failure("gen", t, f, "error", r[0].Interface())
					return
				}
			}
			got := getter.Call(nil)[0]
			e := f.base("gen", t)
			e["k"], e["isnull"], e["dflt"], e["val"], e["got"] = "pval", ci == 0, ints(f.pdflt), ints(c), ints(bytesOfValue(got))
			emit(e)
		})
	}
}

// the same through pogs: Insert then the generated getter; the generated setter (or nothing) then Extract
func pogsPtrValues(t typ, gt reflect.Type, f fld, who func(string) string) {
	if f.kind != schema.Type_Which_text && f.kind != schema.Type_Which_data {
		return
	}
	if !goField(reflect.New(gt).Elem(), f.path).IsValid() {
		return
	}
	last := f.path[len(f.path)-1]
	for ci, c := range [][]byte{nil, {}, []byte("x\"y")} {
		ci, c := ci, c
		// Insert (a nil / empty Go value is the empty string, never "absent")
		guarded(who("pogs-insert"), t, f, func() {
			_, seg, _ := capnp.NewMessage(capnp.SingleSegment(nil))
			s, rv := t.mk(seg)
			gv := reflect.New(gt)
			setWhichOnPath(gv.Elem(), f)
			fv := goField(gv.Elem(), f.path)
			if fv.Kind() == reflect.String {
				fv.SetString(string(c))
			} else if c != nil {
				fv.SetBytes(c)
			}
			if err := pogs.Insert(t.id, s, gv.Interface()); err != nil {
				failure(who("pogs-insert"), t, f, "error", err)
				return
			}
			cur, ok := descend(t, f, s, rv, false)
			if !ok {
				return
			}
			// descend re-selects the groups on the path; pogs must already have selected them
			got := cur.MethodByName(title(last)).Call(nil)[0]
			e := f.base(who("pogs-insert"), t)
			e["k"], e["isnull"], e["dflt"], e["val"], e["got"] = "pval", false, ints(f.pdflt), ints(c), ints(bytesOfValue(got))
			emit(e)
		})
		// Extract
		guarded(who("pogs-extract"), t, f, func() {
			_, seg, _ := capnp.NewMessage(capnp.SingleSegment(nil))
			s, rv := t.mk(seg)
			cur, ok := descend(t, f, s, rv, false)
			if !ok {
				return
			}
			if f.hasdisc {
				s.SetUint16(capnp.DataOffset(2*f.doff), uint16(f.dval))
			}
			if ci > 0 {
				setter := cur.MethodByName("Set" + title(last))
				var arg reflect.Value
				if setter.Type().In(0).Kind() == reflect.String {
					arg = reflect.ValueOf(string(c))
				} else {
					arg = reflect.ValueOf(c)
				}
				setter.Call([]reflect.Value{arg})
			}
			gv := reflect.New(gt)
			if err := pogs.Extract(gv.Interface(), t.id, s); err != nil {
				failure(who("pogs-extract"), t, f, "error", err)
				return
			}
			e := f.base(who("pogs-extract"), t)
			e["k"], e["isnull"], e["dflt"], e["val"], e["got"] = "pval", ci == 0, ints(f.pdflt), ints(c), ints(bytesOfValue(goField(gv.Elem(), f.path)))
			emit(e)
		})
	}
}

// ---------------------------------------------------------------- pogs (C19)

const maxDepth = 2

func primGoType(k schema.Type_Which) reflect.Type {
	switch k {
	case schema.Type_Which_bool:
		return reflect.TypeOf(false)
	case schema.Type_Which_int8:
		return reflect.TypeOf(int8(0))
	case schema.Type_Which_int16:
		return reflect.TypeOf(int16(0))
	case schema.Type_Which_int32:
		return reflect.TypeOf(int32(0))
	case schema.Type_Which_int64:
		return reflect.TypeOf(int64(0))
	case schema.Type_Which_uint8:
		return reflect.TypeOf(uint8(0))
	case schema.Type_Which_uint16, schema.Type_Which_enum:
		return reflect.TypeOf(uint16(0))
	case schema.Type_Which_uint32:
		return reflect.TypeOf(uint32(0))
	case schema.Type_Which_uint64:
		return reflect.TypeOf(uint64(0))
	case schema.Type_Which_float32:
		return reflect.TypeOf(float32(0))
	case schema.Type_Which_float64:
		return reflect.TypeOf(float64(0))
	case schema.Type_Which_text:
		return reflect.TypeOf("")
	case schema.Type_Which_data:
		return reflect.TypeOf([]byte(nil))
	}
	return nil
}

func goTypeOf(t schema.Type, depth int) reflect.Type {
	switch t.Which() {
	case schema.Type_Which_list:
		et, _ := t.List().ElementType()
		e := goTypeOf(et, depth)
		if e == nil {
			return nil
		}
		return reflect.SliceOf(e)
	case schema.Type_Which_structType:
		if depth >= maxDepth {
			return nil
		}
		st := goStruct(t.StructType().TypeId(), depth+1)
		if st == nil {
			return nil
		}
		if variant == "byvalue" {
			return st
		}
		return reflect.PtrTo(st)
	case schema.Type_Which_interface, schema.Type_Which_anyPointer, schema.Type_Which_void:
		return nil
	}
	return primGoType(t.Which())
}

var goStructCache = map[string]reflect.Type{}

// variant of the Go mirror types: "plain" (default naming), "embed" (the fields of a top-level struct sit in
// a struct embedded three levels deep), "rename" (Go names differ from the schema names, mapped by capnp tags)
var variant = "plain"

func gname(schemaName string) string {
	if variant == "rename" {
		return "R" + title(schemaName)
	}
	return title(schemaName)
}

// goStruct builds the Go mirror of a struct (or group) node: Which uint16 for unions, groups as nested structs
func goStruct(id uint64, depth int) reflect.Type {
	key := fmt.Sprint(id, "/", depth, "/", variant)
	if t, ok := goStructCache[key]; ok {
		return t
	}
	n := findNode(id)
	sn := n.StructNode()
	var sf []reflect.StructField
	if sn.DiscriminantCount() > 0 {
		sf = append(sf, reflect.StructField{Name: "Which", Type: reflect.TypeOf(uint16(0))})
	}
	fields, _ := sn.Fields()
	for i := 0; i < fields.Len(); i++ {
		f := fields.At(i)
		name, _ := f.Name()
		if title(name) == "Which" {
			goStructCache[key] = nil
			return nil
		}
		var ft reflect.Type
		switch f.Which() {
		case schema.Field_Which_slot:
			t, _ := f.Slot().Type()
			if isListOfStructLike(t) && depth >= maxDepth {
				continue
			}
			ft = goTypeOf(t, depth)
		case schema.Field_Which_group:
			ft = goStruct(f.Group().TypeId(), depth)
		}
		if ft == nil {
			continue
		}
		fld := reflect.StructField{Name: gname(name), Type: ft}
		if variant == "rename" {
			fld.Tag = reflect.StructTag(fmt.Sprintf(`capnp:"%s"`, name))
		}
		sf = append(sf, fld)
	}
	if len(sf) == 0 {
		goStructCache[key] = nil
		return nil
	}
	if variant == "embed" && depth == 0 && !sn.IsGroup() {
		// Which stays on top; everything else moves into E1.E2.E3 (anonymous at every level)
		var top, inner []reflect.StructField
		for _, f := range sf {
			if f.Name == "Which" {
				top = append(top, f)
			} else {
				inner = append(inner, f)
			}
		}
		if len(inner) >= 2 {
			e3 := reflect.StructOf(inner)
			e2 := reflect.StructOf([]reflect.StructField{{Name: "E3", Type: e3, Anonymous: true}})
			e1 := reflect.StructOf([]reflect.StructField{{Name: "E2", Type: e2, Anonymous: true}})
			sf = append(top, reflect.StructField{Name: "E1", Type: e1, Anonymous: true})
		}
	}
	t := reflect.StructOf(sf)
	goStructCache[key] = t
	return t
}

func isListOfStructLike(t schema.Type) bool {
	for t.Which() == schema.Type_Which_list {
		t, _ = t.List().ElementType()
	}
	return t.Which() == schema.Type_Which_structType
}

// goField walks a Go value along a schema field path
func goField(v reflect.Value, path []string) reflect.Value {
	for _, p := range path {
		v = v.FieldByName(gname(p))
		if !v.IsValid() {
			return v
		}
	}
	return v
}

func xorBytes(a, b []byte) uint64 {
	var x [8]byte
	for i := range a {
		x[i] = a[i]
		if i < len(b) {
			x[i] ^= b[i]
		}
	}
	return binary.LittleEndian.Uint64(x[:])
}

// sameUnion: g is another member of one of the unions that f's path selects
func inactiveOnPath(f, g fld) bool {
	if !g.hasdisc {
		return false
	}
	if f.hasdisc && g.doff == f.doff && g.dval != f.dval && len(g.path) == len(f.path) && samePrefix(g.path, f.path, len(f.path)-1) {
		return true
	}
	for ai, a := range f.acts {
		at := f.actAt[ai]
		if g.doff == a.doff && g.dval != a.dval && len(g.path) == at+1 && samePrefix(g.path, f.path, at) {
			return true
		}
	}
	return false
}

func samePrefix(a, b []string, n int) bool {
	if len(a) < n || len(b) < n {
		return false
	}
	for i := 0; i < n; i++ {
		if a[i] != b[i] {
			return false
		}
	}
	return true
}

func setWhichOnPath(v reflect.Value, f fld) {
	for ai, a := range f.acts {
		if w := goField(v, f.path[:f.actAt[ai]]).FieldByName("Which"); w.IsValid() {
			w.SetUint(uint64(a.dval))
		}
	}
	if f.hasdisc {
		if w := goField(v, f.path[:len(f.path)-1]).FieldByName("Which"); w.IsValid() {
			w.SetUint(uint64(f.dval))
		}
	}
}

func doPogs() {
	for _, v := range []string{"plain", "embed", "rename", "byvalue"} {
		variant = v
		doPogsVariant()
	}
}

func doPogsVariant() {
	who := func(w string) string {
		if variant == "plain" {
			return w
		}
		return w + "/" + variant
	}
	for _, t := range types {
		gt := goStruct(t.id, 0)
		if gt == nil {
			continue
		}
		fs := enumerate(t.id, nil, nil, nil)
		us := unions(t.id)
		for _, f := range fs {
			f := f
			if f.ptr {
				pogsPtrValues(t, gt, f, who)
				pogsPtrDefault(t, gt, f, who)
			}
			if f.ptr || f.isGroup || f.bits == 0 {
				continue
			}
			if !goField(reflect.New(gt).Elem(), f.path).IsValid() {
				continue
			}
			for _, v := range testValues(f.bits) {
				// ---- Insert: value v in field f, every other active primitive field at its default
				// (stored as zero bits), garbage in the inactive members of the unions on f's path
				guarded(who("pogs-insert"), t, f, func() {
					_, seg, _ := capnp.NewMessage(capnp.SingleSegment(nil))
					s, _ := t.mk(seg)
					before := dataOf(s)
					gv := reflect.New(gt)
					for _, g := range fs {
						if g.ptr || g.isGroup || g.bits == 0 {
							continue
						}
						gf := goField(gv.Elem(), g.path)
						if !gf.IsValid() {
							continue
						}
						if inactiveOnPath(f, g) {
							gf.Set(goValue(gf.Type(), xorBytes(g.dflt, []byte{0xa5, 0x5a, 0xa5, 0x5a, 0xa5, 0x5a, 0xa5, 0x5a})|1))
						} else {
							gf.Set(goValue(gf.Type(), xorBytes(g.dflt, nil)))
						}
					}
					setWhichOnPath(gv.Elem(), f)
					fv := goField(gv.Elem(), f.path)
					arg := goValue(fv.Type(), v)
					fv.Set(arg)
					if err := pogs.Insert(t.id, s, gv.Interface()); err != nil {
						failure(who("pogs-insert"), t, f, "error", err)
						return
					}
					e := f.base(who("pogs-insert"), t)
					a := []int{}
					for _, x := range f.acts {
						a = append(a, x.doff, x.dval)
					}
					e["k"], e["before"], e["val"], e["after"], e["acts"] = "set", ints(before), ints(rawOf(arg, f.bits)), ints(dataOf(s)), a
					emit(e)
				})
			}
			// ---- Extract from a null struct: every field reads as its default
			zeroPath := !f.hasdisc || f.dval == 0
			for _, a := range f.acts {
				if a.dval != 0 {
					zeroPath = false
				}
			}
			if zeroPath {
				guarded(who("pogs-extract"), t, f, func() {
					gv := reflect.New(gt)
					if err := pogs.Extract(gv.Interface(), t.id, capnp.Struct{}); err != nil {
						failure(who("pogs-extract"), t, f, "error", err)
						return
					}
					g := f.base(who("pogs-extract"), t)
					g["k"], g["before"], g["val"] = "get", []int{}, ints(rawOf(goField(gv.Elem(), f.path), f.bits))
					emit(g)
				})
			}
			// ---- Extract from raw bytes built by other means
			for _, bg := range []byte{0x00, 0xff} {
				guarded(who("pogs-extract"), t, f, func() {
					_, seg, _ := capnp.NewMessage(capnp.SingleSegment(nil))
					s, _ := t.mk(seg)
					fill(s, bg)
					if bg == 0 {
						for i := 0; i < int(s.Size().DataSize); i++ {
							s.SetUint8(capnp.DataOffset(i), byte(i*37+11))
						}
					}
					for _, u := range us {
						s.SetUint16(capnp.DataOffset(2*u), 0)
					}
					for _, a := range f.acts {
						s.SetUint16(capnp.DataOffset(2*a.doff), uint16(a.dval))
					}
					if f.hasdisc {
						s.SetUint16(capnp.DataOffset(2*f.doff), uint16(f.dval))
					}
					gv := reflect.New(gt)
					if err := pogs.Extract(gv.Interface(), t.id, s); err != nil {
						failure(who("pogs-extract"), t, f, "error", err)
						return
					}
					g := f.base(who("pogs-extract"), t)
					g["k"], g["before"], g["val"] = "get", ints(dataOf(s)), ints(rawOf(goField(gv.Elem(), f.path), f.bits))
					emit(g)
					if f.hasdisc {
						w := goField(gv.Elem(), f.path[:len(f.path)-1]).FieldByName("Which")
						emit(J{"k": "which", "who": who("pogs-extract"), "type": t.name, "field": f.name(), "doff": f.doff, "dval": int(w.Uint()), "before": ints(dataOf(s))})
					}
					// members of the selected unions that are not active must not have been read
					untouched := true
					what := ""
					for _, o := range fs {
						if o.ptr || o.isGroup || o.bits == 0 || !inactiveOnPath(f, o) {
							continue
						}
						if of := goField(gv.Elem(), o.path); of.IsValid() && !of.IsZero() {
							untouched, what = false, o.name()
						}
					}
					x := f.base(who("pogs-extract"), t)
					x["k"], x["ok"], x["what"] = "inactive-read", untouched, what
					emit(x)
				})
			}
		}
		if variant != "byvalue" {
			// (structs held by value in inactive union members do not round-trip as such: the variant exists for the defaults of null structs)
			pogsRoundTrip(t, gt, fs)
		}
	}
}

// pogsPtrDefault: Extract of a message whose struct / List(UInt16) slot is null shows the field's default; a struct held by
// value (variant "byvalue") shows the defaults of the target type's fields even when the field itself has no default
func pogsPtrDefault(t typ, gt reflect.Type, f fld, who func(string) string) {
	if f.kind != schema.Type_Which_structType && f.kind != schema.Type_Which_list {
		return
	}
	if !goField(reflect.New(gt).Elem(), f.path).IsValid() {
		return
	}
	guarded(who("pogs-extract"), t, f, func() {
		_, seg, _ := capnp.NewMessage(capnp.SingleSegment(nil))
		s, _ := t.mk(seg)
		for _, a := range f.acts {
			s.SetUint16(capnp.DataOffset(2*a.doff), uint16(a.dval))
		}
		if f.hasdisc {
			s.SetUint16(capnp.DataOffset(2*f.doff), uint16(f.dval))
		}
		gv := reflect.New(gt)
		if err := pogs.Extract(gv.Interface(), t.id, s); err != nil {
			failure(who("pogs-extract"), t, f, "error", err)
			return
		}
		fv := goField(gv.Elem(), f.path)
		var got, want []byte
		switch {
		case f.kind == schema.Type_Which_list:
			if fv.Kind() != reflect.Slice || fv.Type().Elem().Kind() != reflect.Uint16 {
				return
			}
			got = []byte{}
			for i := 0; i < fv.Len() && i < 8; i++ {
				got = append(got, byte(fv.Index(i).Uint()), byte(fv.Index(i).Uint()>>8))
			}
			want = f.sdflt
			if want == nil {
				want = []byte{}
			}
		default:
			tid := f.typ.StructType().TypeId()
			tn := findNode(tid)
			if dn, _ := tn.DisplayName(); !strings.HasSuffix(dn, ":T") {
				return // only the generated target type T(x, y = 300) is summarised
			}
			if fv.Kind() == reflect.Ptr {
				if fv.IsNil() {
					if f.sdflt != nil {
						failure(who("pogs-extract"), t, f, "readback", "a null struct slot with a default extracted as nil")
					}
					return
				}
				fv = fv.Elem()
			}
			x, y := fv.FieldByName(gname("x")), fv.FieldByName(gname("y"))
			if !x.IsValid() || !y.IsValid() {
				return
			}
			// the Go value shows field values; stored bytes are value XOR field default (y: 300 = 44, 1)
			got = []byte{byte(x.Uint()), byte(y.Uint()) ^ 44, byte(y.Uint()>>8) ^ 1}
			want = f.sdflt
			if want == nil {
				want = []byte{0, 0, 0} // null struct: every field of T at its default
			}
		}
		e := f.base(who("pogs-extract"), t)
		e["k"], e["got"], e["dflt"] = "pdef", ints(got), ints(want)
		emit(e)
	})
}

// populate fills pointer-typed Go fields with non-empty values, primitive ones with a pattern
func populate(v reflect.Value, salt int) {
	switch v.Kind() {
	case reflect.Ptr:
		v.Set(reflect.New(v.Type().Elem()))
		populate(v.Elem(), salt+1)
	case reflect.Struct:
		for i := 0; i < v.NumField(); i++ {
			if v.Type().Field(i).Name == "Which" {
				continue
			}
			populate(v.Field(i), salt+i)
		}
	case reflect.Slice:
		if v.Type().Elem().Kind() == reflect.Uint8 {
			v.SetBytes([]byte{byte(salt), 2, 3})
			return
		}
		v.Set(reflect.MakeSlice(v.Type(), 2, 2))
		for i := 0; i < 2; i++ {
			populate(v.Index(i), salt+7*i)
		}
	case reflect.String:
		v.SetString(fmt.Sprintf("s%d\"\\", salt))
	case reflect.Bool:
		v.SetBool(salt%2 == 0)
	case reflect.Float32, reflect.Float64:
		v.SetFloat(float64(salt) + 0.5)
	case reflect.Int8, reflect.Int16, reflect.Int32, reflect.Int64:
		v.SetInt(int64(-salt - 1))
	case reflect.Uint8, reflect.Uint16, reflect.Uint32, reflect.Uint64:
		v.SetUint(uint64(salt + 1))
	}
}

// clearInactive zeroes everything that is not selected by the Which fields (so that DeepEqual compares what pogs documents)
func clearInactive(id uint64, v reflect.Value) {
	n := findNode(id)
	sn := n.StructNode()
	fields, _ := sn.Fields()
	var which uint16
	if w := v.FieldByName("Which"); w.IsValid() {
		which = uint16(w.Uint())
	}
	for i := 0; i < fields.Len(); i++ {
		f := fields.At(i)
		name, _ := f.Name()
		gf := v.FieldByName(gname(name))
		if !gf.IsValid() {
			continue
		}
		if dv := f.DiscriminantValue(); dv != schema.Field_noDiscriminant && dv != which {
			gf.Set(reflect.Zero(gf.Type()))
			continue
		}
		switch f.Which() {
		case schema.Field_Which_group:
			clearInactive(f.Group().TypeId(), gf)
		case schema.Field_Which_slot:
			t, _ := f.Slot().Type()
			clearInType(t, gf)
		}
	}
}

func clearInType(t schema.Type, gf reflect.Value) {
	switch t.Which() {
	case schema.Type_Which_structType:
		if gf.Kind() == reflect.Ptr && !gf.IsNil() {
			clearInactive(t.StructType().TypeId(), gf.Elem())
		}
	case schema.Type_Which_list:
		et, _ := t.List().ElementType()
		if gf.Kind() == reflect.Slice && gf.Type().Elem().Kind() != reflect.Uint8 {
			for i := 0; i < gf.Len(); i++ {
				clearInType(et, gf.Index(i))
			}
		}
	}
}

func pogsRoundTrip(t typ, gt reflect.Type, fs []fld) {
	// one variant per top-level union member (or a single one), everything populated
	n := findNode(t.id)
	sn := n.StructNode()
	variants := []int{0}
	if sn.DiscriminantCount() > 0 {
		variants = nil
		fields, _ := sn.Fields()
		for i := 0; i < fields.Len(); i++ {
			if dv := fields.At(i).DiscriminantValue(); dv != schema.Field_noDiscriminant {
				variants = append(variants, int(dv))
			}
		}
	}
	for _, w := range variants {
		ok, what := true, ""
		func() {
			defer func() {
				if p := recover(); p != nil {
					ok, what = false, fmt.Sprint("panic: ", p)
				}
			}()
			gv := reflect.New(gt)
			populate(gv.Elem(), w)
			if wf := gv.Elem().FieldByName("Which"); wf.IsValid() {
				wf.SetUint(uint64(w))
			}
			clearInactive(t.id, gv.Elem())
			_, seg, _ := capnp.NewMessage(capnp.SingleSegment(nil))
			s, rv := t.mk(seg)
			if err := pogs.Insert(t.id, s, gv.Interface()); err != nil {
				ok, what = false, "insert: "+err.Error()
				return
			}
			back := reflect.New(gt)
			if err := pogs.Extract(back.Interface(), t.id, s); err != nil {
				ok, what = false, "extract: "+err.Error()
				return
			}
			if !reflect.DeepEqual(gv.Interface(), back.Interface()) {
				a, _ := json.Marshal(gv.Interface())
				b, _ := json.Marshal(back.Interface())
				ok, what = false, fmt.Sprintf("inserted %s, extracted %s", a, b)
				return
			}
			// agreement with the generated accessors on the message pogs wrote
			for _, f := range fs {
				if len(f.path) != 1 || f.isGroup || (f.hasdisc && f.dval != w) {
					continue
				}
				gf := gv.Elem().FieldByName(gname(f.path[0]))
				if !gf.IsValid() {
					continue
				}
				g := rv.MethodByName(title(f.path[0]))
				if !g.IsValid() {
					continue
				}
				r := g.Call(nil)
				switch {
				case !f.ptr && f.bits > 0:
					if !bytes.Equal(rawOf(r[0], f.bits), rawOf(gf, f.bits)) {
						ok, what = false, fmt.Sprintf("field %s: generated getter %v, inserted %v", f.name(), r[0].Interface(), gf.Interface())
					}
				case f.kind == schema.Type_Which_text:
					if r[0].String() != gf.String() {
						ok, what = false, fmt.Sprintf("field %s: generated getter %q, inserted %q", f.name(), r[0].String(), gf.String())
					}
				case f.kind == schema.Type_Which_data:
					if !bytes.Equal(r[0].Bytes(), gf.Bytes()) {
						ok, what = false, fmt.Sprintf("field %s: generated getter %v, inserted %v", f.name(), r[0].Bytes(), gf.Bytes())
					}
				case f.kind == schema.Type_Which_list:
					if l := r[0].MethodByName("Len"); l.IsValid() && int(l.Call(nil)[0].Int()) != gf.Len() {
						ok, what = false, fmt.Sprintf("field %s: generated list length %d, inserted %d", f.name(), l.Call(nil)[0].Int(), gf.Len())
					}
				}
			}
		}()
		emit(J{"k": "roundtrip", "who": "pogs/" + variant, "type": t.name, "field": fmt.Sprint("which=", w), "ok": ok, "what": what})
	}
	// Insert into a struct that already has contents: what Extract (and nothing else is observable) returns afterwards
	// must not depend on what the struct held before - Insert writes every active member, null / default included.
	mk := func(w int, full bool) reflect.Value {
		gv := reflect.New(gt)
		if full {
			populate(gv.Elem(), w+3)
		}
		if wf := gv.Elem().FieldByName("Which"); wf.IsValid() {
			wf.SetUint(uint64(w))
		}
		clearInactive(t.id, gv.Elem())
		return gv
	}
	for wi, w := range variants {
		w2 := variants[(wi+1)%len(variants)]
		for bi, b := range []struct {
			w    int
			full bool
		}{{w, false}, {w2, false}, {w2, true}} {
			if bi > 0 && len(variants) == 1 && !b.full {
				continue
			}
			ok, what := true, ""
			func() {
				defer func() {
					if p := recover(); p != nil {
						ok, what = false, fmt.Sprint("panic: ", p)
					}
				}()
				_, seg, _ := capnp.NewMessage(capnp.SingleSegment(nil))
				s, _ := t.mk(seg)
				if err := pogs.Insert(t.id, s, mk(w, true).Interface()); err != nil {
					ok, what = false, "insert: "+err.Error()
					return
				}
				if err := pogs.Insert(t.id, s, mk(b.w, b.full).Interface()); err != nil {
					ok, what = false, "second insert: "+err.Error()
					return
				}
				over := reflect.New(gt)
				if err := pogs.Extract(over.Interface(), t.id, s); err != nil {
					ok, what = false, "extract: "+err.Error()
					return
				}
				_, seg2, _ := capnp.NewMessage(capnp.SingleSegment(nil))
				s2, _ := t.mk(seg2)
				if err := pogs.Insert(t.id, s2, mk(b.w, b.full).Interface()); err != nil {
					ok, what = false, "fresh insert: "+err.Error()
					return
				}
				fresh := reflect.New(gt)
				if err := pogs.Extract(fresh.Interface(), t.id, s2); err != nil {
					ok, what = false, "fresh extract: "+err.Error()
					return
				}
				if !reflect.DeepEqual(over.Interface(), fresh.Interface()) {
					a, _ := json.Marshal(over.Interface())
					c, _ := json.Marshal(fresh.Interface())
					ok, what = false, fmt.Sprintf("inserted over a populated struct and extracted: %s; inserted into a fresh struct and extracted: %s", a, c)
				}
			}()
			emit(J{"k": "roundtrip", "who": "pogs/" + variant, "type": t.name, "field": fmt.Sprintf("which=%d overwritten-by=%d/%v", w, b.w, b.full), "ok": ok, "what": what})
		}
	}
}

func main() {
	tf, err := os.Create(os.Args[2])
	if err != nil {
		panic(err)
	}
	tw := bufio.NewWriterSize(tf, 1<<20)
	out = json.NewEncoder(tw)
	switch os.Args[1] {
	case "gen":
		doGen()
	case "pogs":
		doPogs()
	case "text":
		doText()
	}
	tw.Flush()
	tf.Close()
	c, _ := json.Marshal(counts)
	fmt.Printf("{\"summary\":true,\"lines\":%d,\"types\":%d,\"failed_encodes\":%d,\"counts\":%s}\n", nlines, len(types), failedEncodes, c)
}
