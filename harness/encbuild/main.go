// Driver for the writing side of the encoding family (C04, C05, C16).
//
//	encbuild run <behaviours.ndjson> <arenas.json> <dumps.ndjson>
//
// Replays TLC-generated operation sequences (spec/enc/BuilderAbs.tla) through the
// public builder API in every listed arena configuration.  After every step it
// (a) reads the message back through the accessors and compares with the value
// the spec expects, (b) writes the raw segment bytes + the expected value to the
// dump file, which TLC (EncTrace) decodes independently.  After the last step
// every serialisation path is exercised with several reader chunkings.
package main

import (
	"bufio"
	"context"
	"bytes"
	"encoding/json"
	"fmt"
	"io"
	"os"
	"strconv"
	"sync"
	"sync/atomic"

	capnp "capnproto.org/go/capnp/v3"
	"capnproto.org/go/capnp/v3/internal/verifh/vwalk"
)

type J = map[string]interface{}

type behaviour struct {
	Ops   []J `json:"ops"`
	NMsgs int `json:"nmsgs"`
}

type arenaCfg struct {
	Name   string `json:"name"`
	Kind   string `json:"kind"` // std-single | std-multi | single | multi
	Caps   []int  `json:"caps"` // words: single: initial capacity then growth step; multi: per-segment capacities (cycled)
	Reuse  bool   `json:"reuse"`
}

// ScriptArena realises exactly the configured capacities and fills all spare capacity with 0xAA.
type ScriptArena struct {
	cfg  arenaCfg
	segs [][]byte
}

func dirty(n int) []byte {
	b := make([]byte, n)
	for i := range b {
		b[i] = 0xAA
	}
	return b
}

func (a *ScriptArena) NumSegments() int64 { return int64(len(a.segs)) }
func (a *ScriptArena) Data(id capnp.SegmentID) ([]byte, error) {
	if int(id) >= len(a.segs) {
		return nil, fmt.Errorf("no segment %d", id)
	}
	return a.segs[id], nil
}
func (a *ScriptArena) Allocate(minsz capnp.Size, segs map[capnp.SegmentID]*capnp.Segment) (capnp.SegmentID, []byte, error) {
	need := (int(minsz) + 7) &^ 7
	cur := func(i int) []byte {
		if s := segs[capnp.SegmentID(i)]; s != nil {
			return s.Data()
		}
		return a.segs[i]
	}
	if a.cfg.Kind == "single" {
		var data []byte
		if len(a.segs) == 1 {
			data = cur(0)
		}
		step := 8 * a.cfg.Caps[len(a.cfg.Caps)-1]
		if len(a.segs) == 0 {
			step = 8 * a.cfg.Caps[0]
		}
		if cap(data)-len(data) >= need {
			return 0, data, nil
		}
		grow := step
		if grow < need {
			grow = need
		}
		nb := dirty(len(data) + grow)
		copy(nb, data)
		nb = nb[:len(data)]
		if len(a.segs) == 0 {
			a.segs = append(a.segs, nb)
		} else {
			a.segs[0] = nb
		}
		return 0, nb, nil
	}
	if a.cfg.Reuse {
		for i := range a.segs {
			d := cur(i)
			if cap(d)-len(d) >= need {
				return capnp.SegmentID(i), d, nil
			}
		}
	}
	c := 8 * a.cfg.Caps[len(a.segs)%len(a.cfg.Caps)]
	if c < need {
		c = need
	}
	nb := dirty(c)[:0]
	a.segs = append(a.segs, nb)
	return capnp.SegmentID(len(a.segs) - 1), nb, nil
}

func newArena(c arenaCfg) capnp.Arena {
	switch c.Kind {
	case "std-single":
		return capnp.SingleSegment(nil)
	case "std-multi":
		return capnp.MultiSegment(nil)
	}
	return &ScriptArena{cfg: c}
}

var (
	outMu sync.Mutex
	enc   = json.NewEncoder(os.Stdout)
)

func emit(v interface{}) {
	outMu.Lock()
	enc.Encode(v)
	outMu.Unlock()
}

// countHook is an instrumented capability: it only counts Shutdown calls.
type countHook struct {
	m, i  int
	shuts int32
}

func (h *countHook) Send(ctx context.Context, s capnp.Send) (*capnp.Answer, capnp.ReleaseFunc) {
	return capnp.ErrorAnswer(s.Method, fmt.Errorf("verif hook")), func() {}
}
func (h *countHook) Recv(ctx context.Context, r capnp.Recv) capnp.PipelineCaller {
	r.Reject(fmt.Errorf("verif hook"))
	return nil
}
func (h *countHook) Brand() capnp.Brand { return capnp.Brand{Value: h} }
func (h *countHook) Shutdown()          { atomic.AddInt32(&h.shuts, 1) }

type world struct {
	hooks  map[[2]int]*countHook
	msgs   []*capnp.Message
	segs0  []*capnp.Segment
	objs   map[int]interface{} // id -> capnp.Struct | capnp.List
}

func num(v interface{}) int { return int(v.(float64)) }

func byteSeq(v interface{}) []byte {
	xs := v.([]interface{})
	b := make([]byte, len(xs))
	for i, x := range xs {
		b[i] = byte(x.(float64))
	}
	return b
}

func (w *world) structOf(ts J) capnp.Struct {
	if ts["k"] == "obj" {
		return w.objs[num(ts["id"])].(capnp.Struct)
	}
	return w.objs[num(ts["id"])].(capnp.List).Struct(num(ts["idx"]) - 1)
}

func (w *world) ptrOf(src J, seg *capnp.Segment) capnp.Ptr {
	if k, ok := src["k"]; ok && k == "elem" {
		return w.structOf(src).ToPtr()
	}
	switch src["r"] {
	case "null":
		return capnp.Ptr{}
	case "cap":
		return capnp.NewInterface(seg, capnp.CapabilityID(num(src["i"]))).ToPtr()
	case "obj":
		switch o := w.objs[num(src["id"])].(type) {
		case capnp.Struct:
			return o.ToPtr()
		case capnp.List:
			return o.ToPtr()
		}
	}
	panic(fmt.Sprint("bad source ", src))
}

func le(b []byte) uint64 {
	var v uint64
	for i := len(b) - 1; i >= 0; i-- {
		v = v<<8 | uint64(b[i])
	}
	return v
}

// apply executes one operation; returns an error string for API errors (reported, the behaviour is abandoned)
func (w *world) apply(op J) (err error) {
	defer func() {
		if p := recover(); p != nil {
			err = fmt.Errorf("panic: %v", p)
		}
	}()
	switch op["op"] {
	case "newroot", "newstruct":
		m := num(op["m"]) - 1
		sz := capnp.ObjectSize{DataSize: capnp.Size(num(op["db"])), PointerCount: uint16(num(op["pc"]))}
		var s capnp.Struct
		if op["op"] == "newroot" {
			s, err = capnp.NewRootStruct(w.segs0[m], sz)
		} else {
			s, err = capnp.NewStruct(w.segs0[m], sz)
		}
		w.objs[num(op["id"])] = s
	case "setdata":
		s := w.structOf(op["tgt"].(J))
		off := num(op["off"])
		val := byteSeq(op["val"])
		switch num(op["width"]) {
		case 1:
			s.SetBit(capnp.BitOffset(off), val[0] == 1)
		case 8:
			s.SetUint8(capnp.DataOffset(off), val[0])
		case 16:
			s.SetUint16(capnp.DataOffset(off*2), uint16(le(val)))
		case 32:
			s.SetUint32(capnp.DataOffset(off*4), uint32(le(val)))
		case 64:
			s.SetUint64(capnp.DataOffset(off*8), le(val))
		}
	case "setptr":
		s := w.structOf(op["tgt"].(J))
		err = s.SetPtr(uint16(num(op["i"])), w.ptrOf(op["src"].(J), s.Segment()))
	case "newlist":
		m := num(op["m"]) - 1
		n := int32(num(op["n"]))
		seg := w.segs0[m]
		var l capnp.List
		switch num(op["k"]) {
		case 0:
			l = capnp.NewVoidList(seg, n).List
		case 1:
			var x capnp.BitList
			x, err = capnp.NewBitList(seg, n)
			l = x.List
		case 2:
			var x capnp.UInt8List
			x, err = capnp.NewUInt8List(seg, n)
			l = x.List
		case 3:
			var x capnp.UInt16List
			x, err = capnp.NewUInt16List(seg, n)
			l = x.List
		case 4:
			var x capnp.UInt32List
			x, err = capnp.NewUInt32List(seg, n)
			l = x.List
		case 5:
			var x capnp.UInt64List
			x, err = capnp.NewUInt64List(seg, n)
			l = x.List
		case 6:
			var x capnp.PointerList
			x, err = capnp.NewPointerList(seg, n)
			l = x.List
		}
		w.objs[num(op["id"])] = l
	case "newcomp":
		m := num(op["m"]) - 1
		sz := capnp.ObjectSize{DataSize: capnp.Size(num(op["db"])), PointerCount: uint16(num(op["pc"]))}
		var l capnp.List
		l, err = capnp.NewCompositeList(w.segs0[m], sz, int32(num(op["n"])))
		w.objs[num(op["id"])] = l
	case "setelem":
		l := w.objs[num(op["list"])].(capnp.List)
		i := num(op["idx"])
		val := byteSeq(op["val"])
		switch num(op["k"]) {
		case 1:
			capnp.BitList{List: l}.Set(i, val[0] == 1)
		case 2:
			capnp.UInt8List{List: l}.Set(i, val[0])
		case 3:
			capnp.UInt16List{List: l}.Set(i, uint16(le(val)))
		case 4:
			capnp.UInt32List{List: l}.Set(i, uint32(le(val)))
		case 5:
			capnp.UInt64List{List: l}.Set(i, le(val))
		}
	case "setplist":
		l := w.objs[num(op["list"])].(capnp.List)
		err = capnp.PointerList{List: l}.Set(num(op["idx"]), w.ptrOf(op["src"].(J), l.Segment()))
	case "settext":
		s := w.structOf(op["tgt"].(J))
		b := byteSeq(op["bytes"])
		i := uint16(num(op["i"]))
		switch op["kind"] {
		case "text":
			err = s.SetText(i, string(b))
		case "newtext":
			err = s.SetNewText(i, string(b))
		case "data":
			if b == nil {
				b = []byte{}
			}
			err = s.SetData(i, b)
		}
	case "setstruct":
		tgt := op["tgt"].(J)
		l := w.objs[num(tgt["id"])].(capnp.List)
		err = l.SetStruct(num(tgt["idx"])-1, w.structOf(op["src"].(J)))
	case "copyfrom":
		err = w.structOf(op["tgt"].(J)).CopyFrom(w.structOf(op["src"].(J)))
	case "setroot":
		m := num(op["m"]) - 1
		err = w.msgs[m].SetRoot(w.ptrOf(op["src"].(J), w.segs0[m]))
	default:
		err = fmt.Errorf("unknown op %v", op["op"])
	}
	return err
}

func segsOf(m *capnp.Message) ([][]byte, error) {
	n := int(m.NumSegments())
	out := make([][]byte, n)
	for i := 0; i < n; i++ {
		s, err := m.Segment(capnp.SegmentID(i))
		if err != nil {
			return nil, err
		}
		out[i] = s.Data()
	}
	return out, nil
}

func wordsJSON(segs [][]byte) []interface{} {
	out := make([]interface{}, len(segs))
	for i, s := range segs {
		ws := make([]interface{}, len(s)/8)
		for w := range ws {
			b := make([]int, 8)
			for k := 0; k < 8; k++ {
				b[k] = int(s[w*8+k])
			}
			ws[w] = b
		}
		out[i] = ws
	}
	return out
}

func intsOf(b []byte) []int {
	r := make([]int, len(b))
	for i, x := range b {
		r[i] = int(x)
	}
	return r
}

type chunkReader struct {
	b []byte
	n int
}

func (c *chunkReader) Read(p []byte) (int, error) {
	if len(c.b) == 0 {
		return 0, io.EOF
	}
	k := c.n
	if k > len(p) {
		k = len(p)
	}
	if k > len(c.b) {
		k = len(c.b)
	}
	copy(p, c.b[:k])
	c.b = c.b[k:]
	return k, nil
}

const walkDepth = 6

// readBack reads a message through the accessors with limits out of the way.
func readBack(m *capnp.Message) (n vwalk.Node) {
	defer func() {
		if p := recover(); p != nil {
			n = vwalk.Node{"t": "panic", "xbad": fmt.Sprint("panic while reading back: ", p)}
		}
	}()
	m.TraverseLimit = 1 << 40
	m.DepthLimit = 1 << 20
	m.ResetReadLimit(1 << 40)
	root, err := m.Root()
	if err != nil {
		return vwalk.Err(err)
	}
	return vwalk.Walk(root, walkDepth)
}

type runner struct {
	dump  *json.Encoder
	dmu   sync.Mutex
	stats map[string]int
	smu   sync.Mutex
}

func (r *runner) count(k string, n int) {
	r.smu.Lock()
	r.stats[k] += n
	r.smu.Unlock()
}

func (r *runner) runOne(bi int, b *behaviour, ac arenaCfg, full bool) {
	w := &world{objs: map[int]interface{}{}, hooks: map[[2]int]*countHook{}}
	for i := 0; i < b.NMsgs; i++ {
		m, seg, err := capnp.NewMessage(newArena(ac))
		if err != nil {
			emit(J{"beh": bi, "arena": ac.Name, "step": 0, "path": "newmessage", "diff": err.Error()})
			return
		}
		// two capability-table entries, as the model assumes: instrumented capabilities <<m, 0>>, <<m, 1>>
		for k := 0; k < 2; k++ {
			h := &countHook{m: i + 1, i: k}
			w.hooks[[2]int{i + 1, k}] = h
			m.AddCap(capnp.NewClient(h))
		}
		w.msgs = append(w.msgs, m)
		w.segs0 = append(w.segs0, seg)
	}
	for si, op := range b.Ops {
		if err := w.apply(op); err != nil {
			emit(J{"beh": bi, "arena": ac.Name, "step": si + 1, "path": "api", "diff": "operation failed: " + err.Error(), "op": op})
			return
		}
		r.count("ops", 1)
		exps := op["exp"].([]interface{})
		last := si == len(b.Ops)-1
		if d := w.checkCapTables(op["captab"].([]interface{})); d != "" {
			emit(J{"beh": bi, "arena": ac.Name, "step": si + 1, "path": "captable", "diff": d, "op": op})
		}
		for mi, m := range w.msgs {
			exp := exps[mi]
			// (a) read back through the library's own accessors
			if d := vwalk.Compare(exp, readBack(m), "root"); d != "" {
				emit(J{"beh": bi, "arena": ac.Name, "step": si + 1, "m": mi + 1, "path": "direct", "diff": d, "op": op})
			}
			r.count("readbacks", 1)
			// (b) raw bytes for TLC
			segs, err := segsOf(m)
			if err != nil {
				emit(J{"beh": bi, "arena": ac.Name, "step": si + 1, "m": mi + 1, "path": "segments", "diff": err.Error()})
				continue
			}
			rec := J{"beh": bi, "arena": ac.Name, "step": si + 1, "m": mi + 1, "segs": wordsJSON(segs), "exp": exp,
				"ncaps": len(m.CapTable), "framed": []int{}}
			if last || full {
				fb, err := m.Marshal()
				if err != nil {
					emit(J{"beh": bi, "arena": ac.Name, "step": si + 1, "m": mi + 1, "path": "marshal", "diff": err.Error()})
				} else {
					rec["framed"] = intsOf(fb)
				}
			}
			ah := 0
			for _, ch := range ac.Name {
				ah += int(ch)
			}
			if (last && (bi+ah)%dumpLastEvery == 0) || (bi+si)%dumpEvery == 0 {
				r.dmu.Lock()
				r.dump.Encode(rec)
				r.dmu.Unlock()
				r.count("dumps", 1)
			}
			if last {
				r.roundTrips(bi, ac, si+1, mi+1, m, exp)
			}
		}
		if last {
			if d := w.resetAll(op["captab"].([]interface{})); d != "" {
				emit(J{"beh": bi, "arena": ac.Name, "step": si + 1, "path": "reset", "diff": d})
			}
		}
	}
}

// checkCapTables compares every message's capability table with the model's: same length, and
// entry k denotes the capability the model names (copied capability pointers get a fresh entry
// denoting the source's capability), and no capability has been shut down while referenced.
func (w *world) checkCapTables(exp []interface{}) string {
	for mi, m := range w.msgs {
		want := exp[mi].([]interface{})
		if len(m.CapTable) != len(want) {
			return fmt.Sprintf("message %d: capability table has %d entries, spec says %d", mi+1, len(m.CapTable), len(want))
		}
		for k, e := range want {
			id := e.([]interface{})
			key := [2]int{num(id[0]), num(id[1])}
			h := w.hooks[key]
			c := m.CapTable[k]
			if h == nil {
				continue
			}
			got, _ := c.State().Brand.Value.(*countHook)
			if got != h {
				return fmt.Sprintf("message %d: capability table entry %d does not denote capability %v", mi+1, k, key)
			}
			if atomic.LoadInt32(&h.shuts) != 0 {
				return fmt.Sprintf("capability %v was shut down while message %d still references it", key, mi+1)
			}
		}
	}
	return ""
}

// resetAll resets the messages one by one; a capability must be shut down exactly when the last
// message whose table references it has been reset.
func (w *world) resetAll(exp []interface{}) string {
	for mi, m := range w.msgs {
		m.Reset(capnp.SingleSegment(nil))
		// capabilities still referenced by a later message must be alive, all others shut down exactly once
		alive := map[[2]int]bool{}
		for mj := mi + 1; mj < len(w.msgs); mj++ {
			for _, e := range exp[mj].([]interface{}) {
				id := e.([]interface{})
				alive[[2]int{num(id[0]), num(id[1])}] = true
			}
		}
		for key, h := range w.hooks {
			n := atomic.LoadInt32(&h.shuts)
			switch {
			case alive[key] && n != 0:
				return fmt.Sprintf("after resetting messages 1..%d capability %v (still referenced by a later message) was shut down", mi+1, key)
			case !alive[key] && n != 1:
				return fmt.Sprintf("after resetting messages 1..%d capability %v (referenced by no remaining message) was shut down %d times, want 1", mi+1, key, n)
			}
		}
	}
	return ""
}

// roundTrips pushes the finished message through every serialisation path.
func (r *runner) roundTrips(bi int, ac arenaCfg, step, mi int, m *capnp.Message, exp interface{}) {
	check := func(path string, f func() (*capnp.Message, error)) {
		defer func() {
			if p := recover(); p != nil {
				emit(J{"beh": bi, "arena": ac.Name, "step": step, "m": mi, "path": path, "diff": fmt.Sprint("panic: ", p)})
			}
		}()
		m2, err := f()
		r.count("roundtrips", 1)
		if err != nil {
			emit(J{"beh": bi, "arena": ac.Name, "step": step, "m": mi, "path": path, "diff": "error: " + err.Error()})
			return
		}
		if d := vwalk.Compare(exp, readBack(m2), "root"); d != "" {
			emit(J{"beh": bi, "arena": ac.Name, "step": step, "m": mi, "path": path, "diff": d})
			return
		}
		// a received message can be built upon: allocating new objects in it (in each of its segments) does not disturb
		// what is there, and the message still serialises to the same value
		for si := int64(0); si < m2.NumSegments() && si < 4; si++ {
			seg, err := m2.Segment(capnp.SegmentID(si))
			if err != nil {
				continue
			}
			if _, err := capnp.NewData(seg, bytes.Repeat([]byte{0xEE}, 20)); err != nil {
				continue
			}
			if d := vwalk.Compare(exp, readBack(m2), "root"); d != "" {
				emit(J{"beh": bi, "arena": ac.Name, "step": step, "m": mi, "path": path + ":then-alloc", "diff": "after allocating 20 bytes in segment " + fmt.Sprint(si) + " of the received message: " + d})
				return
			}
		}
		if b3, err := m2.Marshal(); err == nil {
			if m3, err := capnp.Unmarshal(b3); err == nil {
				if d := vwalk.Compare(exp, readBack(m3), "root"); d != "" {
					emit(J{"beh": bi, "arena": ac.Name, "step": step, "m": mi, "path": path + ":then-alloc-remarshal", "diff": d})
				}
			}
		}
	}
	check("marshal", func() (*capnp.Message, error) {
		b, err := m.Marshal()
		if err != nil {
			return nil, err
		}
		return capnp.Unmarshal(b)
	})
	check("marshal-packed", func() (*capnp.Message, error) {
		b, err := m.MarshalPacked()
		if err != nil {
			return nil, err
		}
		return capnp.UnmarshalPacked(b)
	})
	var plain, packed bytes.Buffer
	if err := capnp.NewEncoder(&plain).Encode(m); err != nil {
		emit(J{"beh": bi, "arena": ac.Name, "step": step, "m": mi, "path": "encoder", "diff": "error: " + err.Error()})
		return
	}
	if err := capnp.NewPackedEncoder(&packed).Encode(m); err != nil {
		emit(J{"beh": bi, "arena": ac.Name, "step": step, "m": mi, "path": "packed-encoder", "diff": "error: " + err.Error()})
		return
	}
	mb, _ := m.Marshal()
	if !bytes.Equal(mb, plain.Bytes()) {
		emit(J{"beh": bi, "arena": ac.Name, "step": step, "m": mi, "path": "encoder", "diff": "Encoder output differs from Marshal output"})
	}
	for _, chunk := range []int{1, 7, 8, 9, 4096} {
		chunk := chunk
		check(fmt.Sprintf("stream:chunk=%d", chunk), func() (*capnp.Message, error) {
			return capnp.NewDecoder(&chunkReader{plain.Bytes(), chunk}).Decode()
		})
		check(fmt.Sprintf("packed-stream:chunk=%d", chunk), func() (*capnp.Message, error) {
			return capnp.NewPackedDecoder(&chunkReader{packed.Bytes(), chunk}).Decode()
		})
	}
	check("stream:reuse", func() (*capnp.Message, error) {
		d := capnp.NewDecoder(&chunkReader{append(append([]byte{}, plain.Bytes()...), plain.Bytes()...), 5})
		d.ReuseBuffer()
		if _, err := d.Decode(); err != nil {
			return nil, err
		}
		return d.Decode()
	})
}

var dumpEvery = 1
var dumpLastEvery = 1 // of the final states (one per behaviour and arena), every n-th is dumped for TLC

func main() {
	if n, err := strconv.Atoi(os.Getenv("VERIF_DUMP_EVERY")); err == nil && n > 0 {
		dumpEvery = n
	}
	if n, err := strconv.Atoi(os.Getenv("VERIF_DUMP_LAST_EVERY")); err == nil && n > 0 {
		dumpLastEvery = n
	}
	bf, err := os.Open(os.Args[2])
	if err != nil {
		panic(err)
	}
	defer bf.Close()
	var arenas []arenaCfg
	ab, err := os.ReadFile(os.Args[3])
	if err != nil {
		panic(err)
	}
	if err := json.Unmarshal(ab, &arenas); err != nil {
		panic(err)
	}
	df, err := os.Create(os.Args[4])
	if err != nil {
		panic(err)
	}
	dw := bufio.NewWriterSize(df, 1<<20)
	r := &runner{dump: json.NewEncoder(dw), stats: map[string]int{}}
	sc := bufio.NewScanner(bf)
	sc.Buffer(make([]byte, 1<<20), 256<<20)
	type job struct {
		i int
		b *behaviour
	}
	jobs := make(chan job, 64)
	var wg sync.WaitGroup
	for k := 0; k < 12; k++ {
		wg.Add(1)
		go func() {
			defer wg.Done()
			for j := range jobs {
				for _, ac := range arenas {
					r.runOne(j.i, j.b, ac, false)
				}
			}
		}()
	}
	n := 0
	for sc.Scan() {
		n++
		b := new(behaviour)
		if err := json.Unmarshal(sc.Bytes(), b); err != nil {
			panic(err)
		}
		jobs <- job{n, b}
	}
	close(jobs)
	wg.Wait()
	dw.Flush()
	df.Close()
	emit(J{"summary": true, "behaviours": n, "arenas": len(arenas), "stats": r.stats})
}
