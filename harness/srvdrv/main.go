// Driver for C12: replays environment scripts (spec/server/ServerEnv.tla) against a
// real server.Server reached through a capnp.Client and records the event log for
// TLC (spec/server/ServerTrace.tla).  No hook is needed: the method implementation,
// the callers and the Shutdowner are the harness.
//
//	srvdrv run <scripts.ndjson> <trace.ndjson> <maxConcurrent> <queueSize>
package main

import (
	"bufio"
	"context"
	"encoding/json"
	"fmt"
	"math/rand"
	"os"
	"runtime"
	"strconv"
	"sync"
	"time"

	capnp "capnproto.org/go/capnp/v3"
	"capnproto.org/go/capnp/v3/server"
)

type J = map[string]interface{}

type action struct {
	A   string `json:"a"`
	I   int    `json:"i"`
	On  int    `json:"on"`
	Res string `json:"res"`
}

type world struct {
	pans    map[int]*capnp.Answer // answers of pipelined calls, for second-level pipelines (pipe2)
	pansRdy map[int]chan struct{}
	mu      sync.Mutex
	trace   []J
	cmds    map[int]chan string // per call: "ack", "ok", "err"
	started map[int]chan struct{}
	answers map[int]*capnp.Answer
	ansRdy  map[int]chan struct{}
	cancels map[int]context.CancelFunc
	wg      sync.WaitGroup
}

func (w *world) log(ev string, i, on int, res string) {
	w.mu.Lock()
	w.trace = append(w.trace, J{"ev": ev, "i": i, "on": on, "res": res})
	w.mu.Unlock()
}

var meth = capnp.Method{InterfaceID: 0xabc, MethodID: 0}

func argOf(c *server.Call) int { return int(c.Args().Uint32(0)) }

// the capability returned in results: records deliveries of pipelined calls
type target struct {
	w    *world
	leaf bool
}

func (t *target) Send(ctx context.Context, s capnp.Send) (*capnp.Answer, capnp.ReleaseFunc) {
	return capnp.ErrorAnswer(s.Method, fmt.Errorf("unexpected Send on target")), func() {}
}
func (t *target) Recv(ctx context.Context, r capnp.Recv) capnp.PipelineCaller {
	t.w.log("pipe-delivered", int(r.Args.Uint32(0)), 0, "")
	// the target takes a moment: a call that is let through too early shows up between the queued ones
	time.Sleep(250 * time.Microsecond)
	r.ReleaseArgs()
	// the result holds a capability of its own (calls can be pipelined on this call's answer, too)
	if !t.leaf {
		if res, err := r.Returner.AllocResults(capnp.ObjectSize{PointerCount: 1}); err == nil {
			id := res.Message().AddCap(capnp.NewClient(&target{w: t.w, leaf: true}))
			res.SetPtr(0, capnp.NewInterface(res.Segment(), id).ToPtr())
		}
	}
	r.Returner.Return(nil)
	return nil
}
func (t *target) Brand() capnp.Brand { return capnp.Brand{} }
func (t *target) Shutdown()          {}

type shut struct{ w *world }

func (s shut) Shutdown() { s.w.log("user-shutdown", 0, 0, "") }

func (w *world) impl(ctx context.Context, c *server.Call) error {
	i := argOf(c)
	w.log("impl-start", i, 0, "")
	w.mu.Lock()
	cmd := w.cmds[i]
	st := w.started[i]
	w.mu.Unlock()
	close(st)
	done := ctx.Done()
	for {
		select {
		case x := <-cmd:
			switch x {
			case "ack":
				w.log("ack", i, 0, "")
				c.Ack()
			case "ok":
				res, err := c.AllocResults(capnp.ObjectSize{PointerCount: 1})
				if err == nil {
					id := res.Message().AddCap(capnp.NewClient(&target{w: w}))
					res.SetPtr(0, capnp.NewInterface(res.Segment(), id).ToPtr())
				}
				w.log("impl-return", i, 0, "ok")
				return nil
			case "err":
				w.log("impl-return", i, 0, "err")
				return fmt.Errorf("verif-impl-error")
			}
		case <-done:
			w.log("impl-cancelled", i, 0, "")
			done = nil
		}
	}
}

func placeArg(i int) func(capnp.Struct) error {
	return func(s capnp.Struct) error { s.SetUint32(0, uint32(i)); return nil }
}

func runScript(script []action, maxc, qsize int, rng *rand.Rand, id string) (trace []J, hang string) {
	w := &world{cmds: map[int]chan string{}, started: map[int]chan struct{}{}, answers: map[int]*capnp.Answer{},
		ansRdy: map[int]chan struct{}{}, cancels: map[int]context.CancelFunc{}, pans: map[int]*capnp.Answer{}, pansRdy: map[int]chan struct{}{}}
	srv := server.New([]server.Method{{Method: meth, Impl: w.impl}}, nil, shut{w}, &server.Policy{MaxConcurrentCalls: maxc, AnswerQueueSize: qsize})
	client := capnp.NewClient(srv)
	w.trace = append(w.trace, J{"ev": "reset", "i": 0, "on": 0, "res": "", "script": id})
	settle := func() { time.Sleep(time.Duration(300+rng.Intn(1500)) * time.Microsecond) }
	waitStarted := func(i int) bool {
		w.mu.Lock()
		st := w.started[i]
		w.mu.Unlock()
		if st == nil {
			return false
		}
		select {
		case <-st:
			return true
		case <-time.After(15 * time.Millisecond):
			return false
		}
	}
	returnedCalls := map[int]bool{}
	shutdownStarted := false
	for _, a := range script {
		switch a.A {
		case "invoke":
			i := a.I
			ctx, cancel := context.WithCancel(context.Background())
			w.mu.Lock()
			w.cmds[i] = make(chan string, 4)
			w.started[i] = make(chan struct{})
			w.ansRdy[i] = make(chan struct{})
			w.cancels[i] = cancel
			w.mu.Unlock()
			w.log("invoke", i, 0, "")
			w.wg.Add(1)
			go func() {
				defer w.wg.Done()
				ans, rel := client.SendCall(ctx, capnp.Send{Method: meth, ArgsSize: capnp.ObjectSize{DataSize: 8}, PlaceArgs: placeArg(i)})
				w.log("send-returned", i, 0, "")
				w.mu.Lock()
				w.answers[i] = ans
				close(w.ansRdy[i])
				w.mu.Unlock()
				_, err := ans.Struct()
				if err != nil {
					w.log("result", i, 0, "err")
				} else {
					w.log("result", i, 0, "ok")
				}
				_ = rel
			}()
		case "ack", "return":
			if returnedCalls[a.I] || !waitStarted(a.I) {
				continue // not enabled at run time: the server has not started this call
			}
			if a.A == "ack" {
				w.cmds[a.I] <- "ack"
			} else {
				w.cmds[a.I] <- a.Res
				returnedCalls[a.I] = true
			}
		case "cancel":
			w.log("cancel", a.I, 0, "")
			w.cancels[a.I]()
		case "pipe":
			w.mu.Lock()
			rdy := w.ansRdy[a.On]
			w.mu.Unlock()
			select {
			case <-rdy:
			case <-time.After(15 * time.Millisecond):
				continue // the answer is not available yet (Send has not returned)
			}
			w.mu.Lock()
			ans := w.answers[a.On]
			w.mu.Unlock()
			j := a.I
			w.mu.Lock()
			w.pansRdy[j] = make(chan struct{})
			w.mu.Unlock()
			w.log("pipe-invoke", j, a.On, "")
			w.wg.Add(1)
			go func() {
				defer w.wg.Done()
				pa, rel := ans.PipelineSend(context.Background(), []capnp.PipelineOp{{Field: 0}},
					capnp.Send{Method: meth, ArgsSize: capnp.ObjectSize{DataSize: 8}, PlaceArgs: placeArg(j)})
				w.mu.Lock()
				w.pans[j] = pa
				if ch := w.pansRdy[j]; ch != nil {
					close(ch)
				}
				w.mu.Unlock()
				_, err := pa.Struct()
				if err != nil {
					w.log("pipe-result", j, 0, "err")
				} else {
					w.log("pipe-result", j, 0, "ok")
				}
				_ = rel
			}()
		case "pipe2":
			// a call pipelined on the answer of pipelined call a.On (field 0 of its result), and - as soon as that answer is visible to
			// the caller - a direct call (id a.I + 100) on the capability in it: the pipelined call was made first
			w.mu.Lock()
			rdy := w.pansRdy[a.On]
			w.mu.Unlock()
			if rdy == nil {
				continue
			}
			select {
			case <-rdy:
			case <-time.After(15 * time.Millisecond):
				continue
			}
			w.mu.Lock()
			pb := w.pans[a.On]
			w.mu.Unlock()
			j := a.I
			w.log("pipe-invoke", j, a.On, "")
			w.wg.Add(2)
			go func() {
				defer w.wg.Done()
				pc, rel := pb.PipelineSend(context.Background(), []capnp.PipelineOp{{Field: 0}},
					capnp.Send{Method: meth, ArgsSize: capnp.ObjectSize{DataSize: 8}, PlaceArgs: placeArg(j)})
				_, err := pc.Struct()
				if err != nil {
					w.log("pipe-result", j, 0, "err")
				} else {
					w.log("pipe-result", j, 0, "ok")
				}
				_ = rel
			}()
			go func() {
				defer w.wg.Done()
				sb, err := pb.Struct()
				if err != nil {
					return
				}
				p, err := sb.Ptr(0)
				if err != nil || !p.Interface().Client().IsValid() {
					return
				}
				d := j + 100
				w.log("pipe-invoke", d, a.On, "")
				da, rel := p.Interface().Client().SendCall(context.Background(), capnp.Send{Method: meth, ArgsSize: capnp.ObjectSize{DataSize: 8}, PlaceArgs: placeArg(d)})
				_, err = da.Struct()
				if err != nil {
					w.log("pipe-result", d, 0, "err")
				} else {
					w.log("pipe-result", d, 0, "ok")
				}
				_ = rel
			}()
		case "shutdown":
			shutdownStarted = true
			w.log("shutdown-invoke", 0, 0, "")
			w.wg.Add(1)
			go func() {
				defer w.wg.Done()
				srv.Shutdown() // what Client.Release does once the last reference is gone and no Send is in progress
				w.log("shutdown-returned", 0, 0, "")
			}()
			// running implementations must observe cancellation
			time.Sleep(3 * time.Millisecond)
			w.mu.Lock()
			var running []int
			for i, st := range w.started {
				select {
				case <-st:
					if !returnedCalls[i] {
						running = append(running, i)
					}
				default:
				}
			}
			w.mu.Unlock()
			for _, i := range running {
				w.log("check-cancelled", i, 0, "")
			}
		}
		settle()
	}
	// wind down: let every started implementation return, cancel what never started
	deadline := time.Now().Add(3 * time.Second)
	for {
		w.mu.Lock()
		var pendingStart []int
		for i, st := range w.started {
			select {
			case <-st:
				if !returnedCalls[i] {
					returnedCalls[i] = true
					w.cmds[i] <- "ok"
				}
			default:
				pendingStart = append(pendingStart, i)
			}
		}
		w.mu.Unlock()
		fin := make(chan struct{})
		go func() { w.wg.Wait(); close(fin) }()
		select {
		case <-fin:
			if !shutdownStarted {
				w.log("shutdown-invoke", 0, 0, "")
				srv.Shutdown()
				w.log("shutdown-returned", 0, 0, "")
			}
			w.log("quiesce", 0, 0, "")
			w.mu.Lock()
			defer w.mu.Unlock()
			return w.trace, ""
		case <-time.After(20 * time.Millisecond):
		}
		if time.Now().After(deadline) {
			buf := make([]byte, 1<<16)
			n := runtime.Stack(buf, true)
			w.mu.Lock()
			defer w.mu.Unlock()
			return w.trace, string(buf[:n])
		}
		_ = pendingStart
	}
}

func main() {
	sf, err := os.Open(os.Args[2])
	if err != nil {
		panic(err)
	}
	tf, err := os.Create(os.Args[3])
	if err != nil {
		panic(err)
	}
	maxc, _ := strconv.Atoi(os.Args[4])
	qsize, _ := strconv.Atoi(os.Args[5])
	seed, _ := strconv.ParseInt(os.Getenv("VERIF_SEED"), 10, 64)
	rng := rand.New(rand.NewSource(seed))
	tw := bufio.NewWriterSize(tf, 1<<20)
	tenc := json.NewEncoder(tw)
	enc := json.NewEncoder(os.Stdout)
	sc := bufio.NewScanner(sf)
	sc.Buffer(make([]byte, 1<<20), 64<<20)
	n, events, hangs := 0, 0, 0
	for sc.Scan() {
		var script []action
		if err := json.Unmarshal(sc.Bytes(), &script); err != nil {
			panic(err)
		}
		n++
		if hangs >= 5 {
			continue
		}
		trace, hang := runScript(script, maxc, qsize, rng, fmt.Sprintf("s%d", n))
		if hang != "" {
			hangs++
			enc.Encode(J{"what": "hang", "script": script, "dump": hang, "trace": trace})
			continue
		}
		for _, e := range trace {
			tenc.Encode(e)
		}
		events += len(trace)
	}
	tw.Flush()
	tf.Close()
	enc.Encode(J{"summary": true, "scripts": n, "events": events, "hangs": hangs})
}
