// Driver for C20 (text rendering): produces texttrace.ndjson for TLC (spec/layout/TextTrace.tla).
//
//	textdrv run <strings.ndjson> <trace.ndjson> <reuse>
//
// (a) every byte string from the spec's generator, every single byte and a few long strings are
//     rendered through strquote.Append and through text.Marshal of structs holding them as Text and Data;
// (b) structs of several aircraftlib types are rendered; the text is parsed back and each field token is
//     paired with the value the generated accessor returns;
// (c) the same values are rendered on one long-lived Encoder after <reuse> prior Encodes.
package main

import (
	"math"
	"bufio"
	"bytes"
	"encoding/json"
	"fmt"
	"os"
	"strconv"

	capnp "capnproto.org/go/capnp/v3"
	"capnproto.org/go/capnp/v3/encoding/text"
	air "capnproto.org/go/capnp/v3/internal/aircraftlib"
	"capnproto.org/go/capnp/v3/internal/strquote"
)

type J = map[string]interface{}

func ints(b []byte) []int {
	r := make([]int, len(b))
	for i, x := range b {
		r[i] = int(x)
	}
	return r
}

var out *json.Encoder
var nlines = 0

func emit(e J) { out.Encode(e); nlines++ }

// ---- a tiny parser of the text format: returns the top-level fields of a struct "(a = x, b = y)" ----
type tok struct {
	kind string // punct, ident, number, string
	b    []byte
}

func lex(s []byte) ([]tok, error) {
	var ts []tok
	i := 0
	for i < len(s) {
		c := s[i]
		switch {
		case c == ' ':
			i++
		case bytes.IndexByte([]byte("()[]=,"), c) >= 0:
			ts = append(ts, tok{"punct", s[i : i+1]})
			i++
		case c == '"':
			j := i + 1
			for j < len(s) && s[j] != '"' {
				if s[j] == '\\' {
					j++
				}
				j++
			}
			if j >= len(s) {
				return nil, fmt.Errorf("unterminated string at %d", i)
			}
			ts = append(ts, tok{"string", s[i : j+1]})
			i = j + 1
		default:
			j := i
			for j < len(s) && bytes.IndexByte([]byte(" ()[]=,\""), s[j]) < 0 {
				j++
			}
			ts = append(ts, tok{"word", s[i:j]})
			i = j
		}
	}
	return ts, nil
}

type val struct {
	kind   string // word, string, struct, list
	b      []byte
	fields []field
	elems  []val
}
type field struct {
	name string
	v    val
}

func parseVal(ts []tok, i int) (val, int, error) {
	if i >= len(ts) {
		return val{}, i, fmt.Errorf("unexpected end")
	}
	t := ts[i]
	switch {
	case t.kind == "punct" && t.b[0] == '(':
		v := val{kind: "struct"}
		i++
		for i < len(ts) && !(ts[i].kind == "punct" && ts[i].b[0] == ')') {
			if ts[i].kind != "word" || i+1 >= len(ts) || ts[i+1].b[0] != '=' {
				return v, i, fmt.Errorf("expected name = at token %d", i)
			}
			name := string(ts[i].b)
			fv, ni, err := parseVal(ts, i+2)
			if err != nil {
				return v, ni, err
			}
			v.fields = append(v.fields, field{name, fv})
			i = ni
			if i < len(ts) && ts[i].kind == "punct" && ts[i].b[0] == ',' {
				i++
			}
		}
		return v, i + 1, nil
	case t.kind == "punct" && t.b[0] == '[':
		v := val{kind: "list"}
		i++
		for i < len(ts) && !(ts[i].kind == "punct" && ts[i].b[0] == ']') {
			ev, ni, err := parseVal(ts, i)
			if err != nil {
				return v, ni, err
			}
			v.elems = append(v.elems, ev)
			i = ni
			if i < len(ts) && ts[i].kind == "punct" && ts[i].b[0] == ',' {
				i++
			}
		}
		return v, i + 1, nil
	case t.kind == "string":
		return val{kind: "string", b: t.b}, i + 1, nil
	case t.kind == "word":
		return val{kind: "word", b: t.b}, i + 1, nil
	}
	return val{}, i, fmt.Errorf("unexpected token %q", t.b)
}

func parse(s string) (val, error) {
	ts, err := lex([]byte(s))
	if err != nil {
		return val{}, err
	}
	v, i, err := parseVal(ts, 0)
	if err == nil && i != len(ts) {
		err = fmt.Errorf("trailing tokens")
	}
	return v, err
}

func (v val) get(name string) (val, bool) {
	for _, f := range v.fields {
		if f.name == name {
			return f.v, true
		}
	}
	return val{}, false
}

// ---- values ----
type sample struct {
	vid    string
	typeID uint64
	s      capnp.Struct
	check  func(vid string, v val) // pairs tokens with accessor values
}

func fieldRec(vid, path, kind string, tok, acc []byte) {
	emit(J{"k": "field", "vid": vid, "path": path, "kind": kind, "tok": ints(tok), "acc": ints(acc), "s": []int{}, "lit": []int{}, "n": 0, "text": []int{}})
}

func missing(vid, path string) {
	emit(J{"k": "field", "vid": vid, "path": path, "kind": "word", "tok": ints([]byte("<missing>")), "acc": ints([]byte("<present>")), "s": []int{}, "lit": []int{}, "n": 0, "text": []int{}})
}

func word(vid, path string, v val, ok bool, acc string) {
	if !ok || v.kind != "word" {
		missing(vid, path)
		return
	}
	fieldRec(vid, path, "word", v.b, []byte(acc))
}

func str(vid, path string, v val, ok bool, acc []byte) {
	if !ok || v.kind != "string" {
		missing(vid, path)
		return
	}
	fieldRec(vid, path, "string", v.b, acc)
}

func newMsg() *capnp.Segment {
	_, seg, _ := capnp.NewMessage(capnp.SingleSegment(nil))
	return seg
}

func samples(strs [][]byte) []sample {
	var out []sample
	// Zdate with boundary numbers
	for i, d := range [][3]int{{0, 0, 0}, {-32768, 255, 1}, {32767, 12, 31}, {-1, 1, 255}} {
		z, _ := air.NewRootZdate(newMsg())
		z.SetYear(int16(d[0]))
		z.SetMonth(uint8(d[1]))
		z.SetDay(uint8(d[2]))
		out = append(out, sample{fmt.Sprintf("zdate%d", i), air.Zdate_TypeID, z.Struct, func(vid string, v val) {
			f, ok := v.get("year")
			word(vid, "year", f, ok, strconv.Itoa(int(z.Year())))
			f, ok = v.get("month")
			word(vid, "month", f, ok, strconv.Itoa(int(z.Month())))
			f, ok = v.get("day")
			word(vid, "day", f, ok, strconv.Itoa(int(z.Day())))
		}})
	}
	// PlaneBase: text, enum list, ints, bool
	for i, name := range [][]byte{[]byte("Boeing"), []byte(`say "hi"`), []byte("back\\slash"), {}, []byte("tab\there\x7f")} {
		p, _ := air.NewRootPlaneBase(newMsg())
		p.SetName(string(name))
		hs, _ := p.NewHomes(3)
		hs.Set(0, air.Airport_jfk)
		hs.Set(1, air.Airport_none)
		hs.Set(2, air.Airport_test)
		p.SetRating(int64(-1) << uint(62-i))
		p.SetCanFly(i%2 == 0)
		p.SetCapacity(int64(i) * 1000000007)
		out = append(out, sample{fmt.Sprintf("plane%d", i), air.PlaneBase_TypeID, p.Struct, func(vid string, v val) {
			f, ok := v.get("name")
			nb, _ := p.NameBytes()
			str(vid, "name", f, ok, nb)
			f, ok = v.get("rating")
			word(vid, "rating", f, ok, strconv.FormatInt(p.Rating(), 10))
			f, ok = v.get("canFly")
			word(vid, "canFly", f, ok, strconv.FormatBool(p.CanFly()))
			f, ok = v.get("capacity")
			word(vid, "capacity", f, ok, strconv.FormatInt(p.Capacity(), 10))
			f, ok = v.get("homes")
			if !ok || f.kind != "list" || len(f.elems) != 3 {
				missing(vid, "homes")
			} else {
				h, _ := p.Homes()
				for k := 0; k < 3; k++ {
					word(vid, fmt.Sprintf("homes[%d]", k), f.elems[k], true, h.At(k).String())
				}
			}
		}})
	}
	// HoldsText with every generated string as Text and as list element; Zdata with it as Data
	for i, s := range strs {
		s := s
		if bytes.IndexByte(s, 0) < 0 { // Text cannot hold NUL in the middle through this API in a meaningful way
			h, _ := air.NewRootHoldsText(newMsg())
			h.SetTxt(string(s))
			l, _ := h.NewLst(2)
			l.Set(0, string(s))
			l.Set(1, "x")
			out = append(out, sample{fmt.Sprintf("text%d", i), air.HoldsText_TypeID, h.Struct, func(vid string, v val) {
				f, ok := v.get("txt")
				str(vid, "txt", f, ok, s)
				f, ok = v.get("lst")
				if !ok || f.kind != "list" || len(f.elems) != 2 {
					missing(vid, "lst")
				} else {
					str(vid, "lst[0]", f.elems[0], true, s)
				}
			}})
		}
		d, _ := air.NewRootZdata(newMsg())
		d.SetData(s)
		out = append(out, sample{fmt.Sprintf("data%d", i), air.Zdata_TypeID, d.Struct, func(vid string, v val) {
			f, ok := v.get("data")
			str(vid, "data", f, ok, s)
		}})
	}
	// Z union members
	{
		z, _ := air.NewRootZ(newMsg())
		z.SetI64(-9223372036854775808)
		out = append(out, sample{"z-i64", air.Z_TypeID, z.Struct, func(vid string, v val) {
			f, ok := v.get("i64")
			word(vid, "i64", f, ok, strconv.FormatInt(z.I64(), 10))
			if len(v.fields) != 1 {
				missing(vid, "only-active-member")
			}
		}})
		z2, _ := air.NewRootZ(newMsg())
		z2.SetU64(18446744073709551615)
		out = append(out, sample{"z-u64", air.Z_TypeID, z2.Struct, func(vid string, v val) {
			f, ok := v.get("u64")
			word(vid, "u64", f, ok, strconv.FormatUint(z2.U64(), 10))
		}})
		z3, _ := air.NewRootZ(newMsg())
		z3.SetBool(true)
		out = append(out, sample{"z-bool", air.Z_TypeID, z3.Struct, func(vid string, v val) {
			f, ok := v.get("bool")
			word(vid, "bool", f, ok, strconv.FormatBool(z3.Bool()))
		}})
		z4, _ := air.NewRootZ(newMsg())
		z4.SetAirport(air.Airport_lax)
		out = append(out, sample{"z-airport", air.Z_TypeID, z4.Struct, func(vid string, v val) {
			f, ok := v.get("airport")
			word(vid, "airport", f, ok, z4.Airport().String())
		}})
	}
	// primitive list members of Z: every element token must be a word of the text format denoting the element
	// (floats: inf, -inf, nan or a decimal number)
	{
		fl := func(f float64, bits int) string {
			switch {
			case math.IsNaN(f):
				return "nan"
			case math.IsInf(f, 1):
				return "inf"
			case math.IsInf(f, -1):
				return "-inf"
			}
			return strconv.FormatFloat(f, 'g', -1, bits)
		}
		elems := func(vid, name string, v val, want []string) {
			f, ok := v.get(name)
			if !ok || f.kind != "list" || len(f.elems) != len(want) {
				missing(vid, name)
				return
			}
			for k := range want {
				word(vid, fmt.Sprintf("%s[%d]", name, k), f.elems[k], true, want[k])
			}
		}
		f64s := []float64{0, 1.5, -2.25e-300, 1e300, math.Inf(1), math.Inf(-1), math.NaN(), math.MaxFloat64}
		z, _ := air.NewRootZ(newMsg())
		l, _ := z.NewF64vec(int32(len(f64s)))
		var w64 []string
		for i, f := range f64s {
			l.Set(i, f)
			w64 = append(w64, fl(f, 64))
		}
		out = append(out, sample{"z-f64vec", air.Z_TypeID, z.Struct, func(vid string, v val) { elems(vid, "f64vec", v, w64) }})
		f32s := []float32{0, 0.5, -3.25e-30, float32(math.Inf(1)), float32(math.Inf(-1)), float32(math.NaN()), math.MaxFloat32}
		z2, _ := air.NewRootZ(newMsg())
		l2, _ := z2.NewF32vec(int32(len(f32s)))
		var w32 []string
		for i, f := range f32s {
			l2.Set(i, f)
			w32 = append(w32, fl(float64(f), 32))
		}
		out = append(out, sample{"z-f32vec", air.Z_TypeID, z2.Struct, func(vid string, v val) { elems(vid, "f32vec", v, w32) }})
		z3, _ := air.NewRootZ(newMsg())
		l3, _ := z3.NewI64vec(3)
		l3.Set(0, math.MinInt64)
		l3.Set(1, -1)
		l3.Set(2, math.MaxInt64)
		out = append(out, sample{"z-i64vec", air.Z_TypeID, z3.Struct, func(vid string, v val) {
			elems(vid, "i64vec", v, []string{"-9223372036854775808", "-1", "9223372036854775807"})
		}})
		z4, _ := air.NewRootZ(newMsg())
		l4, _ := z4.NewBoolvec(9)
		l4.Set(0, true)
		l4.Set(8, true)
		out = append(out, sample{"z-boolvec", air.Z_TypeID, z4.Struct, func(vid string, v val) {
			elems(vid, "boolvec", v, []string{"true", "false", "false", "false", "false", "false", "false", "false", "true"})
		}})
		z5, _ := air.NewRootZ(newMsg())
		l5, _ := z5.NewU8vec(3)
		l5.Set(0, 0)
		l5.Set(1, 127)
		l5.Set(2, 255)
		out = append(out, sample{"z-u8vec", air.Z_TypeID, z5.Struct, func(vid string, v val) { elems(vid, "u8vec", v, []string{"0", "127", "255"}) }})
	}
	return out
}

func main() {
	sf, err := os.Open(os.Args[2])
	if err != nil {
		panic(err)
	}
	tf, err := os.Create(os.Args[3])
	if err != nil {
		panic(err)
	}
	reuse, _ := strconv.Atoi(os.Args[4])
	tw := bufio.NewWriterSize(tf, 1<<20)
	out = json.NewEncoder(tw)
	var strs [][]byte
	sc := bufio.NewScanner(sf)
	sc.Buffer(make([]byte, 1<<20), 16<<20)
	for sc.Scan() {
		var xs []int
		if err := json.Unmarshal(sc.Bytes(), &xs); err != nil {
			panic(err)
		}
		b := make([]byte, len(xs))
		for i, x := range xs {
			b[i] = byte(x)
		}
		strs = append(strs, b)
	}
	for b := 0; b < 256; b++ {
		strs = append(strs, []byte{byte(b)}, []byte{'a', byte(b), 'z'})
	}
	// (a) literals straight from strquote
	for _, s := range strs {
		lit := strquote.Append(nil, s)
		emit(J{"k": "lit", "s": ints(s), "lit": ints(lit), "vid": "", "path": "", "kind": "", "tok": []int{}, "acc": []int{}, "n": 0, "text": []int{}})
	}
	// (b) structs: fields vs accessors, on a fresh encoder each
	smp := samples(strs)
	texts := map[string]string{}
	fails := 0
	for _, s := range smp {
		t, err := text.Marshal(s.typeID, s.s)
		if err != nil {
			fmt.Fprintf(os.Stdout, "{\"error\":%q}\n", s.vid+": "+err.Error())
			fails++
			continue
		}
		texts[s.vid] = t
		emit(J{"k": "render", "keep": true, "vid": s.vid, "n": 0, "text": ints([]byte(t)), "s": []int{}, "lit": []int{}, "path": "", "kind": "", "tok": []int{}, "acc": []int{}})
		v, err := parse(t)
		if err != nil {
			// not even parseable as a struct: report through a field record that cannot match
			fieldRec(s.vid, "parse", "word", []byte("unparseable: "+err.Error()), []byte("a well-formed struct"))
			continue
		}
		s.check(s.vid, v)
	}
	// (c) one long-lived encoder
	var buf bytes.Buffer
	enc := text.NewEncoder(&buf)
	probe := smp
	if len(probe) > 40 {
		probe = append(append([]sample{}, smp[:12]...), smp[len(smp)-8:]...)
	}
	done, failed := 0, false
	checkpoints := map[int]bool{1: true, 10: true, 1000: true, reuse: true}
	for k := 1; k < 16; k++ {
		checkpoints[reuse*k/16] = true
	}
	for done <= reuse {
		if checkpoints[done] {
			for _, s := range probe {
				buf.Reset()
				if err := enc.Encode(s.typeID, s.s); err != nil {
					emit(J{"k": "render", "keep": true, "vid": s.vid, "n": done, "text": ints([]byte("error: " + err.Error())), "s": []int{}, "lit": []int{}, "path": "", "kind": "", "tok": []int{}, "acc": []int{}})
					continue
				}
				emit(J{"k": "render", "keep": true, "vid": s.vid, "n": done, "text": ints(buf.Bytes()), "s": []int{}, "lit": []int{}, "path": "", "kind": "", "tok": []int{}, "acc": []int{}})
			}
		}
		buf.Reset()
		s := smp[done%len(smp)]
		if done%2 == 1 {
			s = smp[len(smp)-1-(done/2)%4] // the Z samples: the largest field table of the schema
		}
		if err := enc.Encode(s.typeID, s.s); err != nil && !failed {
			// the first Encode that fails on the long-lived encoder: its value rendered fine on a fresh one
			failed = true
			emit(J{"k": "render", "keep": true, "vid": s.vid, "n": done, "text": ints([]byte("error: " + err.Error())), "s": []int{}, "lit": []int{}, "path": "", "kind": "", "tok": []int{}, "acc": []int{}})
		}
		done++
	}
	tw.Flush()
	tf.Close()
	fmt.Printf("{\"summary\":true,\"lines\":%d,\"strings\":%d,\"samples\":%d,\"reuse\":%d,\"marshal_errors\":%d}\n", nlines, len(strs), len(smp), reuse, fails)
}
