// Driver for C14 (stream framing).
//
//	framedrv cases <cases.ndjson> <streams.ndjson>   message sequences x cuts x limits x reuse (expectations from spec/framing/Framing.tla)
//	framedrv hostile <hostile.ndjson>                hostile headers: reaction class and allocation bound (spec/framing/HostileHdr.tla)
package main

import (
	"bufio"
	"bytes"
	"encoding/json"
	"fmt"
	"io"
	"os"
	"runtime"
	"runtime/debug"
	"sync"

	capnp "capnproto.org/go/capnp/v3"
)

type J = map[string]interface{}

var (
	outMu sync.Mutex
	enc   = json.NewEncoder(os.Stdout)
)

func emit(v interface{}) {
	outMu.Lock()
	enc.Encode(v)
	outMu.Unlock()
}
func num(v interface{}) int { return int(v.(float64)) }

func readLines(path string, f func(int, J)) int {
	fh, err := os.Open(path)
	if err != nil {
		panic(err)
	}
	defer fh.Close()
	sc := bufio.NewScanner(fh)
	sc.Buffer(make([]byte, 1<<20), 256<<20)
	n := 0
	for sc.Scan() {
		n++
		var r J
		if err := json.Unmarshal(sc.Bytes(), &r); err != nil {
			panic(err)
		}
		f(n, r)
	}
	return n
}

type chunkReader struct {
	b []byte
	n int
}

func (c *chunkReader) Read(p []byte) (int, error) {
	if len(c.b) == 0 {
		return 0, io.EOF
	}
	k := c.n
	if k > len(p) {
		k = len(p)
	}
	if k > len(c.b) {
		k = len(c.b)
	}
	copy(p, c.b[:k])
	c.b = c.b[k:]
	return k, nil
}

// segments of message mi with the given shape; every word carries (mi, segment, word)
func makeSegs(mi int, shape []interface{}) [][]byte {
	segs := make([][]byte, len(shape))
	for s, w := range shape {
		n := num(w)
		b := make([]byte, 8*n)
		for i := 0; i < n; i++ {
			b[8*i] = byte(0x10*(mi+1) + s + 1)
			b[8*i+1] = byte(i + 1)
			b[8*i+7] = 0xEE
		}
		segs[s] = b
	}
	return segs
}

func sameSegs(m *capnp.Message, want [][]byte) string {
	if int(m.NumSegments()) != len(want) {
		return fmt.Sprintf("decoded message has %d segments, want %d", m.NumSegments(), len(want))
	}
	for i, w := range want {
		s, err := m.Segment(capnp.SegmentID(i))
		if err != nil {
			return err.Error()
		}
		if !bytes.Equal(s.Data(), w) {
			return fmt.Sprintf("segment %d differs: got %x want %x", i, s.Data(), w)
		}
	}
	return ""
}

type stream struct {
	plain, packed     []byte
	plainEnds, pkEnds []int // cumulative end offsets per message
	segs              [][][]byte
}

func buildStream(shapes []interface{}) (*stream, string) {
	st := &stream{}
	var pb, kb bytes.Buffer
	pe, ke := capnp.NewEncoder(&pb), capnp.NewPackedEncoder(&kb)
	for mi, sh := range shapes {
		segs := makeSegs(mi, sh.([]interface{}))
		st.segs = append(st.segs, segs)
		cp := make([][]byte, len(segs))
		for i := range segs {
			cp[i] = append([]byte(nil), segs[i]...)
		}
		m := &capnp.Message{Arena: capnp.MultiSegment(cp)}
		if err := pe.Encode(m); err != nil {
			return nil, "encode: " + err.Error()
		}
		if err := ke.Encode(m); err != nil {
			return nil, "packed encode: " + err.Error()
		}
		st.plainEnds = append(st.plainEnds, pb.Len())
		st.pkEnds = append(st.pkEnds, kb.Len())
	}
	st.plain, st.packed = pb.Bytes(), kb.Bytes()
	return st, ""
}

// decodeAll decodes until an error; returns number of good messages, the terminal class and a content complaint
func decodeAll(d *capnp.Decoder, segs [][][]byte) (n int, end string, complaint string) {
	for {
		m, err := d.Decode()
		if err == io.EOF {
			return n, "eof", complaint
		}
		if err != nil {
			return n, "error", complaint
		}
		if n < len(segs) {
			if c := sameSegs(m, segs[n]); c != "" && complaint == "" {
				complaint = fmt.Sprintf("message %d: %s", n+1, c)
			}
		} else if complaint == "" {
			complaint = "decoder returned more messages than were written"
		}
		n++
		if n > 50 {
			return n, "runaway", complaint
		}
	}
}

func doCases(caseFile, streamFile string) {
	stats := map[string]int{}
	streams := map[string]*stream{}
	sf, _ := os.Create(streamFile)
	sw := bufio.NewWriter(sf)
	senc := json.NewEncoder(sw)
	n := readLines(caseFile, func(line int, c J) {
		shapes := c["shapes"].([]interface{})
		key, _ := json.Marshal(shapes)
		st := streams[string(key)]
		if st == nil {
			var e string
			st, e = buildStream(shapes)
			if e != "" {
				emit(J{"line": line, "what": "encode-error", "detail": e, "case": c})
				return
			}
			streams[string(key)] = st
			ints := make([]int, len(st.plain))
			for i, b := range st.plain {
				ints[i] = int(b)
			}
			senc.Encode(J{"shapes": shapes, "stream": ints})
			// encoder framing is exact: total length = sum of the spec's frame lengths
			fl := c["framelens"].([]interface{})
			sum := 0
			for i, x := range fl {
				sum += num(x)
				if st.plainEnds[i] != sum {
					emit(J{"line": line, "what": "encoder-frame-length", "detail": fmt.Sprintf("message %d ends at byte %d, spec says %d", i+1, st.plainEnds[i], sum), "case": c})
				}
			}
		}
		cut := num(c["cut"])
		lim := uint64(num(c["lim"]))
		reuse := c["reuse"].(bool)
		exp := c["exp"].(J)
		wantN, wantEnd := num(exp["n"]), exp["end"].(string)
		for _, chunk := range []int{1, 3, 8, 4096} {
			d := capnp.NewDecoder(&chunkReader{st.plain[:cut], chunk})
			d.MaxMessageSize = lim
			if reuse {
				d.ReuseBuffer()
			}
			gn, gend, comp := decodeAll(d, st.segs)
			stats["decodes"]++
			if gn != wantN || gend != wantEnd || comp != "" {
				emit(J{"line": line, "what": "stream", "chunk": chunk, "got": fmt.Sprintf("%d messages then %s", gn, gend), "want": fmt.Sprintf("%d messages then %s", wantN, wantEnd),
					"complaint": comp, "case": c})
				break
			}
		}
		// Unmarshal of the cut stream: the first message, if complete, must be returned; allocation proportional to input
		if cut > 0 {
			var m *capnp.Message
			var err error
			bound1 := uint64(64*cut + allocSlack)
			a1 := allocOf(bound1, func() { m, err = capnp.Unmarshal(st.plain[:cut]) })
			stats["unmarshals"]++
			first := st.plainEnds[0]
			if cut >= first {
				if err != nil {
					emit(J{"line": line, "what": "unmarshal", "got": err.Error(), "want": "first message", "case": c})
				} else if cc := sameSegs(m, st.segs[0]); cc != "" {
					emit(J{"line": line, "what": "unmarshal", "got": cc, "want": "first message", "case": c})
				}
			} else if err == nil {
				emit(J{"line": line, "what": "unmarshal", "got": "accepted a torn frame", "want": "error", "case": c})
			}
			if a1 > bound1 {
				emit(J{"line": line, "what": "unmarshal-alloc", "got": fmt.Sprint(a1), "want": fmt.Sprintf("<= %d", bound1), "case": c})
			}
		}
	})
	// packed streams: same rule (prefix of the written messages; eof only at a message boundary) with the packed frame ends
	for _, st := range streams {
		for cut := 0; cut <= len(st.packed); cut++ {
			wantN, wantEnd := 0, "eof"
			for i, e := range st.pkEnds {
				if cut >= e {
					wantN = i + 1
				}
			}
			atBoundary := cut == 0
			for _, e := range st.pkEnds {
				if cut == e {
					atBoundary = true
				}
			}
			if !atBoundary {
				wantEnd = "error"
			}
			for _, chunk := range []int{1, 7, 4096} {
				d := capnp.NewPackedDecoder(&chunkReader{st.packed[:cut], chunk})
				gn, gend, comp := decodeAll(d, st.segs)
				stats["packed_decodes"]++
				// the packed reader hands out a word as soon as its bytes are there and reports a missing
				// run-length byte on the next read: one more (complete, correct) message before the error is fine
				okN := gn == wantN || (wantEnd == "error" && gn == wantN+1)
				if !okN || gend != wantEnd || comp != "" {
					emit(J{"what": "packed-stream", "chunk": chunk, "cut": cut, "got": fmt.Sprintf("%d messages then %s", gn, gend),
						"want": fmt.Sprintf("%d messages then %s", wantN, wantEnd), "complaint": comp, "packed": fmt.Sprintf("%x", st.packed), "ends": st.pkEnds})
					break
				}
			}
		}
	}
	sw.Flush()
	sf.Close()
	emit(J{"summary": true, "cases": n, "streams": len(streams), "stats": stats})
}

func doHostile(file string) {
	debug.SetGCPercent(-1)
	stats := map[string]int{}
	n := readLines(file, func(line int, c J) {
		xs := c["stream"].([]interface{})
		b := make([]byte, len(xs))
		for i, x := range xs {
			b[i] = byte(x.(float64))
		}
		lim := uint64(num(c["lim"]))
		bound := uint64(num(c["bound"]))
		want := c["exp"].(string)
		for _, reuse := range []bool{false, true} {
			runtime.GC()
			var err error
			var m *capnp.Message
			decodeOnce := func() {
				d := capnp.NewDecoder(&chunkReader{b, 4096})
				d.MaxMessageSize = lim
				if reuse {
					d.ReuseBuffer()
				}
				defer func() {
					if p := recover(); p != nil {
						err = fmt.Errorf("PANIC: %v", p)
					}
				}()
				m, err = d.Decode()
			}
			a2 := allocOf(bound, decodeOnce)
			stats["decodes"]++
			got := "reject"
			if err == nil && m != nil {
				got = "accept"
			}
			if err != nil && len(err.Error()) > 5 && err.Error()[:5] == "PANIC" {
				emit(J{"line": line, "what": "panic", "got": err.Error(), "case": c})
				continue
			}
			if want != "either" && want != got {
				emit(J{"line": line, "what": "hostile-header", "reuse": reuse, "got": got + " (" + fmt.Sprint(err) + ")", "want": want, "case": c})
			}
			if a2 > bound {
				emit(J{"line": line, "what": "decode-alloc", "reuse": reuse, "got": fmt.Sprint(a2), "want": fmt.Sprintf("<= %d", bound), "case": c})
			}
		}
		// Unmarshal: memory proportional to the input only
		bound3 := uint64(64*len(b) + allocSlack)
		panicked := false
		a3 := allocOf(bound3, func() {
			defer func() {
				if p := recover(); p != nil && !panicked {
					panicked = true
					emit(J{"line": line, "what": "panic", "got": fmt.Sprint("Unmarshal: ", p), "case": c})
				}
			}()
			capnp.Unmarshal(b)
		})
		stats["unmarshals"]++
		if a3 > bound3 {
			emit(J{"line": line, "what": "unmarshal-alloc", "got": fmt.Sprint(a3), "want": fmt.Sprintf("<= %d", bound3), "case": c})
		}
	})
	emit(J{"summary": true, "cases": n, "stats": stats})
}

// allocOf returns the bytes allocated while f runs.  TotalAlloc is process wide (the runtime's own goroutines
// allocate too), so a measurement above the bound is repeated and the minimum counts.
func allocOf(bound uint64, f func()) uint64 {
	best := ^uint64(0)
	for i := 0; i < 5; i++ {
		var ms1, ms2 runtime.MemStats
		runtime.ReadMemStats(&ms1)
		f()
		runtime.ReadMemStats(&ms2)
		if a := ms2.TotalAlloc - ms1.TotalAlloc; a < best {
			best = a
		}
		if best <= bound {
			break
		}
	}
	return best
}

const allocSlack = 16384

func main() {
	switch os.Args[1] {
	case "cases":
		doCases(os.Args[2], os.Args[3])
	case "hostile":
		doHostile(os.Args[2])
	}
}
