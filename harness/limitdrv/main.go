// Driver for C02 (traversal and depth limits).
//
//	limitdrv walk <msgs.ndjson> <walks.ndjson>   replay TLC walks with every boundary budget
//	limitdrv cas <scheds.ndjson>                 force TLC interleavings of concurrent readers through the canRead yield gate
//	limitdrv consumers <msgs.ndjson>             recursive consumers on cyclic / deep messages with small limits
package main

import (
	"bufio"
	"bytes"
	"encoding/json"
	"fmt"
	"os"
	"runtime"
	"runtime/debug"
	"strconv"
	"sync"
	"time"

	capnp "capnproto.org/go/capnp/v3"
	"capnproto.org/go/capnp/v3/encoding/text"
	air "capnproto.org/go/capnp/v3/internal/aircraftlib"
	"capnproto.org/go/capnp/v3/internal/verifh/vwalk"
)

type J = map[string]interface{}

var (
	outMu sync.Mutex
	enc   = json.NewEncoder(os.Stdout)
)

func emit(v interface{}) {
	outMu.Lock()
	enc.Encode(v)
	outMu.Unlock()
}

func num(v interface{}) int { return int(v.(float64)) }

func readLines(path string, f func(int, J)) int {
	fh, err := os.Open(path)
	if err != nil {
		panic(err)
	}
	defer fh.Close()
	sc := bufio.NewScanner(fh)
	sc.Buffer(make([]byte, 1<<20), 256<<20)
	n := 0
	for sc.Scan() {
		n++
		var r J
		if err := json.Unmarshal(sc.Bytes(), &r); err != nil {
			panic(err)
		}
		f(n, r)
	}
	return n
}

// ---------------- walks ----------------

func doWalks(msgFile, walkFile string) {
	var msgs [][][]byte
	readLines(msgFile, func(_ int, r J) { msgs = append(msgs, vwalk.SegsFromJSON(r["segs"])) })
	stats := map[string]int{}
	nw := readLines(walkFile, func(line int, w J) {
		segs := msgs[num(w["mi"])-1]
		d := num(w["d"])
		steps := w["steps"].([]interface{})
		budgets := w["budgets"].([]interface{})
		exps := w["exp"].([]interface{})
		for bi, b := range budgets {
			T := uint64(b.(float64))
			exp := exps[bi].([]interface{})
			m := &capnp.Message{Arena: &vwalk.ExactArena{Segs: segs}}
			m.DepthLimit = uint(d)
			m.ResetReadLimit(T)
			var cur capnp.Ptr
			handed := uint64(0)
			for k, st := range steps {
				s := st.(J)
				want := exp[k].(string)
				before := m.VerifReadLimit()
				var next capnp.Ptr
				var err error
				func() {
					defer func() {
						if p := recover(); p != nil {
							err = fmt.Errorf("PANIC %v", p)
						}
					}()
					switch s["how"] {
					case "root":
						next, err = m.Root()
					case "ptr":
						next, err = cur.Struct().Ptr(uint16(num(s["idx"])))
					case "at":
						next, err = capnp.PointerList{List: cur.List()}.At(num(s["idx"]))
					case "elem":
						next = cur.List().Struct(num(s["idx"])).ToPtr()
					}
				}()
				after := m.VerifReadLimit()
				stats["derefs"]++
				got := "ok"
				if err != nil {
					got = "fail"
				}
				rep := func(what string) {
					emit(J{"line": line, "what": what, "T": T, "D": d, "step": k + 1, "how": s["how"], "kind": s["kind"], "want": want, "got": got,
						"err": fmt.Sprint(err), "before": before, "after": after, "lo": s["lo"], "mi": w["mi"], "steps": steps, "segs": vwalk_words(segs)})
				}
				if err != nil && len(err.Error()) > 5 && err.Error()[:5] == "PANIC" {
					rep("panic")
					break
				}
				if want != "either" && want != got {
					if got == "ok" && want == "fail" {
						rep("dereference succeeded beyond the limit")
					} else {
						rep("dereference failed within the limits")
					}
					break
				}
				if got == "fail" {
					break
				}
				if s["kind"] == "null" {
					if next.IsValid() {
						rep("null pointer read as non-null")
					}
					break
				}
				lo := uint64(num(s["lo"]))
				if s["kind"] != "elem" {
					if before-after < lo {
						rep("budget decreased by less than the size handed out")
						break
					}
					handed += lo
					if handed > T {
						rep("cumulative size handed out exceeds the traversal limit")
						break
					}
				}
				if !next.IsValid() {
					rep("non-null pointer read as null")
					break
				}
				cur = next
			}
			stats["runs"]++
		}
	})
	emit(J{"summary": true, "walks": nw, "messages": len(msgs), "stats": stats})
}

func vwalk_words(segs [][]byte) interface{} {
	out := make([]interface{}, len(segs))
	for i, s := range segs {
		ws := make([]interface{}, len(s)/8)
		for w := range ws {
			b := make([]int, 8)
			for k := 0; k < 8; k++ {
				b[k] = int(s[w*8+k])
			}
			ws[w] = b
		}
		out[i] = ws
	}
	return out
}

// ---------------- forced interleavings of concurrent readers ----------------

func goid() int {
	var buf [64]byte
	n := runtime.Stack(buf[:], false)
	f := bytes.Fields(buf[:n])
	id, _ := strconv.Atoi(string(f[1]))
	return id
}

type gate struct {
	mu      sync.Mutex
	readers map[int]int       // goroutine id -> reader
	parked  chan int          // reader parked at the yield point
	resume  map[int]chan bool // per reader
}

func (g *gate) yield(site string) {
	g.mu.Lock()
	r, ok := g.readers[goid()]
	g.mu.Unlock()
	if !ok {
		return
	}
	g.parked <- r
	<-g.resume[r]
}

// message with a root struct whose pointer fields lead to structs of 0, 8, 16, 24 bytes
func casMessage() (*capnp.Message, capnp.Struct) {
	m, seg, _ := capnp.NewMessage(capnp.SingleSegment(nil))
	root, _ := capnp.NewRootStruct(seg, capnp.ObjectSize{PointerCount: 4})
	for i := 0; i < 4; i++ {
		s, _ := capnp.NewStruct(seg, capnp.ObjectSize{DataSize: capnp.Size(8 * i)})
		root.SetPtr(uint16(i), s.ToPtr())
	}
	b, _ := m.Marshal()
	m2, _ := capnp.Unmarshal(b)
	m2.TraverseLimit = 1 << 30
	rp, _ := m2.Root()
	return m2, rp.Struct()
}

func doCas(schedFile string) {
	stats := map[string]int{}
	failures := 0
	n := readLines(schedFile, func(line int, sc J) {
		if failures >= 20 {
			return // the first mismatches are reported; goroutines of broken executions are abandoned, do not pile up more
		}
		T := uint64(num(sc["t"]))
		hist := sc["hist"].([]interface{})
		m, root := casMessage()
		m.ResetReadLimit(T)
		// a fresh gate per execution: goroutines abandoned by a broken execution keep the old one
		g := &gate{readers: map[int]int{}, parked: make(chan int),
			resume: map[int]chan bool{1: make(chan bool), 2: make(chan bool), 3: make(chan bool)}}
		capnp.VerifYield = g.yield
		type cmd struct{ sz int }
		type res struct {
			r  int
			ok bool
		}
		cmds := map[int]chan cmd{1: make(chan cmd), 2: make(chan cmd), 3: make(chan cmd)}
		results := make(chan res)
		var wg sync.WaitGroup
		for r := 1; r <= 3; r++ {
			r := r
			wg.Add(1)
			go func() {
				defer wg.Done()
				g.mu.Lock()
				g.readers[goid()] = r
				g.mu.Unlock()
				for c := range cmds[r] {
					p, err := root.Ptr(uint16(c.sz / 8))
					results <- res{r, err == nil && p.IsValid()}
				}
			}()
		}
		bad := func(what string, k int, extra string) {
			emit(J{"line": line, "what": what, "event": k + 1, "T": T, "hist": hist, "detail": extra})
		}
		ok := true
	events:
		for k, e := range hist {
			ev := e.(J)
			r := num(ev["r"])
			switch ev["ev"] {
			case "start":
				cmds[r] <- cmd{num(ev["sz"])}
				select {
				case pr := <-g.parked:
					if pr != r {
						bad("wrong reader parked", k, fmt.Sprint(pr))
						ok = false
						break events
					}
				case <-time.After(5 * time.Second):
					bad("reader did not reach the yield point", k, "")
					ok = false
					break events
				}
			case "cas":
				g.resume[r] <- true
				want := ev["res"].(string)
				select {
				case <-g.parked:
					if want != "retry" {
						bad("compare-and-swap was retried; spec says it "+want+"s", k, "")
						ok = false
						break events
					}
				case rr := <-results:
					got := "fail"
					if rr.ok {
						got = "ok"
					}
					if want != got {
						bad("read result differs from the specification", k, "spec="+want+" real="+got)
						ok = false
						break events
					}
					if lim := m.VerifReadLimit(); lim != uint64(num(ev["lim"])) {
						bad("remaining budget differs from the specification", k, fmt.Sprintf("spec=%v real=%d", ev["lim"], lim))
						ok = false
						break events
					}
				case <-time.After(5 * time.Second):
					bad("reader stuck after release", k, "")
					ok = false
					break events
				}
			}
			stats["events"]++
		}
		if ok {
			if lim := m.VerifReadLimit(); lim != uint64(num(sc["final"])) {
				bad("final budget differs", len(hist)-1, fmt.Sprint(lim))
			}
			for r := 1; r <= 3; r++ {
				close(cmds[r])
			}
			wg.Wait()
		} else {
			// abandon the goroutines of a broken execution (they may be parked); later schedules use a fresh gate
			failures++
			g.mu.Lock()
			g.readers = map[int]int{}
			g.mu.Unlock()
		}
		stats["schedules"]++
	})
	capnp.VerifYield = nil
	emit(J{"summary": true, "schedules": n, "stats": stats})
}

// ---------------- recursive consumers under small limits ----------------

// bound of spec/limit/ConsumerBound.tla (kept in step with it; the verdict is TLC's)
func workBound(w, d int) uint64 {
	geo, pw := uint64(1), uint64(1)
	for i := 0; i < d; i++ {
		pw *= uint64(w)
		geo += pw
		if geo > 1<<40 {
			return 1 << 62
		}
	}
	return 4 * geo * 8 * uint64(w)
}

func doConsumers(msgFile string) {
	debug.SetMaxStack(64 << 20)
	var work *json.Encoder
	if len(os.Args) > 3 {
		f, err := os.Create(os.Args[3])
		if err != nil {
			panic(err)
		}
		defer f.Close()
		work = json.NewEncoder(f)
	}
	vwalk.Cross = false
	stats := map[string]int{}
	deadline := time.Now().Add(150 * time.Second)
	skipped := 0
	n := readLines(msgFile, func(line int, r J) {
		if time.Now().After(deadline) {
			skipped++
			return
		}
		segs := vwalk.SegsFromJSON(r["segs"])
		nwords := 0
		for _, sg := range segs {
			nwords += len(sg) / 8
		}
		for _, T := range []uint64{64, 4096, 1 << 16, 1 << 22} {
			for _, D := range []uint{1, 2, 5, 64} {
				if T == 1<<22 && workBound(nwords, int(D)) >= T {
					continue // the large budget only serves the work bound
				}
				for _, name := range []string{"walk", "equal", "canonicalize", "deepcopy", "text"} {
					if T == 1<<22 && name == "walk" {
						continue
					}
					start := time.Now()
					var used, produced uint64
					func() {
						defer func() {
							if p := recover(); p != nil {
								emit(J{"line": line, "what": "panic", "consumer": name, "T": T, "D": D, "detail": fmt.Sprint(p), "segs": r["segs"]})
							}
						}()
						m := &capnp.Message{Arena: &vwalk.ExactArena{Segs: segs}}
						m.DepthLimit = D
						m.ResetReadLimit(T)
						root, err := m.Root()
						if err != nil {
							return
						}
						switch name {
						case "walk":
							vwalk.Walk(root, 80)
						case "equal":
							capnp.Equal(root, root)
						case "canonicalize":
							if root.Struct().IsValid() {
								capnp.Canonicalize(root.Struct())
							}
						case "deepcopy":
							m2, _, _ := capnp.NewMessage(capnp.SingleSegment(nil))
							m2.SetRoot(root)
							if b, err := m2.Marshal(); err == nil {
								produced = uint64(len(b))
							}
						case "text":
							if root.Struct().IsValid() {
								text.Marshal(air.Z_TypeID, root.Struct())
							}
						}
						if left := m.VerifReadLimit(); left <= T {
							used = T - left
						}
					}()
					if work != nil && name != "walk" && workBound(nwords, int(D)) < T {
						work.Encode(J{"line": line, "consumer": name, "w": nwords, "d": D, "t": T, "used": used, "produced": produced})
						stats["work_records"]++
					}
					stats["consumer_runs"]++
					if el := time.Since(start); el > 5*time.Second {
						emit(J{"line": line, "what": "slow", "consumer": name, "T": T, "D": D, "detail": el.String(), "segs": r["segs"]})
					}
				}
			}
		}
	})
	emit(J{"summary": true, "messages": n, "skipped_after_deadline": skipped, "stats": stats})
}

func main() {
	switch os.Args[1] {
	case "walk":
		doWalks(os.Args[2], os.Args[3])
	case "cas":
		doCas(os.Args[2])
	case "consumers":
		doConsumers(os.Args[2])
	}
}
