// Package vwalk is the schema-less walker shared by the encoding drivers: it
// reads a message through the public accessors only (plus the verif-tagged
// List.VerifShape getter) and reports the tree it observes in the JSON shape
// of spec/enc/CapnpSem.tla's Value():
//
//	{"t":"null"} | {"t":"err","r":..} | {"t":"cap","i":[4 bytes]}
//	{"t":"struct","d":[[8 bytes]..],"p":[value..]}
//	{"t":"list","k":0..7,"n":len,"e":[..]}
package vwalk

import (
	"encoding/binary"
	"encoding/json"
	"fmt"

	capnp "capnproto.org/go/capnp/v3"
)

type Node = map[string]interface{}

const MaxEnum = 128

// Cross enables the list-upgrade cross checks (they re-walk subtrees: switch off for deep/cyclic inputs).
var Cross = true

func bytesOf(b []byte) []interface{} {
	r := make([]interface{}, len(b))
	for i, x := range b {
		r[i] = float64(x)
	}
	return r
}

func Null() Node          { return Node{"t": "null"} }
func Err(e error) Node    { return Node{"t": "err", "r": e.Error()} }
func Cut() Node           { return Node{"t": "cut"} }
func bad(n Node, s string) { n["xbad"] = s }

// Walk reads the object p points to.
func Walk(p capnp.Ptr, depth int) Node {
	if !p.IsValid() {
		return Null()
	}
	if s := p.Struct(); s.IsValid() {
		if depth == 0 {
			return Cut()
		}
		return WalkStruct(s, depth-1)
	}
	if l := p.List(); l.IsValid() {
		if depth == 0 {
			return Cut()
		}
		return WalkList(p, l, depth-1)
	}
	if i := p.Interface(); i.IsValid() {
		var b [4]byte
		binary.LittleEndian.PutUint32(b[:], uint32(i.Capability()))
		return Node{"t": "cap", "i": bytesOf(b[:])}
	}
	n := Node{"t": "unknown"}
	return n
}

// WalkStruct reads every data word (with accessors of mixed widths) and every pointer.
func WalkStruct(s capnp.Struct, depth int) Node {
	sz := s.Size()
	dw := int(sz.DataSize) / 8
	pc := int(sz.PointerCount)
	n := Node{"t": "struct"}
	d := make([]interface{}, dw)
	for i := 0; i < dw; i++ {
		o := capnp.DataOffset(i * 8)
		var w [8]byte
		switch i % 4 {
		case 0:
			binary.LittleEndian.PutUint64(w[:], s.Uint64(o))
		case 1:
			binary.LittleEndian.PutUint32(w[0:], s.Uint32(o))
			binary.LittleEndian.PutUint32(w[4:], s.Uint32(o+4))
		case 2:
			for k := 0; k < 4; k++ {
				binary.LittleEndian.PutUint16(w[2*k:], s.Uint16(o+capnp.DataOffset(2*k)))
			}
		default:
			for k := 0; k < 8; k++ {
				w[k] = s.Uint8(o + capnp.DataOffset(k))
			}
		}
		// bit view of the first and last byte of the word
		for _, bi := range []int{0, 7} {
			var x byte
			for k := 0; k < 8; k++ {
				if s.Bit(capnp.BitOffset(i*64 + bi*8 + k)) {
					x |= 1 << uint(k)
				}
			}
			if x != w[bi] {
				bad(n, fmt.Sprintf("Bit view of data word %d byte %d = %#x, byte view = %#x", i, bi, x, w[bi]))
			}
		}
		if s.Uint64(o) != binary.LittleEndian.Uint64(w[:]) {
			bad(n, fmt.Sprintf("Uint64 view of data word %d differs from narrower views", i))
		}
		d[i] = bytesOf(w[:])
	}
	n["d"] = d
	// fields that are not entirely inside the data section read as defaults
	if dw >= 1 && dw < 8000 {
		o := capnp.DataOffset(dw*8 - 8)
		if s.Uint32(o+6) != 0 || s.Uint16(o+7) != 0 || s.Uint64(o+4) != 0 {
			bad(n, "read straddling the end of the data section is not zero")
		}
	}
	if dw < 8000 {
		o := capnp.DataOffset(dw * 8)
		if s.Uint64(o) != 0 || s.Uint32(o) != 0 || s.Uint16(o) != 0 || s.Uint8(o) != 0 || s.Bit(capnp.BitOffset(dw*64)) {
			bad(n, "read beyond the data section is not zero")
		}
	}
	if pc < 65535 {
		q, err := s.Ptr(uint16(pc))
		if err != nil || q.IsValid() || s.HasPtr(uint16(pc)) {
			bad(n, "pointer beyond the pointer section is not null")
		}
	}
	ps := make([]interface{}, pc)
	for i := 0; i < pc; i++ {
		q, err := s.Ptr(uint16(i))
		if err != nil {
			ps[i] = Err(err)
			continue
		}
		if q.IsValid() != s.HasPtr(uint16(i)) {
			// HasPtr looks at the raw word; a far pointer to a null pad is "has" but reads null: only flag the converse
			if q.IsValid() {
				bad(n, fmt.Sprintf("HasPtr(%d) false but pointer reads non-null", i))
			}
		}
		ps[i] = Walk(q, depth)
	}
	n["p"] = ps
	return n
}

func WalkList(p capnp.Ptr, l capnp.List, depth int) Node {
	kind, dsz, pcnt := l.VerifShape()
	ln := l.Len()
	n := Node{"t": "list", "k": float64(kind), "n": float64(ln)}
	if ln < 0 {
		bad(n, fmt.Sprintf("negative list length %d", ln))
		n["e"] = []interface{}{}
		return n
	}
	if kind == 0 || ln > MaxEnum {
		n["e"] = []interface{}{}
		if kind != 0 {
			n["skipped"] = true
		}
		return n
	}
	e := make([]interface{}, ln)
	u8, i8 := capnp.UInt8List{List: l}, capnp.Int8List{List: l}
	u16, i16 := capnp.UInt16List{List: l}, capnp.Int16List{List: l}
	u32, i32 := capnp.UInt32List{List: l}, capnp.Int32List{List: l}
	u64, i64 := capnp.UInt64List{List: l}, capnp.Int64List{List: l}
	for i := 0; i < ln; i++ {
		switch kind {
		case 1:
			if (capnp.BitList{List: l}).At(i) {
				e[i] = float64(1)
			} else {
				e[i] = float64(0)
			}
		case 2:
			e[i] = bytesOf([]byte{u8.At(i)})
			if byte(i8.At(i)) != u8.At(i) {
				bad(n, "Int8List and UInt8List views differ")
			}
		case 3:
			var b [2]byte
			binary.LittleEndian.PutUint16(b[:], u16.At(i))
			e[i] = bytesOf(b[:])
			if uint16(i16.At(i)) != u16.At(i) {
				bad(n, "Int16List and UInt16List views differ")
			}
		case 4:
			var b [4]byte
			binary.LittleEndian.PutUint32(b[:], u32.At(i))
			e[i] = bytesOf(b[:])
			if uint32(i32.At(i)) != u32.At(i) {
				bad(n, "Int32List and UInt32List views differ")
			}
		case 5:
			var b [8]byte
			binary.LittleEndian.PutUint64(b[:], u64.At(i))
			e[i] = bytesOf(b[:])
			if uint64(i64.At(i)) != u64.At(i) {
				bad(n, "Int64List and UInt64List views differ")
			}
		case 6:
			q, err := capnp.PointerList{List: l}.At(i)
			if err != nil {
				e[i] = Err(err)
			} else {
				e[i] = Walk(q, depth)
			}
		case 7:
			es := l.Struct(i)
			en := WalkStruct(es, depth)
			e[i] = en
			// list upgrade rule: a struct list may be read as a list of its first field
			if dsz >= 8 {
				w0 := es.Uint64(0)
				if u64.At(i) != w0 || u32.At(i) != uint32(w0) || u16.At(i) != uint16(w0) || u8.At(i) != uint8(w0) {
					bad(n, fmt.Sprintf("primitive-list view of struct list element %d differs from the element's first data field", i))
				}
			}
			// ... and a section the elements do not have reads as the default, never as a neighbouring word
			if dsz == 0 {
				if u64.At(i) != 0 || u32.At(i) != 0 || u16.At(i) != 0 || u8.At(i) != 0 {
					bad(n, fmt.Sprintf("primitive-list view of struct list element %d without a data section is not zero", i))
				}
			}
			if pcnt == 0 {
				if q, err := (capnp.PointerList{List: l}).At(i); err == nil && q.IsValid() {
					bad(n, fmt.Sprintf("pointer-list view of struct list element %d without a pointer section is not null", i))
				}
			}
			if pcnt >= 1 && Cross {
				q, err := capnp.PointerList{List: l}.At(i)
				var viaList Node
				if err != nil {
					viaList = Err(err)
				} else {
					viaList = Walk(q, depth)
				}
				first, _ := en["p"].([]interface{})[0].(Node)
				a, _ := json.Marshal(viaList)
				b, _ := json.Marshal(first)
				if first["t"] != "err" && string(a) != string(b) {
					bad(n, fmt.Sprintf("pointer-list view of struct list element %d = %s, element's first pointer field = %s", i, a, b))
				}
			}
		default:
			e[i] = Node{"t": "unknown-kind", "dsz": dsz, "pc": pcnt}
		}
	}
	n["e"] = e
	if kind >= 2 && kind <= 6 {
		// a primitive list may be read as a struct list whose elements hold the value as sole field
		for i := 0; i < ln; i++ {
			es := l.Struct(i)
			switch kind {
			// a field that does not lie entirely inside the element's (sub-word) data section reads as its default,
			// never as bytes of the neighbouring elements
			case 2:
				if es.Uint8(0) != u8.At(i) {
					bad(n, "struct view of byte list element differs")
				}
				if es.Uint16(0) != 0 || es.Uint32(0) != 0 || es.Uint64(0) != 0 || es.Uint8(1) != 0 || es.Bit(8) {
					bad(n, "struct view of byte list element: a field wider than / beyond the 1-byte data section is not zero")
				}
			case 3:
				if es.Uint16(0) != u16.At(i) {
					bad(n, "struct view of 2-byte list element differs")
				}
				if es.Uint8(0) != uint8(u16.At(i)) || es.Uint8(1) != uint8(u16.At(i)>>8) {
					bad(n, "struct view of 2-byte list element: byte fields differ")
				}
				if es.Uint32(0) != 0 || es.Uint64(0) != 0 || es.Uint16(2) != 0 || es.Uint8(2) != 0 {
					bad(n, "struct view of 2-byte list element: a field wider than / beyond the 2-byte data section is not zero")
				}
			case 4:
				if es.Uint32(0) != u32.At(i) {
					bad(n, "struct view of 4-byte list element differs")
				}
				if es.Uint16(0) != uint16(u32.At(i)) || es.Uint16(2) != uint16(u32.At(i)>>16) {
					bad(n, "struct view of 4-byte list element: 2-byte fields differ")
				}
				if es.Uint64(0) != 0 || es.Uint32(4) != 0 || es.Uint8(4) != 0 {
					bad(n, "struct view of 4-byte list element: a field wider than / beyond the 4-byte data section is not zero")
				}
			case 5:
				if es.Uint64(0) != u64.At(i) {
					bad(n, "struct view of 8-byte list element differs")
				}
				if es.Uint32(4) != uint32(u64.At(i)>>32) || es.Uint64(8) != 0 || es.Uint8(8) != 0 {
					bad(n, "struct view of 8-byte list element: fields inside / beyond the data section differ")
				}
			case 6:
				q1, e1 := es.Ptr(0)
				q2, e2 := capnp.PointerList{List: l}.At(i)
				if (e1 == nil) != (e2 == nil) || (e1 == nil && !capnp.SamePtr(q1, q2) && q1.IsValid() != q2.IsValid()) {
					bad(n, "struct view of pointer list element differs")
				}
			}
		}
	}
	if kind == 2 {
		// byte lists are also Data (and Text when NUL-terminated): same bytes
		db := p.Data()
		if len(db) != ln {
			bad(n, fmt.Sprintf("Data() has %d bytes, list has %d", len(db), ln))
		} else {
			for i := range db {
				if db[i] != u8.At(i) {
					bad(n, "Data() differs from UInt8List view")
					break
				}
			}
		}
		tb := p.TextBytes()
		if ln > 0 && db[ln-1] == 0 {
			if string(tb) != string(db[:ln-1]) || p.Text() != string(db[:ln-1]) {
				bad(n, "Text() differs from the list bytes without the terminator")
			}
		} else if tb != nil || p.Text() != "" {
			bad(n, "Text() of a list that is not NUL-terminated is not empty")
		}
	}
	return n
}

// Compare checks the observed tree against the value the specification
// assigns.  Where the specification says Err the implementation is free.
// Returns "" when consistent, else a description of the first difference.
func Compare(exp interface{}, obs interface{}, path string) string {
	em, ok := exp.(map[string]interface{})
	if !ok {
		return path + ": malformed expectation"
	}
	if em["t"] == "err" {
		return ""
	}
	om, ok := obs.(map[string]interface{})
	if !ok {
		return path + ": observed value is not a node"
	}
	if b, has := om["xbad"]; has {
		return fmt.Sprintf("%s: %v", path, b)
	}
	if om["t"] != em["t"] {
		return fmt.Sprintf("%s: spec says %s, implementation returned %s", path, brief(em), brief(om))
	}
	switch em["t"] {
	case "null":
		return ""
	case "cap":
		if !eqJSON(em["i"], om["i"]) {
			return fmt.Sprintf("%s: capability index spec=%v got=%v", path, em["i"], om["i"])
		}
	case "struct":
		if !eqJSON(em["d"], om["d"]) {
			return fmt.Sprintf("%s: struct data spec=%v got=%v", path, em["d"], om["d"])
		}
		ep, _ := em["p"].([]interface{})
		op, _ := om["p"].([]interface{})
		if len(ep) != len(op) {
			return fmt.Sprintf("%s: pointer count spec=%d got=%d", path, len(ep), len(op))
		}
		for i := range ep {
			if r := Compare(ep[i], op[i], fmt.Sprintf("%s.p%d", path, i)); r != "" {
				return r
			}
		}
	case "list":
		if !eqJSON(em["k"], om["k"]) || !eqJSON(em["n"], om["n"]) {
			return fmt.Sprintf("%s: list kind/length spec=(%v,%v) got=(%v,%v)", path, em["k"], em["n"], om["k"], om["n"])
		}
		ee, _ := em["e"].([]interface{})
		oe, _ := om["e"].([]interface{})
		if len(ee) != len(oe) {
			return fmt.Sprintf("%s: element count spec=%d got=%d", path, len(ee), len(oe))
		}
		k, _ := em["k"].(float64)
		for i := range ee {
			if k == 6 || k == 7 {
				if r := Compare(ee[i], oe[i], fmt.Sprintf("%s[%d]", path, i)); r != "" {
					return r
				}
			} else if !eqJSON(ee[i], oe[i]) {
				return fmt.Sprintf("%s[%d]: element spec=%v got=%v", path, i, ee[i], oe[i])
			}
		}
	default:
		return fmt.Sprintf("%s: unexpected expectation %v", path, em["t"])
	}
	return ""
}

func brief(m map[string]interface{}) string {
	b, _ := json.Marshal(m)
	if len(b) > 200 {
		b = append(b[:200], "..."...)
	}
	return string(b)
}

func eqJSON(a, b interface{}) bool {
	switch x := a.(type) {
	case float64:
		y, ok := b.(float64)
		return ok && x == y
	case []interface{}:
		y, ok := b.([]interface{})
		if !ok || len(x) != len(y) {
			return false
		}
		for i := range x {
			if !eqJSON(x[i], y[i]) {
				return false
			}
		}
		return true
	case string:
		y, ok := b.(string)
		return ok && x == y
	case nil:
		return b == nil
	}
	return false
}

// ---- building messages from raw words ----

// SegsFromJSON converts [[[8 bytes]..]..] into byte slices, each its own
// allocation with cap == len so that any over-read faults.
func SegsFromJSON(v interface{}) [][]byte {
	ss := v.([]interface{})
	out := make([][]byte, len(ss))
	for i, s := range ss {
		ws := s.([]interface{})
		b := make([]byte, 0, len(ws)*8)
		for _, w := range ws {
			for _, x := range w.([]interface{}) {
				b = append(b, byte(x.(float64)))
			}
		}
		out[i] = b[:len(b):len(b)]
	}
	return out
}

// ExactArena is a read-only arena whose segments are separate exact-size allocations.
type ExactArena struct{ Segs [][]byte }

func (a *ExactArena) NumSegments() int64 { return int64(len(a.Segs)) }
func (a *ExactArena) Data(id capnp.SegmentID) ([]byte, error) {
	if int(id) >= len(a.Segs) {
		return nil, fmt.Errorf("no segment %d", id)
	}
	return a.Segs[id], nil
}
func (a *ExactArena) Allocate(sz capnp.Size, segs map[capnp.SegmentID]*capnp.Segment) (capnp.SegmentID, []byte, error) {
	return 0, nil, fmt.Errorf("ExactArena is read-only")
}

// Frame builds the stream framing of the segments as the encoding spec defines it.
func Frame(segs [][]byte) []byte {
	n := len(segs)
	hdr := make([]byte, 0, 8*(n/2+1))
	var w [4]byte
	binary.LittleEndian.PutUint32(w[:], uint32(n-1))
	hdr = append(hdr, w[:]...)
	for _, s := range segs {
		binary.LittleEndian.PutUint32(w[:], uint32(len(s)/8))
		hdr = append(hdr, w[:]...)
	}
	if len(hdr)%8 != 0 {
		hdr = append(hdr, 0, 0, 0, 0)
	}
	for _, s := range segs {
		hdr = append(hdr, s...)
	}
	return hdr[:len(hdr):len(hdr)]
}

func cloneSegs(segs [][]byte) [][]byte {
	out := make([][]byte, len(segs))
	for i, s := range segs {
		c := make([]byte, len(s))
		copy(c, s)
		out[i] = c
	}
	return out
}

// Modes of presenting the same words to the library.  The two "slack" modes hand the library segment
// slices with spare capacity behind them, filled with two different garbage patterns: a result that
// differs between them (or from "exact") was derived from bytes outside the segments.
var Modes = []string{"exact", "multi", "unmarshal", "unmarshal-packed", "slack-a", "slack-b"}

// SlackArena is a read-only arena whose segments have 32 bytes of garbage capacity behind them.
type SlackArena struct{ Segs [][]byte }

func NewSlackArena(segs [][]byte, pattern []byte) *SlackArena {
	a := &SlackArena{}
	for _, s := range segs {
		b := make([]byte, len(s)+32)
		copy(b, s)
		for i := len(s); i < len(b); i++ {
			b[i] = pattern[(i-len(s))%len(pattern)]
		}
		a.Segs = append(a.Segs, b[:len(s)])
	}
	return a
}
func (a *SlackArena) NumSegments() int64 { return int64(len(a.Segs)) }
func (a *SlackArena) Data(id capnp.SegmentID) ([]byte, error) {
	if int(id) >= len(a.Segs) {
		return nil, fmt.Errorf("no segment %d", id)
	}
	return a.Segs[id], nil
}
func (a *SlackArena) Allocate(sz capnp.Size, segs map[capnp.SegmentID]*capnp.Segment) (capnp.SegmentID, []byte, error) {
	return 0, nil, fmt.Errorf("SlackArena is read-only")
}

func Message(segs [][]byte, mode string) (*capnp.Message, error) {
	var m *capnp.Message
	switch mode {
	case "exact":
		m = &capnp.Message{Arena: &ExactArena{cloneSegs(segs)}}
	case "multi":
		m = &capnp.Message{Arena: capnp.MultiSegment(cloneSegs(segs))}
	case "slack-a":
		// behind each segment: words that read as "struct pointer, 1 data word, offset 0" / small list pointers
		m = &capnp.Message{Arena: NewSlackArena(segs, []byte{0, 0, 0, 0, 1, 0, 0, 0, 1, 0, 0, 0, 0x0a, 0, 0, 0})}
	case "slack-b":
		m = &capnp.Message{Arena: NewSlackArena(segs, []byte{0xfc, 0xff, 0xff, 0xff, 0, 0, 1, 0, 0x11, 0x22, 0x33, 0x44, 0x55, 0x66, 0x77, 0x88})}
	case "single":
		m = &capnp.Message{Arena: capnp.SingleSegment(cloneSegs(segs)[0])}
	case "unmarshal":
		var err error
		m, err = capnp.Unmarshal(Frame(segs))
		if err != nil {
			return nil, err
		}
	case "unmarshal-packed":
		mm := &capnp.Message{Arena: &ExactArena{cloneSegs(segs)}}
		b, err := mm.MarshalPacked()
		if err != nil {
			return nil, err
		}
		m, err = capnp.UnmarshalPacked(b)
		if err != nil {
			return nil, err
		}
	default:
		panic("mode " + mode)
	}
	m.TraverseLimit = 1 << 40
	m.DepthLimit = 1 << 20
	return m, nil
}
