// Driver for C10: runs small multi-threaded programs over capnp.Client handles
// under a gate scheduler (every verif yield point in capability.go, every API
// call boundary and the instrumented hook's Send are scheduling points), records
// a totally ordered event trace and writes it for TLC (spec/cap/ClientRefAbs.tla).
//
//	capdrv run <programs.ndjson> <trace.ndjson> <mode> <budget>
//	   mode: dfs (systematic enumeration of schedules per program, at most <budget> each)
//	         rnd (<budget> seeded random schedules per program)
package main

import (
	"bufio"
	"context"
	"encoding/json"
	"fmt"
	"math/rand"
	"os"
	"strconv"
	"strings"
	"sync"

	capnp "capnproto.org/go/capnp/v3"
	"capnproto.org/go/capnp/v3/internal/verifh/vsched"
)

type J = map[string]interface{}

type op struct {
	Op  string `json:"op"`
	H   string `json:"h"`
	New string `json:"new"`
	W   string `json:"w"`
}

type program struct {
	ID       string `json:"id"`
	Threads  [][]op `json:"threads"`
	Extra    string `json:"extra"`    // "c0": a second reference to the promised client exists from the start
	Weak     string `json:"weak"`     // "w1": a weak reference to k1 exists from the start
	Promise2 bool   `json:"promise2"` // a second promised client c7 -> p2 exists (Fulfill with w = "p2" resolves it)
	Mode     string `json:"mode"`     // "rnd": seeded random schedules instead of depth-first enumeration
	Budget   int    `json:"budget"`   // schedules for this program (0: the default given on the command line)
}

// ---------------- one execution ----------------

type world struct {
	*vsched.World
	mu       sync.Mutex
	handles  map[string]*capnp.Client
	weaks    map[string]*capnp.WeakClient
	promise  *capnp.ClientPromise
	promise2 *capnp.ClientPromise
}

func (w *world) log(e J)        { w.Log(e) }
func (w *world) thread() int    { return w.Thread() }
func (w *world) yield(s string) { w.Yield(s) }

type vhook struct {
	w    *world
	name string
}

var errSent = fmt.Errorf("verif-sent")

func (h *vhook) Send(ctx context.Context, s capnp.Send) (*capnp.Answer, capnp.ReleaseFunc) {
	t := h.w.thread()
	h.w.log(J{"ev": "send-enter", "t": t, "k": h.name, "op": "", "h": "", "new": "", "w": "", "res": ""})
	h.w.yield("hook:send")
	h.w.log(J{"ev": "send-exit", "t": t, "k": h.name, "op": "", "h": "", "new": "", "w": "", "res": ""})
	return capnp.ErrorAnswer(s.Method, errSent), func() {}
}
func (h *vhook) Recv(ctx context.Context, r capnp.Recv) capnp.PipelineCaller {
	r.Reject(errSent)
	return nil
}
func (h *vhook) Brand() capnp.Brand { return capnp.Brand{Value: h} }
func (h *vhook) Shutdown() {
	h.w.log(J{"ev": "shutdown", "t": h.w.thread(), "k": h.name, "op": "", "h": "", "new": "", "w": "", "res": ""})
}

func (w *world) get(h string) *capnp.Client {
	w.mu.Lock()
	defer w.mu.Unlock()
	return w.handles[h]
}

func (w *world) exec(t int, o op) (res string) {
	defer func() {
		if p := recover(); p != nil {
			res = "panic:" + fmt.Sprint(p)
		}
	}()
	switch o.Op {
	case "AddRef":
		c := w.get(o.H).AddRef()
		w.mu.Lock()
		w.handles[o.New] = c
		w.mu.Unlock()
		if c == nil {
			return "nil"
		}
		return "client"
	case "Release":
		w.get(o.H).Release()
		return "ok"
	case "Call":
		ans, rel := w.get(o.H).SendCall(context.Background(), capnp.Send{Method: capnp.Method{InterfaceID: 1, MethodID: 2}})
		_, err := ans.Struct()
		rel()
		switch {
		case err == nil:
			return "noerror"
		case strings.Contains(err.Error(), "verif-sent"):
			return "sent"
		case strings.Contains(err.Error(), "released client"):
			return "err:released"
		case strings.Contains(err.Error(), "null client"):
			return "err:null"
		}
		return "err:" + err.Error()
	case "IsValid":
		if w.get(o.H).IsValid() {
			return "true"
		}
		return "false"
	case "WeakRef":
		wc := w.get(o.H).WeakRef()
		w.mu.Lock()
		w.weaks[o.W] = wc
		w.mu.Unlock()
		if wc == nil {
			return "nil"
		}
		return "weak"
	case "WeakAddRef":
		w.mu.Lock()
		wc := w.weaks[o.W]
		w.mu.Unlock()
		c, ok := wc.AddRef()
		w.mu.Lock()
		w.handles[o.New] = c
		w.mu.Unlock()
		if !ok {
			return "dead"
		}
		if c == nil {
			return "nil"
		}
		return "client"
	case "Fulfill":
		pr := w.promise
		if o.W == "p2" {
			pr = w.promise2
		}
		if o.H == "nil" {
			pr.Fulfill(nil)
		} else {
			pr.Fulfill(w.get(o.H))
		}
		return "ok"
	}
	return "unknown-op"
}

func runOnce(p *program, ch vsched.Chooser) *vsched.Outcome {
	w := &world{handles: map[string]*capnp.Client{}, weaks: map[string]*capnp.WeakClient{}}
	var threads []func(vw *vsched.World, t int)
	for ti := range p.Threads {
		ops := p.Threads[ti]
		threads = append(threads, func(vw *vsched.World, t int) {
			for _, o := range ops {
				vw.Yield("op")
				vw.Log(J{"ev": "start", "t": t, "k": "", "op": o.Op, "h": o.H, "new": o.New, "w": o.W, "res": ""})
				r := w.exec(t, o)
				vw.Log(J{"ev": "end", "t": t, "k": "", "op": o.Op, "h": o.H, "new": o.New, "w": o.W, "res": r})
			}
		})
	}
	out := vsched.RunOnce(func(y func(string)) { capnp.VerifYield = y }, func(vw *vsched.World) {
		w.World = vw
		k1 := &vhook{w, "k1"}
		p1 := &vhook{w, "p1"}
		w.handles["c1"] = capnp.NewClient(k1)
		w.handles["c9"] = w.handles["c1"].AddRef() // a second reference to k1, used by thread 2
		w.handles["c2"], w.promise = capnp.NewPromisedClient(p1)
		if p.Extra == "c0" {
			w.handles["c0"] = w.handles["c2"].AddRef()
		}
		nw := ""
		if p.Promise2 {
			w.handles["c7"], w.promise2 = capnp.NewPromisedClient(&vhook{w, "p2"})
			nw = "c7"
		}
		wk := ""
		if p.Weak == "w1" {
			w.weaks["w1"] = w.handles["c1"].WeakRef()
			wk = "w1"
		}
		vw.Log(J{"ev": "reset", "t": 0, "k": "", "op": "", "h": p.Extra, "new": nw, "w": wk, "res": "", "prog": p.ID})
	}, threads, ch)
	if out.Hang == "" {
		out.Trace = append(out.Trace, J{"ev": "quiesce", "t": 0, "k": "", "op": "", "h": "", "new": "", "w": "", "res": ""})
	}
	return out
}

type randChooser struct{ r *rand.Rand }

func (c *randChooser) Pick(n int) int { return c.r.Intn(n) }

func main() {
	pf, err := os.Open(os.Args[2])
	if err != nil {
		panic(err)
	}
	tf, err := os.Create(os.Args[3])
	if err != nil {
		panic(err)
	}
	mode := os.Args[4]
	budget, _ := strconv.Atoi(os.Args[5])
	seed, _ := strconv.ParseInt(os.Getenv("VERIF_SEED"), 10, 64)
	tw := bufio.NewWriterSize(tf, 1<<20)
	tenc := json.NewEncoder(tw)
	enc := json.NewEncoder(os.Stdout)
	sc := bufio.NewScanner(pf)
	sc.Buffer(make([]byte, 1<<20), 64<<20)
	stats := map[string]int{}
	nprog := 0
	hangs := 0
	sites := map[string]int{}
	emitTrace := func(o *vsched.Outcome, p *program, sched []int) {
		for _, e := range o.Trace {
			tenc.Encode(e)
		}
		stats["executions"]++
		stats["events"] += len(o.Trace)
		for k, v := range o.Sites {
			sites[k] += v
		}
	}
	for sc.Scan() {
		var p program
		if err := json.Unmarshal(sc.Bytes(), &p); err != nil {
			panic(err)
		}
		nprog++
		if hangs >= 5 {
			continue
		}
		report := func(o *vsched.Outcome, sched []int) {
			if o.Hang != "" {
				hangs++
				enc.Encode(J{"what": "hang", "prog": p, "schedule": sched, "dump": o.Hang})
				return
			}
			emitTrace(o, &p, sched)
		}
		if mode == "rnd" || p.Mode == "rnd" {
			r := rand.New(rand.NewSource(seed*7919 + int64(nprog)))
			n := budget
			if p.Budget > 0 {
				n = p.Budget
			}
			for i := 0; i < n; i++ {
				o := runOnce(&p, &randChooser{r})
				report(o, o.Taken)
			}
			continue
		}
		b := budget
		if p.Budget > 0 {
			b = p.Budget
		}
		full := vsched.Explore(b, func(ch vsched.Chooser) *vsched.Outcome { return runOnce(&p, ch) }, func(o *vsched.Outcome) bool {
			report(o, o.Taken)
			return o.Hang == ""
		})
		if full {
			stats["programs_fully_explored"]++
		}
	}
	tw.Flush()
	tf.Close()
	capnp.VerifYield = nil
	enc.Encode(J{"summary": true, "programs": nprog, "stats": stats, "hangs": hangs, "sites": sites})
}
