// Driver for C13: runs the real packed codec on TLC-generated vectors and
// produces Pack outputs for TLC to unpack independently.
package main

import (
	"bufio"
	"bytes"
	"encoding/json"
	"fmt"
	"io"
	"math/rand"
	"os"
	"strconv"
	"sync"

	capnp "capnproto.org/go/capnp/v3"
	"capnproto.org/go/capnp/v3/internal/packed"
)

type vector struct {
	Inp      []int           `json:"inp"`
	Out      [][]interface{} `json:"out"`
	Complete bool            `json:"complete"`
	Where    string          `json:"where"`
}

type mismatch struct {
	Kind  string `json:"kind"`  // decoder + what
	Where string `json:"where"` // spec state at end of input
	Inp   []int  `json:"inp"`
	Mode  string `json:"mode,omitempty"`
	Got   string `json:"got,omitempty"`
	Want  string `json:"want,omitempty"`
}

func expand(out [][]interface{}) []byte {
	var b []byte
	for _, e := range out {
		w := e[0].([]interface{})
		n := int(e[1].(float64))
		var word [8]byte
		for i := 0; i < 8; i++ {
			word[i] = byte(w[i].(float64))
		}
		for i := 0; i < n; i++ {
			b = append(b, word[:]...)
		}
	}
	return b
}

// chunkReader hands out at most n bytes per Read call.
type chunkReader struct {
	b []byte
	n int
}

func (c *chunkReader) Read(p []byte) (int, error) {
	if len(c.b) == 0 {
		return 0, io.EOF
	}
	k := c.n
	if k > len(p) {
		k = len(p)
	}
	if k > len(c.b) {
		k = len(c.b)
	}
	copy(p, c.b[:k])
	c.b = c.b[k:]
	return k, nil
}

type rmode struct {
	chunk, bufsz, psz int // psz 0 = ReadWord
}

var modes []rmode

func init() {
	for _, chunk := range []int{1, 2, 3, 5, 7, 8, 9, 10, 16, 17, 64, 1 << 20} {
		for _, bufsz := range []int{16, 4096} {
			for _, psz := range []int{0, 1, 3, 7, 8, 9, 16, 17, 100, 4096} {
				// thin the product: keep all psz for a few chunkings, and ReadWord+8+100 for all
				if psz == 0 || psz == 8 || psz == 100 || chunk == 1 || chunk == 9 || chunk == 1<<20 {
					modes = append(modes, rmode{chunk, bufsz, psz})
				}
			}
		}
	}
}

const maxOut = 64 << 20

// stream decodes inp with the streaming Reader; returns output, final error.
func stream(inp []byte, m rmode) ([]byte, error) {
	r := packed.NewReader(bufio.NewReaderSize(&chunkReader{inp, m.chunk}, m.bufsz))
	var out []byte
	if m.psz == 0 {
		var w [8]byte
		for {
			err := r.ReadWord(w[:])
			if err != nil {
				return out, err
			}
			out = append(out, w[:]...)
			if len(out) > maxOut {
				return out, fmt.Errorf("verif: runaway output")
			}
		}
	}
	p := make([]byte, m.psz)
	zero := 0
	for {
		n, err := r.Read(p)
		out = append(out, p[:n]...)
		if err != nil {
			return out, err
		}
		if n == 0 {
			zero++
			if zero > 100 {
				return out, fmt.Errorf("verif: Read makes no progress")
			}
		} else {
			zero = 0
		}
		if len(out) > maxOut {
			return out, fmt.Errorf("verif: runaway output")
		}
	}
}

func hexs(b []byte) string {
	if len(b) > 96 {
		return fmt.Sprintf("%x...(%d bytes)", b[:96], len(b))
	}
	return fmt.Sprintf("%x", b)
}

func ints(b []byte) []int {
	r := make([]int, len(b), len(b)+1)
	for i, x := range b {
		r[i] = int(x)
	}
	return r
}

var enc = json.NewEncoder(os.Stdout)
var encMu sync.Mutex

func report(m mismatch) {
	encMu.Lock()
	enc.Encode(m)
	encMu.Unlock()
}

func errs(e error) string {
	if e == nil {
		return "nil"
	}
	return e.Error()
}

// checkInput runs every decoder on one packed input with known spec verdict.
func checkInput(inp []byte, want []byte, complete bool, where string, counts map[string]int) {
	in := ints(inp)
	// one-shot
	got, err := func() (b []byte, e error) {
		defer func() {
			if r := recover(); r != nil {
				e = fmt.Errorf("PANIC: %v", r)
			}
		}()
		return packed.Unpack(nil, inp)
	}()
	counts["unpack"]++
	if err != nil && len(errs(err)) > 5 && errs(err)[:5] == "PANIC" {
		report(mismatch{Kind: "unpack:panic", Where: where, Inp: in, Got: errs(err)})
	}
	if len(got) > 8*256*len(inp) {
		report(mismatch{Kind: "unpack:growth", Where: where, Inp: in, Got: strconv.Itoa(len(got))})
	}
	uacc := err == nil
	if complete {
		if !uacc {
			report(mismatch{Kind: "unpack:rejects-complete", Where: where, Inp: in, Got: errs(err)})
		} else if !bytes.Equal(got, want) {
			report(mismatch{Kind: "unpack:wrong-output", Where: where, Inp: in, Got: hexs(got), Want: hexs(want)})
		}
	} else if uacc {
		report(mismatch{Kind: "unpack:accepts-truncated", Where: where, Inp: in, Got: hexs(got)})
	}
	// streaming
	for _, m := range modes {
		ms := fmt.Sprintf("chunk=%d,buf=%d,p=%d", m.chunk, m.bufsz, m.psz)
		sgot, serr := func() (b []byte, e error) {
			defer func() {
				if r := recover(); r != nil {
					e = fmt.Errorf("PANIC: %v", r)
				}
			}()
			return stream(inp, m)
		}()
		counts["stream"]++
		sacc := serr == io.EOF
		if serr != nil && len(errs(serr)) > 6 && errs(serr)[:6] == "verif:" || len(errs(serr)) > 5 && errs(serr)[:5] == "PANIC" {
			report(mismatch{Kind: "reader:stuck-or-panic", Where: where, Inp: in, Mode: ms, Got: errs(serr)})
			continue
		}
		if len(sgot) > 8*256*len(inp)+8 {
			report(mismatch{Kind: "reader:growth", Where: where, Inp: in, Mode: ms, Got: strconv.Itoa(len(sgot))})
		}
		if complete {
			if !sacc {
				report(mismatch{Kind: "reader:rejects-complete", Where: where, Inp: in, Mode: ms, Got: errs(serr)})
			} else if !bytes.Equal(sgot, want) {
				report(mismatch{Kind: "reader:wrong-output", Where: where, Inp: in, Mode: ms, Got: hexs(sgot), Want: hexs(want)})
			}
		} else if sacc {
			report(mismatch{Kind: "reader:accepts-truncated", Where: where, Inp: in, Mode: ms, Got: hexs(sgot)})
		}
		// agreement between the two decoders (property clause of its own)
		if sacc != uacc {
			report(mismatch{Kind: "disagree:acceptance", Where: where, Inp: in, Mode: ms, Got: "unpack=" + errs(err) + " reader=" + errs(serr)})
		} else if sacc && uacc && !bytes.Equal(sgot, got) {
			report(mismatch{Kind: "disagree:output", Where: where, Inp: in, Mode: ms, Got: hexs(sgot), Want: hexs(got)})
		}
	}
}

func doVectors(path string) {
	f, err := os.Open(path)
	if err != nil {
		panic(err)
	}
	defer f.Close()
	sc := bufio.NewScanner(f)
	sc.Buffer(make([]byte, 1<<20), 64<<20)
	nv, ntr := 0, 0
	wheres := map[string]int{}
	type job struct {
		inp, want []byte
		complete  bool
		where     string
	}
	jobs := make(chan job, 256)
	var wg sync.WaitGroup
	var cmu sync.Mutex
	counts := map[string]int{}
	for w := 0; w < 12; w++ {
		wg.Add(1)
		go func() {
			defer wg.Done()
			local := map[string]int{}
			for j := range jobs {
				checkInput(j.inp, j.want, j.complete, j.where, local)
			}
			cmu.Lock()
			for k, v := range local {
				counts[k] += v
			}
			cmu.Unlock()
		}()
	}
	for sc.Scan() {
		var v vector
		if err := json.Unmarshal(sc.Bytes(), &v); err != nil {
			panic(err)
		}
		inp := make([]byte, len(v.Inp))
		for i, x := range v.Inp {
			inp[i] = byte(x)
		}
		nv++
		if !v.Complete {
			ntr++
		}
		wheres[v.Where]++
		jobs <- job{inp, expand(v.Out), v.Complete, v.Where}
	}
	close(jobs)
	wg.Wait()
	enc.Encode(map[string]interface{}{"summary": true, "vectors": nv, "truncated": ntr, "unpack_runs": counts["unpack"],
		"stream_runs": counts["stream"], "modes": len(modes), "where": wheres})
}

// ---- Pack direction ----

type payloadRec struct {
	ID      string        `json:"id"`
	Payload [][]interface{} `json:"payload"`
}

type traceRec struct {
	ID      string          `json:"id"`
	Payload [][]interface{} `json:"payload"`
	Packed  []int           `json:"packed"`
}

func rle(b []byte) [][]interface{} {
	out := [][]interface{}{}
	for i := 0; i+8 <= len(b); i += 8 {
		w := b[i : i+8]
		if n := len(out); n > 0 {
			pw := out[n-1][0].([]int)
			same := true
			for k := 0; k < 8; k++ {
				if byte(pw[k]) != w[k] {
					same = false
				}
			}
			if same {
				out[n-1][1] = out[n-1][1].(int) + 1
				continue
			}
		}
		out = append(out, []interface{}{ints(w), 1})
	}
	return out
}

func randomPayload(r *rand.Rand) []byte {
	var b []byte
	nseg := 1 + r.Intn(5)
	for s := 0; s < nseg; s++ {
		var n int
		switch r.Intn(4) {
		case 0:
			n = r.Intn(4)
		case 1:
			n = 250 + r.Intn(12)
		case 2:
			n = 505 + r.Intn(12)
		default:
			n = r.Intn(40)
		}
		kind := r.Intn(6)
		for i := 0; i < n; i++ {
			var w [8]byte
			switch kind {
			case 0: // zero
			case 1: // all non-zero
				for k := range w {
					w[k] = byte(1 + r.Intn(255))
				}
			case 2: // exactly one zero byte
				for k := range w {
					w[k] = byte(1 + r.Intn(255))
				}
				w[r.Intn(8)] = 0
			case 3: // two zero bytes
				for k := range w {
					w[k] = byte(1 + r.Intn(255))
				}
				w[r.Intn(8)] = 0
				w[r.Intn(8)] = 0
			case 4: // sparse
				w[r.Intn(8)] = byte(1 + r.Intn(255))
			default:
				for k := range w {
					if r.Intn(2) == 0 {
						w[k] = byte(r.Intn(256))
					}
				}
			}
			b = append(b, w[:]...)
		}
	}
	return b
}

func doPack(payloadFile, traceFile string, nrandom int, seed int64) {
	var payloads []struct {
		id string
		b  []byte
	}
	f, err := os.Open(payloadFile)
	if err != nil {
		panic(err)
	}
	sc := bufio.NewScanner(f)
	sc.Buffer(make([]byte, 1<<20), 64<<20)
	for sc.Scan() {
		var p payloadRec
		if err := json.Unmarshal(sc.Bytes(), &p); err != nil {
			panic(err)
		}
		payloads = append(payloads, struct {
			id string
			b  []byte
		}{p.ID, expand(p.Payload)})
	}
	f.Close()
	r := rand.New(rand.NewSource(seed))
	for i := 0; i < nrandom; i++ {
		payloads = append(payloads, struct {
			id string
			b  []byte
		}{fmt.Sprintf("rnd-%d-%d", seed, i), randomPayload(r)})
	}
	tf, err := os.Create(traceFile)
	if err != nil {
		panic(err)
	}
	tw := bufio.NewWriter(tf)
	tenc := json.NewEncoder(tw)
	counts := map[string]int{}
	for _, p := range payloads {
		pk := packed.Pack(nil, p.b)
		// also with a non-empty dst prefix: Pack appends
		pk2 := packed.Pack([]byte{0xAB, 0xCD}, p.b)
		if !bytes.Equal(pk2[2:], pk) || pk2[0] != 0xAB || pk2[1] != 0xCD {
			report(mismatch{Kind: "pack:dst-prefix", Where: p.id, Inp: ints(pk)})
		}
		tenc.Encode(traceRec{ID: p.id, Payload: rle(p.b), Packed: ints(pk)})
		// real decoders on the real packer's output (round trip)
		checkInput(pk, p.b, true, "roundtrip:"+p.id, counts)
		// message level: single segment message holding the payload
		if len(p.b) > 0 {
			msgLevel(p.id, p.b, counts)
		}
	}
	tw.Flush()
	tf.Close()
	enc.Encode(map[string]interface{}{"summary": true, "payloads": len(payloads), "unpack_runs": counts["unpack"],
		"stream_runs": counts["stream"], "msg_runs": counts["msg"]})
}

func msgLevel(id string, b []byte, counts map[string]int) {
	defer func() {
		if r := recover(); r != nil {
			report(mismatch{Kind: "msg:panic", Where: id, Got: fmt.Sprint(r)})
		}
	}()
	msg := &capnp.Message{Arena: capnp.SingleSegment(append([]byte(nil), b...))}
	mp, err := msg.MarshalPacked()
	if err != nil {
		report(mismatch{Kind: "msg:marshalpacked-error", Where: id, Got: errs(err)})
		return
	}
	m2, err := capnp.UnmarshalPacked(mp)
	if err != nil {
		report(mismatch{Kind: "msg:unmarshalpacked-error", Where: id, Got: errs(err)})
	} else if s, err := m2.Segment(0); err != nil || !bytes.Equal(s.Data(), b) {
		report(mismatch{Kind: "msg:unmarshalpacked-wrong", Where: id})
	}
	for _, chunk := range []int{1, 7, 9, 4096} {
		d := capnp.NewPackedDecoder(&chunkReader{mp, chunk})
		m3, err := d.Decode()
		if err != nil {
			report(mismatch{Kind: "msg:packeddecoder-error", Where: id, Got: errs(err)})
		} else if s, err := m3.Segment(0); err != nil || !bytes.Equal(s.Data(), b) {
			report(mismatch{Kind: "msg:packeddecoder-wrong", Where: id})
		}
		counts["msg"]++
	}
}

func main() {
	switch os.Args[1] {
	case "vectors":
		doVectors(os.Args[2])
	case "pack":
		n, _ := strconv.Atoi(os.Args[4])
		seed, _ := strconv.ParseInt(os.Args[5], 10, 64)
		doPack(os.Args[2], os.Args[3], n, seed)
	}
}
