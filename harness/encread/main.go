// Driver for the reading side of the encoding family (C03, C01).
//
//	encread c03 <msgs.ndjson>   read each TLC-generated message through the accessors
//	                            and compare with the value the spec assigns (field "val")
//	encread c01 <msgs.ndjson>   run every read-side consumer; report panics and hangs
package main

import (
	"bufio"
	"bytes"
	"encoding/json"
	"fmt"
	"os"
	"sync"

	"capnproto.org/go/capnp/v3/internal/verifh/vwalk"
)

type rec struct {
	Segs  interface{} `json:"segs"`
	Val   interface{} `json:"val"`
	Clean bool        `json:"clean"`
	Nfill int         `json:"nfill"`
}

var (
	outMu sync.Mutex
	enc   = json.NewEncoder(os.Stdout)
)

func emit(v interface{}) {
	outMu.Lock()
	enc.Encode(v)
	outMu.Unlock()
}

const walkDepth = 6 // = D of the generator configs: the walker cuts exactly where Value() says Err("depth")

func c03one(line int, r *rec, stats map[string]int) {
	segs := vwalk.SegsFromJSON(r.Segs)
	if len(segs) == 0 {
		return
	}
	var first []byte
	var firstMode string
	reported := false
	for _, mode := range vwalk.Modes {
		var obs vwalk.Node
		func() {
			defer func() {
				if p := recover(); p != nil {
					obs = vwalk.Node{"t": "panic", "xbad": fmt.Sprint("panic: ", p)}
				}
			}()
			m, err := vwalk.Message(segs, mode)
			if err != nil {
				obs = vwalk.Node{"t": "err", "r": err.Error(), "xbad": "message rejected: " + err.Error()}
				return
			}
			root, err := m.Root()
			if err != nil {
				obs = vwalk.Err(err)
				return
			}
			obs = vwalk.Walk(root, walkDepth)
		}()
		stats["reads"]++
		if d := vwalk.Compare(r.Val, obs, "root"); d != "" {
			emit(map[string]interface{}{"line": line, "mode": mode, "diff": d, "segs": r.Segs, "clean": r.Clean})
		}
		// every presentation supplies the same segment bytes: the observation must not depend on what lies
		// beyond a segment (spare capacity, the neighbouring segment of an unmarshalled buffer)
		ob, _ := json.Marshal(obs)
		if first == nil {
			first, firstMode = ob, mode
		} else if !bytes.Equal(first, ob) && !reported {
			reported = true
			emit(map[string]interface{}{"line": line, "mode": firstMode + " vs " + mode,
				"diff": fmt.Sprintf("root: result depends on bytes outside the segments: %s in %s, %s in %s", clip(first), firstMode, clip(ob), mode),
				"segs": r.Segs, "clean": r.Clean})
		}
	}
}

func clip(b []byte) string {
	if len(b) > 300 {
		return string(b[:300]) + "..."
	}
	return string(b)
}

func main() {
	cmd := os.Args[1]
	if cmd == "samples" {
		writeSamples(os.Args[2])
		return
	}
	f, err := os.Open(os.Args[2])
	if err != nil {
		panic(err)
	}
	defer f.Close()
	sc := bufio.NewScanner(f)
	sc.Buffer(make([]byte, 1<<20), 256<<20)
	type job struct {
		line int
		r    *rec
	}
	jobs := make(chan job, 128)
	var wg sync.WaitGroup
	var smu sync.Mutex
	stats := map[string]int{}
	nw := 12
	if cmd == "c01" {
		nw = 1
	}
	for w := 0; w < nw; w++ {
		wg.Add(1)
		go func() {
			defer wg.Done()
			local := map[string]int{}
			for j := range jobs {
				switch cmd {
				case "c03":
					c03one(j.line, j.r, local)
				case "c01":
					c01one(j.line, j.r, local)
				}
			}
			smu.Lock()
			for k, v := range local {
				stats[k] += v
			}
			smu.Unlock()
		}()
	}
	line := 0
	nclean := 0
	for sc.Scan() {
		line++
		r := new(rec)
		if err := json.Unmarshal(sc.Bytes(), r); err != nil {
			panic(err)
		}
		if r.Clean {
			nclean++
		}
		jobs <- job{line, r}
	}
	close(jobs)
	wg.Wait()
	emit(map[string]interface{}{"summary": true, "messages": line, "clean": nclean, "stats": stats})
}
