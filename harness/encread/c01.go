package main

import (
	"bytes"
	"encoding/binary"
	"fmt"
	"hash/fnv"
	"math/rand"
	"os"
	"runtime"
	"strconv"
	"strings"
	"sync"
	"time"
	"unsafe"

	capnp "capnproto.org/go/capnp/v3"
	"capnproto.org/go/capnp/v3/encoding/text"
	air "capnproto.org/go/capnp/v3/internal/aircraftlib"
	"capnproto.org/go/capnp/v3/internal/verifh/vwalk"
	"capnproto.org/go/capnp/v3/pogs"
	"capnproto.org/go/capnp/v3/std/capnp/schema"
)

// mirror types for pogs.Extract (same shape as the repository's own pogs tests use)
type Z struct {
	Which air.Z_Which

	F64 float64
	F32 float32
	I64 int64
	I32 int32
	I16 int16
	I8  int8
	U64 uint64
	U32 uint32
	U16 uint16
	U8  uint8

	Bool bool
	Text string
	Blob []byte

	F64vec  []float64
	F32vec  []float32
	I64vec  []int64
	I32vec  []int32
	I16vec  []int16
	I8vec   []int8
	U64vec  []uint64
	U32vec  []uint32
	U16vec  []uint16
	U8vec   []uint8
	Boolvec []bool
	Datavec [][]byte
	Textvec []string

	Zvec    []*Z
	Zvecvec [][]*Z

	Planebase *PlaneBase
	Airport   air.Airport
	Grp       *ZGroup

	AnyPtr    capnp.Ptr
	AnyStruct capnp.Struct
	AnyList   capnp.List
}

type PlaneBase struct {
	Name     string
	Homes    []air.Airport
	Rating   int64
	CanFly   bool
	Capacity int64
	MaxSpeed float64
}

type ZGroup struct {
	First  uint64
	Second uint64
}

type consumerFault struct {
	Line     int         `json:"line"`
	Mode     string      `json:"mode"`
	Variant  string      `json:"variant"`
	Consumer string      `json:"consumer"`
	Kind     string      `json:"kind"` // panic | hang | escape
	Detail   string      `json:"detail"`
	Segs     [][]byte    `json:"-"`
	SegsJ    interface{} `json:"segs"`
}

func segsJSON(segs [][]byte) interface{} {
	out := make([]interface{}, len(segs))
	for i, s := range segs {
		ws := make([]interface{}, len(s)/8)
		for w := range ws {
			b := make([]int, 8)
			for k := 0; k < 8; k++ {
				b[k] = int(s[w*8+k])
			}
			ws[w] = b
		}
		out[i] = ws
	}
	return out
}

// run f under recover; report a panic as a fault
// VERIF_C01_ONLY = "<mode>|<limits>|<consumer>": run only that consumer on that presentation (confirmation of a watchdog report)
var c01only = os.Getenv("VERIF_C01_ONLY")

func guarded(line int, mode, variant, consumer string, segs [][]byte, stats map[string]int, f func()) {
	if c01only != "" {
		lim := variant
		if i := strings.LastIndex(variant, "/"); i >= 0 {
			lim = variant[i+1:]
		}
		if c01only != mode+"|"+lim+"|"+consumer {
			return
		}
	}
	stats["consumer_runs"]++
	curMu.Lock()
	cur = &running{line: line, mode: mode, variant: variant, consumer: consumer, segs: segs, start: time.Now()}
	curMu.Unlock()
	defer func() {
		curMu.Lock()
		if d := time.Since(cur.start); d > 5*time.Second {
			stats["slow_consumer_runs"]++
		}
		cur = nil
		curMu.Unlock()
	}()
	defer func() {
		if p := recover(); p != nil {
			buf := make([]byte, 2048)
			n := runtime.Stack(buf, false)
			emit(consumerFault{Line: line, Mode: mode, Variant: variant, Consumer: consumer, Kind: "panic",
				Detail: fmt.Sprint(p) + " | " + firstLibFrame(string(buf[:n])), SegsJ: segsJSON(segs)})
		}
	}()
	f()
}

func firstLibFrame(stack string) string {
	// first frame inside the library (not runtime, not the harness)
	lines := bytes.Split([]byte(stack), []byte("\n"))
	for i, l := range lines {
		s := string(l)
		if len(s) > 0 && s[0] != '\t' && bytes.Contains(l, []byte("capnproto.org/go/capnp/v3")) && !bytes.Contains(l, []byte("verifh")) {
			if i+1 < len(lines) {
				return s + " " + string(bytes.TrimSpace(lines[i+1]))
			}
			return s
		}
	}
	return ""
}

// in-bounds check: every byte slice handed out must alias one of the supplied segments
func inSegs(b []byte, segs [][]byte) bool {
	if len(b) == 0 {
		return true
	}
	p := uintptr(unsafe.Pointer(&b[0]))
	for _, s := range segs {
		if len(s) == 0 {
			continue
		}
		lo := uintptr(unsafe.Pointer(&s[0]))
		if p >= lo && p+uintptr(len(b)) <= lo+uintptr(len(s)) {
			return true
		}
	}
	return false
}

func checkEscapes(p capnp.Ptr, segs [][]byte, depth int, budget *int) string {
	if !p.IsValid() || depth == 0 || *budget <= 0 {
		return ""
	}
	*budget--
	if s := p.Struct(); s.IsValid() {
		for i := 0; i < int(s.Size().PointerCount) && i < 70; i++ {
			q, err := s.Ptr(uint16(i))
			if err == nil {
				if r := checkEscapes(q, segs, depth-1, budget); r != "" {
					return r
				}
			}
		}
		return ""
	}
	if l := p.List(); l.IsValid() {
		k, _, _ := l.VerifShape()
		if k == 2 {
			if d := p.Data(); !inSegs(d, segs) {
				return fmt.Sprintf("Data() slice of %d bytes lies outside the supplied segments", len(d))
			}
			if d := p.TextBytes(); !inSegs(d, segs) {
				return fmt.Sprintf("TextBytes() slice of %d bytes lies outside the supplied segments", len(d))
			}
		}
		n := l.Len()
		if n > 70 {
			n = 70
		}
		for i := 0; i < n; i++ {
			switch k {
			case 6:
				q, err := capnp.PointerList{List: l}.At(i)
				if err == nil {
					if r := checkEscapes(q, segs, depth-1, budget); r != "" {
						return r
					}
				}
			case 7:
				if r := checkEscapes(l.Struct(i).ToPtr(), segs, depth-1, budget); r != "" {
					return r
				}
			}
		}
	}
	return ""
}

var typeIDs = []uint64{air.Z_TypeID, schema.Node_TypeID, air.PlaneBase_TypeID, air.Regression_TypeID, air.HoldsText_TypeID,
	air.Aircraft_TypeID, air.HoldsVerTwoTwoList_TypeID, air.Counter_TypeID, schema.CodeGeneratorRequest_TypeID, air.StackingRoot_TypeID}

// consumers runs every read-side consumer on one presentation of one message.
func consumers(line int, mode, variant string, segs [][]byte, limits string, stats map[string]int) {
	mk := func() (*capnp.Message, capnp.Ptr, bool) {
		m, err := vwalk.Message(segs, mode)
		if err != nil {
			return nil, capnp.Ptr{}, false
		}
		switch limits {
		case "default":
			m.TraverseLimit = 0
			m.DepthLimit = 0
		case "huge":
			m.TraverseLimit = 1 << 40
			m.DepthLimit = 6
		}
		root, err := m.Root()
		if err != nil {
			return m, capnp.Ptr{}, false
		}
		return m, root, true
	}
	tag := variant + "/" + limits
	guarded(line, mode, tag, "walk", segs, stats, func() {
		_, root, ok := mk()
		if ok {
			vwalk.Walk(root, 8)
		}
	})
	if mode == "exact" || mode == "slack-a" {
		guarded(line, mode, tag, "escape", segs, stats, func() {
			m, root, ok := mk()
			if !ok {
				return
			}
			var own [][]byte
			if ea, isExact := m.Arena.(*vwalk.ExactArena); isExact {
				own = ea.Segs
			} else {
				own = m.Arena.(*vwalk.SlackArena).Segs
			}
			budget := 2000
			if r := checkEscapes(root, own, 8, &budget); r != "" {
				emit(consumerFault{Line: line, Mode: mode, Variant: tag, Consumer: "escape", Kind: "escape", Detail: r, SegsJ: segsJSON(segs)})
			}
		})
	}
	guarded(line, mode, tag, "equal", segs, stats, func() {
		_, root, ok := mk()
		if ok {
			capnp.Equal(root, root)
		}
	})
	guarded(line, mode, tag, "canonicalize", segs, stats, func() {
		_, root, ok := mk()
		if ok && root.Struct().IsValid() {
			capnp.Canonicalize(root.Struct())
		}
	})
	guarded(line, mode, tag, "deepcopy", segs, stats, func() {
		_, root, ok := mk()
		if !ok {
			return
		}
		m2, _, err := capnp.NewMessage(capnp.SingleSegment(nil))
		if err != nil {
			return
		}
		if m2.SetRoot(root) == nil {
			if r2, err := m2.Root(); err == nil {
				vwalk.Walk(r2, 8)
			}
		}
		m3, _, _ := capnp.NewMessage(capnp.MultiSegment(nil))
		m3.SetRoot(root)
	})
	for _, id := range typeIDs {
		id := id
		guarded(line, mode, tag, "text@"+strconv.FormatUint(id, 16), segs, stats, func() {
			_, root, ok := mk()
			if ok && root.Struct().IsValid() {
				text.Marshal(id, root.Struct())
			}
		})
	}
	guarded(line, mode, tag, "pogs.Z", segs, stats, func() {
		_, root, ok := mk()
		if ok && root.Struct().IsValid() {
			var z Z
			pogs.Extract(&z, air.Z_TypeID, root.Struct())
		}
	})
	guarded(line, mode, tag, "pogs.PlaneBase", segs, stats, func() {
		_, root, ok := mk()
		if ok && root.Struct().IsValid() {
			var z PlaneBase
			pogs.Extract(&z, air.PlaneBase_TypeID, root.Struct())
		}
	})
}

// rootDataStart returns the byte offset of the root struct's data section in segment 0 when the
// root pointer is a near struct pointer with at least one data word in bounds, else -1.
func rootDataStart(segs [][]byte) int {
	if len(segs) == 0 || len(segs[0]) < 8 {
		return -1
	}
	w := binary.LittleEndian.Uint64(segs[0])
	if w&3 != 0 || w == 0 {
		return -1
	}
	off := int(int32(uint32(w)) >> 2)
	dw := int(uint16(w >> 32))
	start := (1 + off) * 8
	if dw == 0 || start < 0 || start+8 > len(segs[0]) {
		return -1
	}
	return start
}

// hasHugeList reports whether any word, read as a list pointer, has an element count above 2^20.
func hasHugeList(segs [][]byte) bool {
	for _, s := range segs {
		for i := 0; i+8 <= len(s); i += 8 {
			w := binary.LittleEndian.Uint64(s[i:])
			if w&3 == 1 && (w>>35) > 1<<20 {
				return true
			}
		}
	}
	return false
}

func cloneAll(segs [][]byte) [][]byte {
	out := make([][]byte, len(segs))
	for i, s := range segs {
		out[i] = append([]byte(nil), s...)
	}
	return out
}

// the consumer run in progress (for the watchdog): a hang is one consumer run on one presentation that
// does not finish within c01hang; the report carries the bytes of that very variant so that it can be re-run
type running struct {
	line                    int
	mode, variant, consumer string
	segs                    [][]byte
	start                   time.Time
}

var (
	curMu   sync.Mutex
	cur     *running
	c01hang = 150 * time.Second
)

var c01seed int64
var c01mut = 2
var c01modes = []string{"exact", "unmarshal", "slack-a"}

func init() {
	c01seed, _ = strconv.ParseInt(os.Getenv("VERIF_SEED"), 10, 64)
	if n, err := strconv.Atoi(os.Getenv("VERIF_C01_HANG")); err == nil && n > 0 {
		c01hang = time.Duration(n) * time.Second
	}
	if n, err := strconv.Atoi(os.Getenv("VERIF_C01_MUT")); err == nil {
		c01mut = n
	}
}

func c01one(line int, r *rec, stats map[string]int) {
	base := vwalk.SegsFromJSON(r.Segs)
	if len(base) == 0 {
		return
	}
	h := fnv.New64a()
	for _, b := range base {
		h.Write(b)
		h.Write([]byte{0xfe})
	}
	c01rng := rand.New(rand.NewSource(c01seed + 77 + int64(h.Sum64()>>1)))
	done := make(chan struct{})
	go func() {
		defer close(done)
		variants := []struct {
			name string
			segs [][]byte
		}{{"orig", base}}
		// schema-directed variants: make the root look like each member of aircraftlib.Z's union
		if st := rootDataStart(base); st >= 0 {
			for _, w := range []uint16{1, 13, 14, 15, 20, 24, 25, 26, 29, 30, 32, 39, 40, 41, 45, 46, 47, 48} {
				v := cloneAll(base)
				binary.LittleEndian.PutUint16(v[0][st:], w)
				variants = append(variants, struct {
					name string
					segs [][]byte
				}{"which=" + strconv.Itoa(int(w)), v})
			}
		}
		// seeded byte-level corruptions
		for k := 0; k < c01mut; k++ {
			v := cloneAll(base)
			for j := 0; j < 1+c01rng.Intn(3); j++ {
				s := c01rng.Intn(len(v))
				if len(v[s]) == 0 {
					continue
				}
				i := c01rng.Intn(len(v[s]))
				switch c01rng.Intn(3) {
				case 0:
					v[s][i] ^= 1 << uint(c01rng.Intn(8))
				case 1:
					v[s][i] = 0xff
				default:
					v[s][i] = byte(c01rng.Intn(256))
				}
			}
			variants = append(variants, struct {
				name string
				segs [][]byte
			}{"mut" + strconv.Itoa(k), v})
		}
		// truncated last segment
		if n := len(base); len(base[n-1]) >= 8 {
			v := cloneAll(base)
			v[n-1] = v[n-1][:len(v[n-1])-8]
			variants = append(variants, struct {
				name string
				segs [][]byte
			}{"trunc", v})
		}
		for _, v := range variants {
			stats["inputs"]++
			for _, mode := range c01modes {
				lim := []string{"default"}
				if v.name == "orig" || v.name == "trunc" || strings.HasPrefix(v.name, "which=") {
					lim = []string{"default", "huge"}
				}
				if hasHugeList(v.segs) {
					// with a 2^40 traversal budget a void list of 2^29 elements is legitimately
					// allowed to cost minutes (work is bounded by T, not by the input): skip
					lim = []string{"default"}
				}
				for _, l := range lim {
					consumers(line, mode, v.name, v.segs, l, stats)
				}
			}
		}
	}()
	tick := time.NewTicker(500 * time.Millisecond)
	defer tick.Stop()
	for {
		select {
		case <-done:
			return
		case <-tick.C:
			curMu.Lock()
			c := cur
			curMu.Unlock()
			if c == nil || time.Since(c.start) < c01hang {
				continue
			}
			buf := make([]byte, 1<<16)
			n := runtime.Stack(buf, true)
			emit(consumerFault{Line: line, Mode: c.mode, Variant: c.variant, Consumer: c.consumer, Kind: "hang",
				Detail: fmt.Sprintf("no result after %v | %s", c01hang, firstLibFrame(string(buf[:n]))), SegsJ: segsJSON(c.segs)})
			emit(map[string]interface{}{"summary": true, "aborted": "hang", "messages": line, "stats": stats})
			os.Exit(3)
		}
	}
}
