package main

func c01one(line int, r *rec, stats map[string]int) {}
