package main

import (
	"encoding/json"
	"os"

	"capnproto.org/go/capnp/v3"
	air "capnproto.org/go/capnp/v3/internal/aircraftlib"
)

// Schema-directed hostile family of C01: well-formed, populated values of the schema types the text / pogs consumers
// render, each with every word in turn replaced by boundary patterns (all ones, 0x0101..., high bit of every half word).
// EncGen reaches every pointer shape; this family reaches the places where a consumer trusts DATA because of the
// schema: enumerants and union discriminants beyond the schema, list elements of enum / bool / float type, text without
// its terminator.
func sampleMessages() [][]byte {
	var out [][]byte
	add := func(build func(seg *capnp.Segment) error) {
		msg, seg, err := capnp.NewMessage(capnp.SingleSegment(nil))
		if err != nil {
			panic(err)
		}
		if err := build(seg); err != nil {
			panic(err)
		}
		b, err := msg.Marshal()
		if err != nil {
			panic(err)
		}
		out = append(out, append([]byte(nil), b[8:]...)) // single segment: drop the frame header
	}
	add(func(seg *capnp.Segment) error {
		p, err := air.NewRootPlaneBase(seg)
		if err != nil {
			return err
		}
		p.SetName("ab")
		hs, err := p.NewHomes(5)
		if err != nil {
			return err
		}
		for i := 0; i < 5; i++ {
			hs.Set(i, air.Airport(i))
		}
		p.SetRating(7)
		p.SetCanFly(true)
		return nil
	})
	add(func(seg *capnp.Segment) error {
		z, err := air.NewRootZ(seg)
		if err != nil {
			return err
		}
		l, err := z.NewF64vec(2)
		if err != nil {
			return err
		}
		l.Set(0, 1.5)
		return nil
	})
	add(func(seg *capnp.Segment) error {
		z, err := air.NewRootZ(seg)
		if err != nil {
			return err
		}
		l, err := z.NewBoolvec(9)
		if err != nil {
			return err
		}
		l.Set(8, true)
		return nil
	})
	add(func(seg *capnp.Segment) error {
		z, err := air.NewRootZ(seg)
		if err != nil {
			return err
		}
		pb, err := z.NewPlanebase()
		if err != nil {
			return err
		}
		pb.SetName("x")
		hs, err := pb.NewHomes(2)
		if err != nil {
			return err
		}
		hs.Set(1, air.Airport_lax)
		return nil
	})
	add(func(seg *capnp.Segment) error {
		z, err := air.NewRootZ(seg)
		if err != nil {
			return err
		}
		zv, err := z.NewZvec(2)
		if err != nil {
			return err
		}
		zv.At(0).SetAirport(air.Airport_sfo)
		zv.At(1).SetI64(-1)
		return nil
	})
	add(func(seg *capnp.Segment) error {
		a, err := air.NewRootAircraft(seg)
		if err != nil {
			return err
		}
		b, err := a.NewB737()
		if err != nil {
			return err
		}
		pb, err := b.NewBase()
		if err != nil {
			return err
		}
		pb.SetName("b737")
		hs, err := pb.NewHomes(1)
		if err != nil {
			return err
		}
		hs.Set(0, air.Airport_jfk)
		return nil
	})
	add(func(seg *capnp.Segment) error {
		h, err := air.NewRootHoldsText(seg)
		if err != nil {
			return err
		}
		h.SetTxt("hello")
		l, err := h.NewLst(2)
		if err != nil {
			return err
		}
		l.Set(0, "a")
		l.Set(1, "bc")
		ll, err := h.NewLstlst(1)
		if err != nil {
			return err
		}
		_ = ll
		return nil
	})
	return out
}

func writeSamples(path string) {
	f, err := os.Create(path)
	if err != nil {
		panic(err)
	}
	defer f.Close()
	enc := json.NewEncoder(f)
	n := 0
	emitMsg := func(seg []byte) {
		words := make([][]int, 0, len(seg)/8)
		for i := 0; i+8 <= len(seg); i += 8 {
			w := make([]int, 8)
			for j := 0; j < 8; j++ {
				w[j] = int(seg[i+j])
			}
			words = append(words, w)
		}
		enc.Encode(map[string]interface{}{"segs": [][][]int{words}, "val": nil, "clean": false, "nfill": 0, "family": "schema-samples"})
		n++
	}
	pats := [][8]byte{
		{0xff, 0xff, 0xff, 0xff, 0xff, 0xff, 0xff, 0xff},
		{0x01, 0x01, 0x01, 0x01, 0x01, 0x01, 0x01, 0x01},
		{0x00, 0x80, 0x00, 0x80, 0x00, 0x80, 0x00, 0x80},
		{0x63, 0x00, 0x63, 0x00, 0x63, 0x00, 0x63, 0x00},
	}
	for _, m := range sampleMessages() {
		emitMsg(m)
		for w := 0; w+8 <= len(m); w += 8 {
			for _, p := range pats {
				v := append([]byte(nil), m...)
				copy(v[w:], p[:])
				emitMsg(v)
			}
		}
	}
	json.NewEncoder(os.Stdout).Encode(map[string]interface{}{"summary": true, "samples": n})
}
