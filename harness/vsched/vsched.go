// Package vsched is the gate scheduler shared by the concurrency drivers (C10, C11).
//
// Worker goroutines park at every scheduling point (the verif yield points inside
// the library, every API call boundary, instrumented callbacks); a scheduler
// releases exactly one parked worker at a time according to a Chooser.  A
// released worker that does not reach another scheduling point within a short
// quiet period is treated as blocked inside the library (this only influences
// which schedule is explored - verdicts come from validating the recorded
// trace).  If no worker can make progress the execution is reported as a hang
// together with a goroutine dump.
package vsched

import (
	"bytes"
	"runtime"
	"strconv"
	"sync"
	"time"
)

type J = map[string]interface{}

func Goid() int {
	var buf [64]byte
	n := runtime.Stack(buf[:], false)
	f := bytes.Fields(buf[:n])
	id, _ := strconv.Atoi(string(f[1]))
	return id
}

type event struct {
	t    int
	kind string
	site string
}

type World struct {
	mu      sync.Mutex
	trace   []J
	workers map[int]int // goroutine id -> thread number
	events  chan event
	resume  map[int]chan bool
	dead    bool
	Sites   map[string]int // yield sites seen (coverage)
}

// Log appends an event to the totally ordered trace.
func (w *World) Log(e J) {
	w.mu.Lock()
	w.trace = append(w.trace, e)
	w.mu.Unlock()
}

// Thread returns the worker number of the calling goroutine (0 if it is not a worker).
func (w *World) Thread() int {
	w.mu.Lock()
	t := w.workers[Goid()]
	w.mu.Unlock()
	return t
}

// Yield parks the calling worker until the scheduler releases it; other goroutines pass through.
func (w *World) Yield(site string) {
	w.mu.Lock()
	t, ok := w.workers[Goid()]
	dead := w.dead
	if ok && !dead {
		w.Sites[site]++
	}
	w.mu.Unlock()
	if !ok || dead {
		return
	}
	w.events <- event{t, "parked", site}
	<-w.resume[t]
}

type Chooser interface{ Pick(n int) int }

type Outcome struct {
	Trace   []J
	Hang    string
	Choices []int
	Taken   []int
	Sites   map[string]int
}

const quiet = 3 * time.Millisecond

// RunOnce runs the worker bodies (thread t = threads[t-1]) under the chooser's schedule.
// install is called with the world's Yield so that the caller can hook it into the library.
func RunOnce(install func(yield func(string)), setup func(w *World), threads []func(w *World, t int), ch Chooser) *Outcome {
	w := &World{workers: map[int]int{}, events: make(chan event, 16), resume: map[int]chan bool{}, Sites: map[string]int{}}
	install(w.Yield)
	setup(w)
	nt := len(threads)
	started := make(chan bool)
	for t := 1; t <= nt; t++ {
		w.resume[t] = make(chan bool)
	}
	for t := 1; t <= nt; t++ {
		t := t
		go func() {
			w.mu.Lock()
			w.workers[Goid()] = t
			w.mu.Unlock()
			started <- true
			threads[t-1](w, t)
			w.events <- event{t, "done", ""}
		}()
		<-started
	}
	out := &Outcome{}
	parked := map[int]string{}
	running := map[int]bool{}
	done := 0
	for t := 1; t <= nt; t++ {
		running[t] = true
	}
	collect := func(wait time.Duration) bool {
		got := false
		for {
			if len(running) == 0 {
				return got
			}
			select {
			case e := <-w.events:
				got = true
				delete(running, e.t)
				if e.kind == "parked" {
					parked[e.t] = e.site
				} else {
					done++
				}
				wait = quiet
			case <-time.After(wait):
				return got
			}
		}
	}
	for done < nt {
		collect(quiet)
		if done == nt {
			break
		}
		if len(parked) == 0 {
			if !collect(300*time.Millisecond) && len(parked) == 0 && done < nt {
				if !collect(700 * time.Millisecond) {
					buf := make([]byte, 1<<16)
					n := runtime.Stack(buf, true)
					out.Hang = string(buf[:n])
					w.mu.Lock()
					w.dead = true
					w.mu.Unlock()
					break
				}
			}
			continue
		}
		var cands []int
		for t := 1; t <= nt; t++ {
			if _, ok := parked[t]; ok {
				cands = append(cands, t)
			}
		}
		i := ch.Pick(len(cands))
		out.Choices = append(out.Choices, len(cands))
		out.Taken = append(out.Taken, i)
		t := cands[i]
		delete(parked, t)
		running[t] = true
		w.resume[t] <- true
	}
	w.mu.Lock()
	out.Trace = w.trace
	out.Sites = w.Sites
	w.mu.Unlock()
	return out
}

// PrefixChooser follows a prefix of decisions, then always takes the first alternative.
type PrefixChooser struct {
	Prefix []int
	pos    int
}

func (c *PrefixChooser) Pick(n int) int {
	i := 0
	if c.pos < len(c.Prefix) {
		i = c.Prefix[c.pos]
	}
	c.pos++
	if i >= n {
		i = n - 1
	}
	return i
}

// Explore enumerates schedules depth-first (at most budget executions); visit is called for each outcome
// and returns false to stop.  Returns whether the decision tree was exhausted.
func Explore(budget int, run func(ch Chooser) *Outcome, visit func(o *Outcome) bool) bool {
	stack := [][]int{{}}
	n := 0
	for len(stack) > 0 && n < budget {
		prefix := stack[len(stack)-1]
		stack = stack[:len(stack)-1]
		o := run(&PrefixChooser{Prefix: prefix})
		n++
		if !visit(o) {
			return false
		}
		for d := len(o.Choices) - 1; d >= len(prefix); d-- {
			for alt := o.Choices[d] - 1; alt >= 1; alt-- {
				np := append(append([]int{}, o.Taken[:d]...), alt)
				stack = append(stack, np)
			}
		}
	}
	return len(stack) == 0
}
