// Driver for the RPC family (C06, C07, C08, C09).
//
//	rpcdrv run <scripts.ndjson> <trace.ndjson>
//
// The harness is the peer: it implements rpc.Transport in memory, sends the
// protocol messages a script asks for and records every message in both
// directions.  The local application is harness code too: the bootstrap
// capability and every capability returned in results are server.Server
// instances whose method bodies log their start and wait for the script to
// complete them.  Every script runs against a fresh Conn; the totally ordered
// event log goes to the trace file for TLC (spec/rpc/RpcTrace.tla).
package main

import (
	"bufio"
	"context"
	"encoding/json"
	"fmt"
	"os"
	"runtime"
	"strings"
	"sync"
	"time"

	capnp "capnproto.org/go/capnp/v3"
	"capnproto.org/go/capnp/v3/rpc"
	"capnproto.org/go/capnp/v3/server"
	rpccp "capnproto.org/go/capnp/v3/std/capnp/rpc"
)

type J = map[string]interface{}

type action struct {
	A    string `json:"a"`    // action name
	Q    int    `json:"q"`    // question / answer id (peer side ids are literal)
	On   int    `json:"on"`   // promised-answer target (answer id) or -1
	Exp  int    `json:"exp"`  // export reference: answer id whose returned cap is meant, -1 = literal id in N
	N    int    `json:"n"`    // count / literal id
	Tag  int    `json:"tag"`  // call tag
	Kind string `json:"kind"` // result kind / variant
	Rel  bool   `json:"rel"`
	H    string `json:"h"` // local handle name
	Cap  int    `json:"cap"` // import id carried in params / results (peer-hosted), -1 = none
	K    int    `json:"k"`   // fault position etc.
}

var meth = capnp.Method{InterfaceID: 0xf00d, MethodID: 0}

// ---------------- event log ----------------

type world struct {
	mu        sync.Mutex
	trace     []J
	lastEvent time.Time
	toConn    chan *capnp.Message
	recvIdle  bool
	closedT   bool
	// peer-side knowledge gathered from the wire
	returns   map[int]J   // answer id -> decoded Return received from the Conn
	questions []int       // question ids the Conn opened, in order
	bootWait  []bootHandle // local Bootstrap calls whose Bootstrap message has not been seen on the wire yet
	bootQ     map[int]bootHandle // bootstrap question id -> the application's handle for its result
	qkind     map[int]string
	// application side
	cmds    map[int]chan string
	started map[int]chan struct{}
	handles map[string]*capnp.Client
	tagCap  map[int]int // call tag -> import id carried in its params
	sentQ   map[int]bool // question ids the peer really opened (actions that were skipped open nothing)
	finQ    map[int]bool
	wg      sync.WaitGroup
	fault   *faultPlan
	conn    *rpc.Conn
	// embargo scenarios (spec/rpc/RpcEmbargo.tla): the peer as a FIFO reflector
	answers   map[int]*capnp.Answer // local calls kept for pipelining, by tag
	keepRel   []capnp.ReleaseFunc   // their release functions (run at wind-down)
	inbox     []J                   // messages from the Conn the reflecting peer has not handled yet
	nextPeerQ int                   // next question id the reflecting peer uses
	reflected map[int]int           // peer question id (reflected call) -> the Conn's question id it came from
	holds     []*hold               // outgoing messages to be held inside transport.send (script actions hold-send / release-send)
	auto      map[int]action        // method bodies that act on their own when they start (script action a-auto): kind, delay k ms, n=1: no Ack
	slow      map[int]int           // delivery of the call with this tag to its capability takes this many milliseconds (a-slowdeliver)
	cancels   map[int]context.CancelFunc // local calls made with a cancellable context (l-call kind "cancellable"), by tag
	queueSize int                   // server.Policy.AnswerQueueSize of the capabilities of this script (script action "policy")
	paramExp  map[int]int           // call tag -> export id the Conn assigned to the capability in the call's parameters
	reflect   bool                  // the script is an embargo scenario: the peer keeps an inbox and reflects
	onCancel  map[int]string        // what a cancelled method body does (default: gives up with an error)
	recvTag   map[int]bool          // tags of calls the peer sent (a call of the Conn carrying one of them is a forwarded call)
}

// hold: the next message of kind m (and id q, -1 = any) the Conn sends is kept inside transport.send - it has been
// recorded, the peer "has not received it yet", the Conn's sender still holds the sender lock - until release-send
type hold struct {
	m       string
	q       int
	release chan struct{}
	hit     bool
}

func (w *world) maybeHold(m string, q int) {
	w.mu.Lock()
	var h *hold
	for _, x := range w.holds {
		if !x.hit && x.m == m && (x.q < 0 || x.q == q) {
			x.hit = true
			h = x
			break
		}
	}
	w.mu.Unlock()
	if h == nil {
		return
	}
	w.log(J{"ev": "held", "m": m, "q": q})
	select {
	case <-h.release:
	case <-time.After(1500 * time.Millisecond):
		w.log(J{"ev": "hold-expired", "m": m, "q": q})
	}
}

func base() J {
	return J{"ev": "", "dir": "", "m": "", "q": -1, "tgt": "", "on": -1, "e": -1, "n": 0, "rel": false, "tag": -1,
		"kind": "", "caps": []interface{}{}, "cap": "", "h": "", "path": ""}
}

func (w *world) log(e J) {
	b := base()
	for k, v := range e {
		b[k] = v
	}
	w.mu.Lock()
	w.trace = append(w.trace, b)
	w.lastEvent = time.Now()
	w.mu.Unlock()
}

// ---------------- in-memory transport (the peer's end of the wire) ----------------

type faultPlan struct {
	op   string // "newmessage" | "send" | "recv"
	at   int    // fail the at-th such operation (1-based)
	n    map[string]int
	once bool
}

func (w *world) faultNow(op string) bool {
	w.mu.Lock()
	defer w.mu.Unlock()
	if w.fault == nil {
		return false
	}
	w.fault.n[op]++
	return w.fault.op == op && w.fault.n[op] == w.fault.at
}

type transport struct{ w *world }

func (t *transport) NewMessage(ctx context.Context) (rpccp.Message, func() error, capnp.ReleaseFunc, error) {
	if t.w.faultNow("newmessage") {
		t.w.log(J{"ev": "fault", "kind": "newmessage"})
		return rpccp.Message{}, nil, nil, fmt.Errorf("verif: injected NewMessage failure")
	}
	msg, seg, err := capnp.NewMessage(capnp.MultiSegment(nil))
	if err != nil {
		return rpccp.Message{}, nil, nil, err
	}
	rm, err := rpccp.NewRootMessage(seg)
	if err != nil {
		return rpccp.Message{}, nil, nil, err
	}
	send := func() error {
		if t.w.faultNow("send") {
			t.w.log(J{"ev": "fault", "kind": "send"})
			return fmt.Errorf("verif: injected send failure")
		}
		t.w.mu.Lock()
		closed := t.w.closedT
		t.w.mu.Unlock()
		if closed {
			t.w.log(J{"ev": "send-after-close"})
			return fmt.Errorf("verif: transport closed")
		}
		t.w.recordSend(rm)
		return nil
	}
	return rm, send, func() { msg.Reset(nil) }, nil
}

func (t *transport) RecvMessage(ctx context.Context) (rpccp.Message, capnp.ReleaseFunc, error) {
	t.w.mu.Lock()
	t.w.recvIdle = true
	t.w.mu.Unlock()
	defer func() {
		t.w.mu.Lock()
		t.w.recvIdle = false
		t.w.lastEvent = time.Now()
		t.w.mu.Unlock()
	}()
	select {
	case m, ok := <-t.w.toConn:
		if !ok {
			return rpccp.Message{}, nil, fmt.Errorf("verif: EOF")
		}
		if t.w.faultNow("recv") {
			t.w.log(J{"ev": "fault", "kind": "recv"})
			return rpccp.Message{}, nil, fmt.Errorf("verif: injected receive failure")
		}
		rm, err := rpccp.ReadRootMessage(m)
		if err != nil {
			return rpccp.Message{}, nil, err
		}
		return rm, func() { m.Reset(nil) }, nil
	case <-ctx.Done():
		return rpccp.Message{}, nil, ctx.Err()
	}
}

func (t *transport) Close() error {
	t.w.mu.Lock()
	t.w.closedT = true
	t.w.mu.Unlock()
	t.w.log(J{"ev": "transport-closed"})
	return nil
}

func descs(p rpccp.Payload) []interface{} {
	out := []interface{}{}
	if !p.IsValid() {
		return out
	}
	tab, err := p.CapTable()
	if err != nil {
		return out
	}
	for i := 0; i < tab.Len(); i++ {
		d := tab.At(i)
		switch d.Which() {
		case rpccp.CapDescriptor_Which_none:
			out = append(out, []interface{}{"none", 0})
		case rpccp.CapDescriptor_Which_senderHosted:
			out = append(out, []interface{}{"senderHosted", int(d.SenderHosted())})
		case rpccp.CapDescriptor_Which_senderPromise:
			out = append(out, []interface{}{"senderPromise", int(d.SenderPromise())})
		case rpccp.CapDescriptor_Which_receiverHosted:
			out = append(out, []interface{}{"receiverHosted", int(d.ReceiverHosted())})
		default:
			out = append(out, []interface{}{"other", 0})
		}
	}
	return out
}

func payloadTag(p rpccp.Payload) int {
	if !p.IsValid() {
		return -1
	}
	c, err := p.Content()
	if err != nil || !c.Struct().IsValid() {
		return -1
	}
	return int(c.Struct().Uint32(0))
}

// bootHandle: the application's handle for the result of a local Bootstrap.  The handle denotes the import only once the
// peer's Return has brought the reference (l-handle is logged then, not when the Bootstrap is issued).
type bootHandle struct {
	h   string
	cap int
}

// recordSend decodes a message the Conn sends and logs it.
func (w *world) recordSend(m rpccp.Message) {
	e := J{"ev": "msg", "dir": "send"}
	switch m.Which() {
	case rpccp.Message_Which_bootstrap:
		b, _ := m.Bootstrap()
		e["m"], e["q"] = "bootstrap", int(b.QuestionId())
		w.mu.Lock()
		if len(w.bootWait) > 0 {
			if w.bootQ == nil {
				w.bootQ = map[int]bootHandle{}
			}
			w.bootQ[int(b.QuestionId())] = w.bootWait[0]
			w.bootWait = w.bootWait[1:]
		}
		w.questions = append(w.questions, int(b.QuestionId()))
		w.qkind[int(b.QuestionId())] = "bootstrap"
		w.mu.Unlock()
	case rpccp.Message_Which_call:
		c, _ := m.Call()
		e["m"], e["q"] = "call", int(c.QuestionId())
		t, _ := c.Target()
		switch t.Which() {
		case rpccp.MessageTarget_Which_importedCap:
			e["tgt"], e["e"] = "imp", int(t.ImportedCap())
		case rpccp.MessageTarget_Which_promisedAnswer:
			pa, _ := t.PromisedAnswer()
			e["tgt"], e["on"] = "ans", int(pa.QuestionId())
			tr, _ := pa.Transform()
			if tr.Len() > 0 {
				e["path"] = "f0"
			}
		}
		p, _ := c.Params()
		e["tag"] = payloadTag(p)
		e["caps"] = descs(p)
		w.mu.Lock()
		for _, d := range e["caps"].([]interface{}) {
			if dd := d.([]interface{}); dd[0] == "senderHosted" {
				w.paramExp[e["tag"].(int)] = dd[1].(int)
			}
		}
		w.questions = append(w.questions, int(c.QuestionId()))
		w.qkind[int(c.QuestionId())] = "call"
		w.mu.Unlock()
	case rpccp.Message_Which_return:
		r, _ := m.Return()
		e["m"], e["q"] = "return", int(r.AnswerId())
		switch r.Which() {
		case rpccp.Return_Which_results:
			p, _ := r.Results()
			e["kind"] = "results"
			e["caps"] = descs(p)
			if c, err := p.Content(); err == nil && c.Struct().IsValid() {
				e["tag"] = int(c.Struct().Uint32(0))
			}
		case rpccp.Return_Which_exception:
			e["kind"] = "exception"
			x, _ := r.Exception()
			reason, _ := x.Reason()
			e["h"] = reason
		default:
			e["kind"] = "other:" + r.Which().String()
		}
		w.mu.Lock()
		w.returns[int(r.AnswerId())] = e
		w.mu.Unlock()
	case rpccp.Message_Which_finish:
		f, _ := m.Finish()
		e["m"], e["q"], e["rel"] = "finish", int(f.QuestionId()), f.ReleaseResultCaps()
	case rpccp.Message_Which_release:
		r, _ := m.Release()
		e["m"], e["e"], e["n"] = "release", int(r.Id()), int(r.ReferenceCount())
	case rpccp.Message_Which_disembargo:
		d, _ := m.Disembargo()
		e["m"] = "disembargo"
		switch d.Context().Which() {
		case rpccp.Disembargo_context_Which_senderLoopback:
			e["kind"], e["n"] = "senderLoopback", int(d.Context().SenderLoopback())
		case rpccp.Disembargo_context_Which_receiverLoopback:
			e["kind"], e["n"] = "receiverLoopback", int(d.Context().ReceiverLoopback())
		}
		t, _ := d.Target()
		if t.Which() == rpccp.MessageTarget_Which_importedCap {
			e["tgt"], e["e"] = "imp", int(t.ImportedCap())
		} else if t.Which() == rpccp.MessageTarget_Which_promisedAnswer {
			pa, _ := t.PromisedAnswer()
			e["tgt"], e["on"] = "ans", int(pa.QuestionId())
		}
	case rpccp.Message_Which_abort:
		a, _ := m.Abort()
		reason, _ := a.Reason()
		e["m"], e["h"] = "abort", reason
	case rpccp.Message_Which_unimplemented:
		e["m"] = "unimplemented"
	default:
		e["m"] = "other:" + m.Which().String()
	}
	w.log(e)
	w.peerSees(e)
	mm, _ := e["m"].(string)
	qq, _ := e["q"].(int)
	w.maybeHold(mm, qq)
}

// peerSees is the reflecting peer's inbox (embargo scenarios): pipelined calls, calls forwarded to the
// peer's own capability, Disembargoes and Returns that carry one of the peer's capabilities wait for a
// p-pump action.  The Return of a call the peer reflected is passed on to the original caller at once.
func (w *world) peerSees(e J) {
	if !w.reflect {
		return
	}
	relevant := false
	switch e["m"] {
	case "call":
		tag, _ := e["tag"].(int)
		w.mu.Lock()
		fw := w.recvTag[tag]
		w.mu.Unlock()
		relevant = e["tgt"] == "ans" || (e["tgt"] == "imp" && fw)
	case "disembargo":
		relevant = true
	case "return":
		if cs, ok := e["caps"].([]interface{}); ok {
			for _, d := range cs {
				if d.([]interface{})[0] == "receiverHosted" {
					relevant = true
				}
			}
		}
		w.mu.Lock()
		cq, ok := w.reflected[e["q"].(int)]
		if ok {
			delete(w.reflected, e["q"].(int))
		}
		w.mu.Unlock()
		if ok {
			pq := e["q"].(int)
			// finish the reflected question, answer the original one with the same result
			msg, rm := w.newMsg()
			f, _ := rm.NewFinish()
			f.SetQuestionId(uint32(pq))
			f.SetReleaseResultCaps(false)
			go func() {
				w.deliver(msg, J{"m": "finish", "q": pq, "rel": false})
				msg2, rm2 := w.newMsg()
				r, _ := rm2.NewReturn()
				r.SetAnswerId(uint32(cq))
				r.SetReleaseParamCaps(false)
				ev := J{"m": "return", "q": cq}
				if e["kind"] == "results" {
					p, _ := r.NewResults()
					st, _ := capnp.NewStruct(p.Segment(), capnp.ObjectSize{DataSize: 8, PointerCount: 1})
					tag, _ := e["tag"].(int)
					st.SetUint32(0, uint32(tag))
					p.SetContent(st.ToPtr())
					ev["kind"], ev["tag"] = "results", tag
				} else {
					x, _ := r.NewException()
					x.SetReason("verif-reflected-exception")
					ev["kind"] = "exception"
				}
				w.deliver(msg2, ev)
			}()
		}
	}
	if relevant {
		w.mu.Lock()
		w.inbox = append(w.inbox, e)
		w.mu.Unlock()
	}
}

// pump lets the reflecting peer handle the next message of its inbox.
func (w *world) pump(a action) {
	w.mu.Lock()
	if len(w.inbox) == 0 {
		w.mu.Unlock()
		return
	}
	e := w.inbox[0]
	w.inbox = w.inbox[1:]
	w.mu.Unlock()
	switch e["m"] {
	case "call":
		tag, _ := e["tag"].(int)
		if e["tgt"] == "ans" {
			// a call pipelined on a question the peer answered with one of the Conn's own capabilities: reflect it
			exp, ok := w.exportOf(1)
			if !ok {
				return
			}
			w.mu.Lock()
			pq := w.nextPeerQ
			w.nextPeerQ++
			w.reflected[pq] = e["q"].(int)
			w.mu.Unlock()
			msg, rm := w.newMsg()
			c, _ := rm.NewCall()
			c.SetQuestionId(uint32(pq))
			c.SetInterfaceId(meth.InterfaceID)
			c.SetMethodId(meth.MethodID)
			t, _ := c.NewTarget()
			t.SetImportedCap(uint32(exp))
			fillParams(c, tag, -1, "")
			w.sentQ[pq] = true
			w.deliver(msg, J{"m": "call", "q": pq, "tag": tag, "tgt": "imp", "e": exp})
		} else {
			// a call forwarded to a capability the peer hosts: deliver it there and return its result
			w.log(J{"ev": "peer-deliver", "tag": tag, "e": e["e"]})
			msg, rm := w.newMsg()
			r, _ := rm.NewReturn()
			r.SetAnswerId(uint32(e["q"].(int)))
			r.SetReleaseParamCaps(false)
			p, _ := r.NewResults()
			st, _ := capnp.NewStruct(p.Segment(), capnp.ObjectSize{DataSize: 8, PointerCount: 1})
			st.SetUint32(0, uint32(1000+tag))
			p.SetContent(st.ToPtr())
			w.deliver(msg, J{"m": "return", "q": e["q"], "kind": "results", "tag": 1000 + tag})
		}
	case "return":
		// the answer is one of the peer's own capabilities: ask for the loop-back
		msg, rm := w.newMsg()
		d, _ := rm.NewDisembargo()
		d.Context().SetSenderLoopback(7)
		t, _ := d.NewTarget()
		pa, _ := t.NewPromisedAnswer()
		pa.SetQuestionId(uint32(e["q"].(int)))
		if e["q"].(int)%2 == 1 {
			ops, _ := pa.NewTransform(2)
			ops.At(0).SetNoop()
			ops.At(1).SetGetPointerField(0)
		} else {
			ops, _ := pa.NewTransform(1)
			ops.At(0).SetGetPointerField(0)
		}
		w.deliver(msg, J{"m": "disembargo", "kind": "senderLoopback", "n": 7, "tgt": "ans", "on": e["q"], "path": "f0"})
	case "disembargo":
		if e["kind"] == "senderLoopback" {
			exp, ok := w.exportOf(1)
			if !ok {
				return
			}
			msg, rm := w.newMsg()
			d, _ := rm.NewDisembargo()
			d.Context().SetReceiverLoopback(uint32(e["n"].(int)))
			t, _ := d.NewTarget()
			t.SetImportedCap(uint32(exp))
			w.deliver(msg, J{"m": "disembargo", "kind": "receiverLoopback", "n": e["n"], "tgt": "imp", "e": exp})
		} else {
			w.log(J{"ev": "peer-echo", "n": e["n"], "e": e["e"]})
		}
	}
}

// ---------------- peer -> Conn messages ----------------

func (w *world) newMsg() (*capnp.Message, rpccp.Message) {
	msg, seg, _ := capnp.NewMessage(capnp.MultiSegment(nil))
	rm, _ := rpccp.NewRootMessage(seg)
	return msg, rm
}

func (w *world) deliver(msg *capnp.Message, e J) {
	e["ev"], e["dir"] = "msg", "recv"
	if e["m"] == "call" {
		if tag, ok := e["tag"].(int); ok {
			w.mu.Lock()
			w.recvTag[tag] = true
			w.mu.Unlock()
		}
	}
	w.log(e) // logged before it becomes visible to the Conn
	w.toConn <- msg
}

func fillParams(c rpccp.Call, tag, capImport int, desc string) {
	p, _ := c.NewParams()
	s, _ := capnp.NewStruct(p.Segment(), capnp.ObjectSize{DataSize: 8, PointerCount: 1})
	s.SetUint32(0, uint32(tag))
	if capImport >= 0 {
		s.SetPtr(0, capnp.NewInterface(p.Segment(), 0).ToPtr())
		tab, _ := p.NewCapTable(1)
		switch desc {
		case "receiverHosted":
			tab.At(0).SetReceiverHosted(uint32(capImport))
		case "senderPromise":
			tab.At(0).SetSenderPromise(uint32(capImport))
		default:
			tab.At(0).SetSenderHosted(uint32(capImport))
		}
	}
	p.SetContent(s.ToPtr())
}

// exportOf resolves "the capability returned in answer a" to the export id the Conn assigned
func (w *world) exportOf(a int) (int, bool) {
	w.mu.Lock()
	defer w.mu.Unlock()
	r := w.returns[a]
	if r == nil {
		return 0, false
	}
	cs, _ := r["caps"].([]interface{})
	for _, d := range cs {
		dd := d.([]interface{})
		if dd[0] == "senderHosted" {
			return dd[1].(int), true
		}
	}
	return 0, false
}

// ---------------- the local application ----------------

type shutLogger struct {
	w    *world
	name string
}

func (s shutLogger) Shutdown() { s.w.log(J{"ev": "shutdown", "cap": s.name}) }

func (w *world) newCap(name string) *capnp.Client {
	impl := func(ctx context.Context, call *server.Call) error {
		tag := int(call.Args().Uint32(0))
		hascap := call.Args().HasPtr(0)
		e := J{"ev": "app-start", "cap": name, "tag": tag}
		if hascap {
			e["kind"] = "with-cap"
			// keep the parameter capability beyond the call under the handle "arg<tag>"
			if p, err := call.Args().Ptr(0); err == nil {
				c := p.Interface().Client().AddRef()
				w.mu.Lock()
				w.handles[fmt.Sprintf("arg%d", tag)] = c
				imp, ok := w.tagCap[tag]
				w.mu.Unlock()
				if !ok {
					imp = -1
				}
				w.log(J{"ev": "l-handle", "h": fmt.Sprintf("arg%d", tag), "e": imp})
			}
		}
		w.log(e)
		w.mu.Lock()
		au, isAuto := w.auto[tag]
		w.mu.Unlock()
		if !isAuto || au.N == 0 {
			call.Ack()
		}
		w.mu.Lock()
		cmd := w.cmds[tag]
		if cmd == nil {
			cmd = make(chan string, 2)
			w.cmds[tag] = cmd
		}
		st := w.started[tag]
		if st == nil {
			st = make(chan struct{})
			w.started[tag] = st
		}
		w.mu.Unlock()
		close(st)
		var x string
		if isAuto {
			if au.K > 0 {
				time.Sleep(time.Duration(au.K) * time.Millisecond)
			}
			cmd <- au.Kind
		}
		select {
		case x = <-cmd:
		case <-ctx.Done():
			w.log(J{"ev": "app-cancelled", "tag": tag})
			w.mu.Lock()
			oc, ok := w.onCancel[tag]
			w.mu.Unlock()
			if ok {
				x = oc // the script says what this body does when cancelled
			} else {
				select {
				case x = <-cmd:
				case <-time.After(20 * time.Millisecond):
					x = "err" // a cancelled body gives up
				}
			}
		}
		switch x {
		case "ok-newcap", "ok-nocap", "ok-samecap", "ok-argcap":
			res, err := call.AllocResults(capnp.ObjectSize{DataSize: 8, PointerCount: 1})
			if err != nil {
				w.log(J{"ev": "app-return", "tag": tag, "kind": "err"})
				return err
			}
			res.SetUint32(0, uint32(tag))
			capname := ""
			if x == "ok-newcap" {
				capname = fmt.Sprintf("K%d", tag)
				id := res.Message().AddCap(w.newCap(capname))
				res.SetPtr(0, capnp.NewInterface(res.Segment(), id).ToPtr())
			}
			if x == "ok-argcap" {
				// return the capability received as parameter (an import of this connection)
				w.mu.Lock()
				c := w.handles[fmt.Sprintf("arg%d", tag)]
				imp, ok := w.tagCap[tag]
				w.mu.Unlock()
				if c != nil && ok {
					id := res.Message().AddCap(c.AddRef())
					res.SetPtr(0, capnp.NewInterface(res.Segment(), id).ToPtr())
					w.log(J{"ev": "app-return", "tag": tag, "kind": "ok", "cap": "", "e": imp})
					return nil
				}
			}
			w.log(J{"ev": "app-return", "tag": tag, "kind": "ok", "cap": capname})
			return nil
		default:
			w.log(J{"ev": "app-return", "tag": tag, "kind": "err"})
			return fmt.Errorf("verif-app-error-%d", tag)
		}
	}
	srv := server.New([]server.Method{{Method: meth, Impl: impl}}, nil, shutLogger{w, name}, &server.Policy{MaxConcurrentCalls: 16, AnswerQueueSize: w.queueSize})
	return capnp.NewClient(slowHook{srv, w})
}

// slowHook delays the delivery of chosen calls (script action a-slowdeliver) to the capability behind it
type slowHook struct {
	inner *server.Server
	w     *world
}

func (h slowHook) Send(ctx context.Context, s capnp.Send) (*capnp.Answer, capnp.ReleaseFunc) {
	return h.inner.Send(ctx, s)
}
func (h slowHook) Recv(ctx context.Context, r capnp.Recv) capnp.PipelineCaller {
	tag := int(r.Args.Uint32(0))
	h.w.mu.Lock()
	d := h.w.slow[tag]
	h.w.mu.Unlock()
	if d > 0 {
		time.Sleep(time.Duration(d) * time.Millisecond)
	}
	return h.inner.Recv(ctx, r)
}
func (h slowHook) Brand() capnp.Brand { return h.inner.Brand() }
func (h slowHook) Shutdown()          { h.inner.Shutdown() }

func placeTag(tag int) func(capnp.Struct) error {
	return func(s capnp.Struct) error { s.SetUint32(0, uint32(tag)); return nil }
}

// ---------------- running one script ----------------

func (w *world) settle() { w.settleFor(3 * time.Millisecond) }

func (w *world) settleFor(quiet time.Duration) {
	// wait until the receive loop is parked in RecvMessage and nothing was logged for a moment
	deadline := time.Now().Add(400 * time.Millisecond)
	for time.Now().Before(deadline) {
		w.mu.Lock()
		idle := (w.closedT || (w.recvIdle && len(w.toConn) == 0)) && time.Since(w.lastEvent) > quiet
		w.mu.Unlock()
		if idle {
			return
		}
		time.Sleep(300 * time.Microsecond)
	}
}

// waitEvent waits until an event of the given kind and tag is in the log
func (w *world) waitEvent(ev string, tag int, d time.Duration) bool {
	deadline := time.Now().Add(d)
	for {
		w.mu.Lock()
		for i := len(w.trace) - 1; i >= 0; i-- {
			if w.trace[i]["ev"] == ev && w.trace[i]["tag"] == tag {
				w.mu.Unlock()
				return true
			}
		}
		w.mu.Unlock()
		if time.Now().After(deadline) {
			return false
		}
		time.Sleep(200 * time.Microsecond)
	}
}

func (w *world) startedTags() map[int]bool {
	out := map[int]bool{}
	w.mu.Lock()
	for tag, st := range w.started {
		select {
		case <-st:
			out[tag] = true
		default:
		}
	}
	w.mu.Unlock()
	return out
}

func (w *world) waitStarted(tag int) bool {
	w.mu.Lock()
	st := w.started[tag]
	if st == nil {
		st = make(chan struct{})
		w.started[tag] = st
	}
	w.mu.Unlock()
	select {
	case <-st:
		return true
	case <-time.After(40 * time.Millisecond):
		return false
	}
}

func runScript(id string, script []action) (trace []J, hang string) {
	w := &world{toConn: make(chan *capnp.Message, 64), returns: map[int]J{}, qkind: map[int]string{},
		cmds: map[int]chan string{}, started: map[int]chan struct{}{}, handles: map[string]*capnp.Client{}, tagCap: map[int]int{}, sentQ: map[int]bool{}, finQ: map[int]bool{}, lastEvent: time.Now(),
		answers: map[int]*capnp.Answer{}, nextPeerQ: 20, reflected: map[int]int{}, recvTag: map[int]bool{}, onCancel: map[int]string{}, paramExp: map[int]int{}, queueSize: 16, cancels: map[int]context.CancelFunc{}, auto: map[int]action{}, slow: map[int]int{}}
	w.log(J{"ev": "reset", "h": id})
	for _, a := range script {
		if a.A == "fault" {
			w.fault = &faultPlan{op: a.Kind, at: a.K, n: map[string]int{}}
		}
		if a.A == "p-pump" || a.A == "l-pcall" || a.Kind == "loopcap" || a.Kind == "ok-argcap" {
			w.reflect = true
		}
		if a.A == "policy" {
			w.queueSize = a.K
			w.log(J{"ev": "policy", "n": a.K})
		}
	}
	conn := rpc.NewConn(&transport{w}, &rpc.Options{BootstrapClient: w.newCap("B"), AbortTimeout: 50 * time.Millisecond, ErrorReporter: reporter{w}})
	w.conn = conn
	closed := false
	done := make(chan struct{})
	go func() {
		defer close(done)
		for _, a := range script {
			w.step(a, &closed)
			w.settle()
		}
		// wind down: the reflecting peer handles what is left in its inbox; complete every started method,
		// release local handles, close
		w.mu.Lock()
		for _, h := range w.holds {
			select {
			case <-h.release:
			default:
				close(h.release)
			}
		}
		w.mu.Unlock()
		drain := func() {
			for i := 0; i < 32 && !closed; i++ {
				w.mu.Lock()
				n := len(w.inbox)
				w.mu.Unlock()
				if n == 0 {
					break
				}
				w.pump(action{})
				w.settle()
			}
		}
		drain()
		w.mu.Lock()
		for tag, st := range w.started {
			select {
			case <-st:
				if w.cmds[tag] != nil {
					select {
					case w.cmds[tag] <- "ok-nocap":
					default:
					}
				}
			default:
			}
		}
		w.mu.Unlock()
		for tag := range w.startedTags() {
			w.waitEvent("app-return", tag, 200*time.Millisecond)
		}
		w.settleFor(25 * time.Millisecond)
		drain()
		w.mu.Lock()
		kr := w.keepRel
		w.keepRel = nil
		w.mu.Unlock()
		for _, f := range kr {
			f()
		}
		if len(kr) > 0 {
			w.settleFor(10 * time.Millisecond)
		}
		// local calls whose outcome exists (the peer's Return was delivered, or the local method body returned) get a moment to
		// report it: the goroutine that waits for the answer may not have run yet on a busy machine
		for i := 0; i < 400; i++ {
			w.mu.Lock()
			issued, have, ready := map[int]bool{}, map[int]bool{}, map[int]bool{}
			for _, e := range w.trace {
				tag, _ := e["tag"].(int)
				switch {
				case e["ev"] == "l-call" || e["ev"] == "l-pcall":
					issued[tag] = true
				case e["ev"] == "l-result":
					have[tag] = true
				case e["ev"] == "app-return" || (e["ev"] == "msg" && e["dir"] == "recv" && e["m"] == "return"):
					ready[tag] = true
				}
			}
			w.mu.Unlock()
			missing := false
			for tag := range issued {
				if ready[tag] && !have[tag] {
					missing = true
				}
			}
			if !missing {
				break
			}
			time.Sleep(5 * time.Millisecond)
		}
		w.log(J{"ev": "quiesce"})      // obligations about calls and returns (C06)
		w.log(J{"ev": "quiesce-refs"}) // obligations about references (C07)
		if closed {
			// the script closed the connection itself: the application still drops its own references
			w.mu.Lock()
			hs := w.handles
			w.handles = map[string]*capnp.Client{}
			w.mu.Unlock()
			for h, c := range hs {
				w.log(J{"ev": "l-release", "h": h})
				c.Release()
			}
		}
		if !closed {
			w.mu.Lock()
			hs := w.handles
			w.handles = map[string]*capnp.Client{}
			w.mu.Unlock()
			for h, c := range hs {
				w.log(J{"ev": "l-release", "h": h})
				c.Release()
			}
			w.settle()
			w.log(J{"ev": "close"})
			err := conn.Close()
			w.log(J{"ev": "close-returned", "kind": errKind(err)})
		}
		fin := make(chan struct{})
		go func() { w.wg.Wait(); close(fin) }()
		select {
		case <-fin:
		case <-time.After(2 * time.Second):
		}
		select {
		case <-conn.Done():
			w.log(J{"ev": "done"})
		case <-time.After(2 * time.Second):
			w.log(J{"ev": "not-done"})
		}
		// no internal lock stays held after the connection is gone
		view := "free"
		for i := 0; i < 20; i++ {
			mu, snd := conn.VerifLocksFree()
			if mu && snd {
				view = "free"
				break
			}
			view = fmt.Sprintf("held:mu=%v,sender=%v", !mu, !snd)
			time.Sleep(5 * time.Millisecond)
		}
		w.log(J{"ev": "view", "kind": view})
		w.log(J{"ev": "end"})
	}()
	select {
	case <-done:
	case <-time.After(8 * time.Second):
		buf := make([]byte, 1<<17)
		n := runtime.Stack(buf, true)
		hang = string(buf[:n])
	}
	w.mu.Lock()
	trace = append([]J{}, w.trace...)
	w.mu.Unlock()
	return trace, hang
}

func errKind(err error) string {
	if err == nil {
		return "nil"
	}
	return "error"
}

type reporter struct{ w *world }

func (r reporter) ReportError(err error) {
	// errors the connection blames on what it received ("rpc: incoming <message>: ...") are marked: with a well-formed
	// peer there must be none while the connection is open
	kind := ""
	if strings.HasPrefix(err.Error(), "rpc: incoming ") && !strings.Contains(err.Error(), "send ") {
		kind = "blames-peer"
	}
	r.w.log(J{"ev": "reported", "h": err.Error(), "kind": kind})
}

func (w *world) step(a action, closed *bool) {
	switch a.A {
	case "fault":
		// installed before the Conn was created
	case "p-bootstrap":
		msg, rm := w.newMsg()
		b, _ := rm.NewBootstrap()
		b.SetQuestionId(uint32(a.Q))
		w.sentQ[a.Q] = true
		w.deliver(msg, J{"m": "bootstrap", "q": a.Q})
	case "p-call":
		msg, rm := w.newMsg()
		c, _ := rm.NewCall()
		c.SetQuestionId(uint32(a.Q))
		c.SetInterfaceId(meth.InterfaceID)
		c.SetMethodId(meth.MethodID)
		t, _ := c.NewTarget()
		e := J{"m": "call", "q": a.Q, "tag": a.Tag}
		if a.On >= 0 && a.Kind != "hostile" && (!w.sentQ[a.On] || w.finQ[a.On]) {
			return // the target answer was never opened (its action was skipped) or is finished: a well-formed peer does not send this
		}
		if a.On >= 0 {
			pa, _ := t.NewPromisedAnswer()
			pa.SetQuestionId(uint32(a.On))
			// rpc.capnp: a noop op leaves the pointer where it is; the peer spells the same two paths (root, field 0)
			// in three ways each, chosen by the call's tag, and the expected behaviour does not depend on the spelling
			spell := (a.Tag + a.Q) % 3
			if a.Kind != "root" {
				switch spell {
				case 0:
					ops, _ := pa.NewTransform(1)
					ops.At(0).SetGetPointerField(0)
				case 1:
					ops, _ := pa.NewTransform(2)
					ops.At(0).SetNoop()
					ops.At(1).SetGetPointerField(0)
				default:
					ops, _ := pa.NewTransform(2)
					ops.At(0).SetGetPointerField(0)
					ops.At(1).SetNoop()
				}
				e["path"] = "f0"
			} else if spell > 0 {
				ops, _ := pa.NewTransform(int32(spell))
				for i := 0; i < spell; i++ {
					ops.At(i).SetNoop()
				}
			}
			e["tgt"], e["on"] = "ans", a.On
		} else {
			exp := a.N
			if a.Exp >= 0 {
				x, ok := w.exportOf(a.Exp)
				if !ok {
					return // the Return carrying that export has not been seen: not enabled
				}
				exp = x
			}
			t.SetImportedCap(uint32(exp))
			e["tgt"], e["e"] = "imp", exp
		}
		desc := "senderHosted"
		if strings.HasPrefix(a.Kind, "desc:") {
			desc = a.Kind[5:]
		}
		fillParams(c, a.Tag, a.Cap, desc)
		w.sentQ[a.Q] = true
		if a.Cap >= 0 {
			w.mu.Lock()
			w.tagCap[a.Tag] = a.Cap
			w.mu.Unlock()
			e["caps"] = []interface{}{[]interface{}{desc, a.Cap}}
		}
		w.deliver(msg, e)
	case "p-finish":
		if a.Kind != "hostile" && (!w.sentQ[a.Q] || w.finQ[a.Q]) {
			return
		}
		w.finQ[a.Q] = true
		msg, rm := w.newMsg()
		f, _ := rm.NewFinish()
		f.SetQuestionId(uint32(a.Q))
		f.SetReleaseResultCaps(a.Rel)
		w.deliver(msg, J{"m": "finish", "q": a.Q, "rel": a.Rel})
	case "p-release":
		exp := a.N
		if a.Exp >= 0 {
			x, ok := w.exportOf(a.Exp)
			if !ok {
				return
			}
			exp = x
		}
		msg, rm := w.newMsg()
		r, _ := rm.NewRelease()
		r.SetId(uint32(exp))
		r.SetReferenceCount(uint32(a.K))
		w.deliver(msg, J{"m": "release", "e": exp, "n": a.K})
	case "p-return":
		// answer the Q-th question the Conn opened (0-based order of appearance)
		w.mu.Lock()
		if a.Q >= len(w.questions) {
			w.mu.Unlock()
			return
		}
		qid := w.questions[a.Q]
		w.mu.Unlock()
		msg, rm := w.newMsg()
		r, _ := rm.NewReturn()
		r.SetAnswerId(uint32(qid))
		r.SetReleaseParamCaps(a.Rel)
		e := J{"m": "return", "q": qid, "tag": a.Tag, "rel": a.Rel}
		switch a.Kind {
		case "exception":
			x, _ := r.NewException()
			x.SetReason("verif-peer-exception")
			e["kind"] = "exception"
		default:
			p, _ := r.NewResults()
			if a.Kind == "loopcap" {
				// the result is one of the Conn's own capabilities (the export returned in answer a.Exp)
				exp, ok := w.exportOf(a.Exp)
				if !ok {
					return
				}
				st, _ := capnp.NewStruct(p.Segment(), capnp.ObjectSize{DataSize: 8, PointerCount: 1})
				st.SetUint32(0, uint32(a.Tag))
				st.SetPtr(0, capnp.NewInterface(p.Segment(), 0).ToPtr())
				tab, _ := p.NewCapTable(1)
				tab.At(0).SetReceiverHosted(uint32(exp))
				e["caps"] = []interface{}{[]interface{}{"receiverHosted", exp}}
				p.SetContent(st.ToPtr())
			} else if a.Kind == "bootcap" {
				// bootstrap result: the content is the capability itself
				p.SetContent(capnp.NewInterface(p.Segment(), 0).ToPtr())
				tab, _ := p.NewCapTable(1)
				tab.At(0).SetSenderHosted(uint32(a.Cap))
				e["caps"] = []interface{}{[]interface{}{"senderHosted", a.Cap}}
			} else {
				s, _ := capnp.NewStruct(p.Segment(), capnp.ObjectSize{DataSize: 8, PointerCount: 1})
				s.SetUint32(0, uint32(a.Tag))
				if a.Cap >= 0 {
					s.SetPtr(0, capnp.NewInterface(p.Segment(), 0).ToPtr())
					tab, _ := p.NewCapTable(1)
					tab.At(0).SetSenderHosted(uint32(a.Cap))
					e["caps"] = []interface{}{[]interface{}{"senderHosted", a.Cap}}
				}
				p.SetContent(s.ToPtr())
			}
			e["kind"] = "results"
		}
		w.deliver(msg, e)
		if a.Kind == "bootcap" {
			// from this Return on the application's handle for the Bootstrap result denotes the import
			w.mu.Lock()
			b, ok := w.bootQ[qid]
			delete(w.bootQ, qid)
			w.mu.Unlock()
			if ok {
				w.log(J{"ev": "l-handle", "h": b.h, "e": b.cap})
			}
		}
	case "p-raw":
		w.hostile(a)
	case "a-return":
		if !w.waitStarted(a.Tag) {
			return
		}
		w.mu.Lock()
		cmd := w.cmds[a.Tag]
		w.mu.Unlock()
		select {
		case cmd <- a.Kind:
			w.waitEvent("app-return", a.Tag, 100*time.Millisecond)
		default:
		}
	case "l-bootstrap":
		w.log(J{"ev": "l-bootstrap", "h": a.H})
		w.mu.Lock()
		w.bootWait = append(w.bootWait, bootHandle{a.H, a.Cap})
		w.mu.Unlock()
		c := w.conn.Bootstrap(context.Background())
		w.mu.Lock()
		w.handles[a.H] = c
		// the Bootstrap message is written before Bootstrap returns; an entry nobody claimed belongs to a call that sent nothing
		for i, b := range w.bootWait {
			if b.h == a.H {
				w.bootWait = append(w.bootWait[:i:i], w.bootWait[i+1:]...)
				break
			}
		}
		w.mu.Unlock()
	case "l-call":
		w.mu.Lock()
		c := w.handles[a.H]
		w.mu.Unlock()
		if c == nil {
			return
		}
		tag := a.Tag
		place := placeTag(tag)
		if a.Kind == "parkargs" {
			// the call is parked while it builds its parameters (the library holds no lock there, the import's hook has a call in
			// progress) until release-send
			h := &hold{m: "args", q: -1, release: make(chan struct{})}
			w.mu.Lock()
			w.holds = append(w.holds, h)
			w.mu.Unlock()
			place = func(s capnp.Struct) error {
				s.SetUint32(0, uint32(tag))
				w.log(J{"ev": "held", "m": "args", "tag": tag})
				select {
				case <-h.release:
				case <-time.After(1500 * time.Millisecond):
					w.log(J{"ev": "hold-expired", "m": "args", "tag": tag})
				}
				return nil
			}
		}
		var pc *capnp.Client
		placed := false
		if a.Kind == "withcap" || a.Kind == "withcap-c" {
			// the parameters carry a capability of this vat: the connection has to export it
			name := fmt.Sprintf("P%d", tag)
			pc = w.newCap(name)
			place = func(s capnp.Struct) error {
				placed = true
				s.SetUint32(0, uint32(tag))
				id := s.Message().AddCap(pc)
				return s.SetPtr(0, capnp.NewInterface(s.Segment(), id).ToPtr())
			}
			w.log(J{"ev": "l-call", "h": a.H, "tag": tag, "cap": name})
		} else {
			w.log(J{"ev": "l-call", "h": a.H, "tag": tag})
		}
		if a.Kind == "keep" {
			// the answer is kept for pipelining: send synchronously, release at wind-down
			ctx, cancel := context.WithTimeout(context.Background(), 3*time.Second)
			ans, rel := c.SendCall(ctx, capnp.Send{Method: meth, ArgsSize: capnp.ObjectSize{DataSize: 8, PointerCount: 1}, PlaceArgs: placeTag(tag)})
			w.mu.Lock()
			w.answers[tag] = ans
			w.keepRel = append(w.keepRel, func() { cancel(); rel() })
			w.mu.Unlock()
			w.wg.Add(1)
			go func() {
				defer w.wg.Done()
				s, err := ans.Struct()
				e := J{"ev": "l-result", "tag": tag, "kind": "ok"}
				if err != nil {
					e["kind"] = "err"
				} else {
					e["n"] = int(s.Uint32(0))
				}
				w.log(e)
			}()
			return
		}
		w.wg.Add(1)
		ctx, cancel := context.WithTimeout(context.Background(), 3*time.Second)
		if a.Kind == "cancellable" || a.Kind == "withcap-c" {
			w.mu.Lock()
			w.cancels[tag] = cancel
			w.mu.Unlock()
		}
		go func() {
			defer w.wg.Done()
			defer cancel()
			ans, rel := c.SendCall(ctx, capnp.Send{Method: meth, ArgsSize: capnp.ObjectSize{DataSize: 8, PointerCount: 1}, PlaceArgs: place})
			if pc != nil && !placed {
				pc.Release() // the call failed before the parameters were built: the capability never left the application
			}
			s, err := ans.Struct()
			e := J{"ev": "l-result", "tag": tag}
			if err != nil {
				e["kind"] = "err"
				if ctx.Err() == context.DeadlineExceeded {
					e["kind"] = "timeout"
				}
			} else {
				e["kind"] = "ok"
				e["n"] = int(s.Uint32(0))
				if s.HasPtr(0) {
					if p, err := s.Ptr(0); err == nil && p.Interface().Client() != nil {
						w.mu.Lock()
						w.handles[fmt.Sprintf("res%d", tag)] = p.Interface().Client().AddRef()
						w.mu.Unlock()
						e["h"] = fmt.Sprintf("res%d", tag)
					}
				}
			}
			w.log(e)
			rel()
		}()
	case "l-pcall":
		// a call pipelined on field 0 of the result of the kept local call a.On
		w.mu.Lock()
		base := w.answers[a.On]
		w.mu.Unlock()
		if base == nil {
			return
		}
		tag := a.Tag
		w.log(J{"ev": "l-pcall", "on": a.On, "tag": tag})
		entered := make(chan struct{})
		w.wg.Add(1)
		go func() {
			defer w.wg.Done()
			ctx, cancel := context.WithTimeout(context.Background(), 3*time.Second)
			defer cancel()
			ans, rel := base.Field(0, nil).Client().SendCall(ctx, capnp.Send{Method: meth, ArgsSize: capnp.ObjectSize{DataSize: 8, PointerCount: 1}, PlaceArgs: placeTag(tag)})
			close(entered)
			s, err := ans.Struct()
			e := J{"ev": "l-result", "tag": tag, "kind": "ok"}
			if err != nil {
				e["kind"] = "err"
				if ctx.Err() != nil {
					e["kind"] = "timeout"
				}
			} else {
				e["n"] = int(s.Uint32(0))
			}
			w.log(e)
			rel()
		}()
		// SendCall returns once the call is on the wire or delivered; under an embargo it blocks (that is the point)
		select {
		case <-entered:
		case <-time.After(30 * time.Millisecond):
		}
	case "p-release-param":
		w.mu.Lock()
		exp, ok := w.paramExp[a.Tag]
		w.mu.Unlock()
		if !ok {
			return // the call carrying that capability was never sent
		}
		msg, rm := w.newMsg()
		r, _ := rm.NewRelease()
		r.SetId(uint32(exp))
		r.SetReferenceCount(uint32(a.K))
		w.deliver(msg, J{"m": "release", "e": exp, "n": a.K})
	case "p-pump":
		w.pump(a)
	case "l-cancel":
		w.mu.Lock()
		cf := w.cancels[a.Tag]
		w.mu.Unlock()
		if cf != nil {
			w.log(J{"ev": "l-cancel", "tag": a.Tag})
			cf()
		}
	case "hold-send":
		w.mu.Lock()
		w.holds = append(w.holds, &hold{m: a.Kind, q: a.Q, release: make(chan struct{})})
		w.mu.Unlock()
	case "release-send":
		w.mu.Lock()
		for _, h := range w.holds {
			select {
			case <-h.release:
			default:
				close(h.release)
			}
		}
		w.mu.Unlock()
		// barrier: the sender whose message was held has finished its bookkeeping once the sender lock is free again
		for i := 0; i < 400; i++ {
			if mu, snd := w.conn.VerifLocksFree(); mu && snd {
				break
			}
			time.Sleep(500 * time.Microsecond)
		}
		w.log(J{"ev": "released"})
	case "a-auto":
		w.mu.Lock()
		w.auto[a.Tag] = a
		if w.cmds[a.Tag] == nil {
			w.cmds[a.Tag] = make(chan string, 2)
		}
		w.mu.Unlock()
	case "a-slowdeliver":
		w.mu.Lock()
		w.slow[a.Tag] = a.K
		w.mu.Unlock()
	case "policy":
		// applied before the Conn was created
	case "a-oncancel":
		w.mu.Lock()
		w.onCancel[a.Tag] = a.Kind
		w.mu.Unlock()
	case "l-release":
		w.mu.Lock()
		c := w.handles[a.H]
		delete(w.handles, a.H)
		w.mu.Unlock()
		if c == nil {
			return
		}
		w.log(J{"ev": "l-release", "h": a.H})
		// (the last Release waits for calls in progress on the hook: do not let it hold up the script)
		rdone := make(chan struct{})
		w.wg.Add(1)
		go func() { defer w.wg.Done(); c.Release(); close(rdone) }()
		select {
		case <-rdone:
		case <-time.After(20 * time.Millisecond):
		}
	case "close":
		if *closed {
			w.log(J{"ev": "close"})
			fin := make(chan error, 1)
			go func() { fin <- w.conn.Close() }()
			select {
			case err := <-fin:
				w.log(J{"ev": "close-returned", "kind": errKind(err)})
			case <-time.After(2 * time.Second):
				w.log(J{"ev": "close-hung"})
			}
			return
		}
		*closed = true
		w.log(J{"ev": "close"})
		err := w.conn.Close()
		w.log(J{"ev": "close-returned", "kind": errKind(err)})
	}
}

func main() {
	sf, err := os.Open(os.Args[2])
	if err != nil {
		panic(err)
	}
	tf, err := os.Create(os.Args[3])
	if err != nil {
		panic(err)
	}
	tw := bufio.NewWriterSize(tf, 1<<20)
	tenc := json.NewEncoder(tw)
	enc := json.NewEncoder(os.Stdout)
	sc := bufio.NewScanner(sf)
	sc.Buffer(make([]byte, 1<<20), 64<<20)
	n, events, hangs := 0, 0, 0
	skip := 0
	if len(os.Args) > 4 {
		fmt.Sscanf(os.Args[4], "%d", &skip)
	}
	for sc.Scan() {
		var s struct {
			ID     string   `json:"id"`
			Script []action `json:"script"`
		}
		if err := json.Unmarshal(sc.Bytes(), &s); err != nil {
			panic(err)
		}
		n++
		if n <= skip {
			continue
		}
		// progress marker: if the process dies, the caller knows which script killed it
		fmt.Fprintf(os.Stderr, "SCRIPT %d %s\n", n, s.ID)
		trace, hang := runScript(s.ID, s.Script)
		if hang != "" {
			hangs++
			enc.Encode(J{"what": "hang", "id": s.ID, "script": s.Script, "dump": hang, "trace": trace})
			tw.Flush()
			enc.Encode(J{"summary": true, "scripts": n, "events": events, "hangs": hangs, "resume_at": n})
			os.Exit(0)
		}
		for _, e := range trace {
			tenc.Encode(e)
		}
		events += len(trace)
	}
	tw.Flush()
	tf.Close()
	enc.Encode(J{"summary": true, "scripts": n, "events": events, "hangs": hangs})
}
