package main

// hostile sends a malformed / protocol-violating message (C08); filled in by the C08 check.
func (w *world) hostile(a action) {}
