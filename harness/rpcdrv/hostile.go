package main

import (
	capnp "capnproto.org/go/capnp/v3"
	rpccp "capnproto.org/go/capnp/v3/std/capnp/rpc"
)

// hostile sends one malformed or protocol-violating message (C08).  a.Kind names the violation;
// a.Q is the question / answer id it abuses (or a fresh one), a.N an id that does not exist.
func (w *world) hostile(a action) {
	msg, rm := w.newMsg()
	e := J{"ev": "hostile", "kind": a.Kind, "q": a.Q}
	w.log(e)
	rec := J{"m": "hostile:" + a.Kind, "q": a.Q}
	call := func(q int) rpccp.Call {
		c, _ := rm.NewCall()
		c.SetQuestionId(uint32(q))
		c.SetInterfaceId(meth.InterfaceID)
		c.SetMethodId(meth.MethodID)
		return c
	}
	switch a.Kind {
	case "call-unknown-export":
		c := call(a.Q)
		t, _ := c.NewTarget()
		t.SetImportedCap(uint32(a.N))
		fillParams(c, 900+a.Q, -1, "")
	case "call-unknown-answer":
		c := call(a.Q)
		t, _ := c.NewTarget()
		pa, _ := t.NewPromisedAnswer()
		pa.SetQuestionId(uint32(a.N))
		fillParams(c, 900+a.Q, -1, "")
	case "call-reused-question":
		// a.Q is an id already in use
		c := call(a.Q)
		t, _ := c.NewTarget()
		t.SetImportedCap(0)
		fillParams(c, 900+a.Q, -1, "")
	case "call-self-target":
		c := call(a.Q)
		t, _ := c.NewTarget()
		pa, _ := t.NewPromisedAnswer()
		pa.SetQuestionId(uint32(a.Q))
		fillParams(c, 900+a.Q, -1, "")
	case "call-cap-then-bad-cap":
		c := call(a.Q)
		t, _ := c.NewTarget()
		if a.On >= 0 {
			pa, _ := t.NewPromisedAnswer()
			pa.SetQuestionId(uint32(a.On))
		} else {
			t.SetImportedCap(0)
		}
		p, _ := c.NewParams()
		s, _ := capnp.NewStruct(p.Segment(), capnp.ObjectSize{DataSize: 8, PointerCount: 1})
		s.SetUint32(0, uint32(900+a.Q))
		s.SetPtr(0, capnp.NewInterface(p.Segment(), 0).ToPtr())
		tab, _ := p.NewCapTable(2)
		tab.At(0).SetSenderHosted(33) // a new import
		tab.At(1).SetReceiverHosted(uint32(a.N)) // no such export
		p.SetContent(s.ToPtr())
	case "call-unknown-target-which-with-cap":
		c := call(a.Q)
		t, _ := c.NewTarget()
		t.Struct.SetUint16(4, 9)
		fillParams(c, 900+a.Q, 34, "senderHosted")
	case "call-transform-unknown-op-with-cap":
		c := call(a.Q)
		t, _ := c.NewTarget()
		pa, _ := t.NewPromisedAnswer()
		pa.SetQuestionId(uint32(a.On))
		ops, _ := pa.NewTransform(2)
		ops.At(0).SetGetPointerField(0)
		ops.At(1).Struct.SetUint16(0, 9)
		fillParams(c, 900+a.Q, 35, "senderHosted")
	case "call-unknown-export-with-cap":
		c := call(a.Q)
		t, _ := c.NewTarget()
		t.SetImportedCap(uint32(a.N))
		fillParams(c, 900+a.Q, 36, "senderHosted")
	case "call-unknown-answer-with-cap":
		c := call(a.Q)
		t, _ := c.NewTarget()
		pa, _ := t.NewPromisedAnswer()
		pa.SetQuestionId(uint32(a.N))
		fillParams(c, 900+a.Q, 37, "senderPromise")
	case "return-unknown-question-with-cap", "return-cap-then-bad-cap":
		r, _ := rm.NewReturn()
		qid := a.N
		if a.Kind == "return-cap-then-bad-cap" {
			// addressed to the first question the Conn has open, if any
			w.mu.Lock()
			if len(w.questions) > 0 {
				qid = w.questions[len(w.questions)-1]
			}
			w.mu.Unlock()
		}
		r.SetAnswerId(uint32(qid))
		p, _ := r.NewResults()
		s, _ := capnp.NewStruct(p.Segment(), capnp.ObjectSize{DataSize: 8, PointerCount: 1})
		s.SetPtr(0, capnp.NewInterface(p.Segment(), 0).ToPtr())
		tab, _ := p.NewCapTable(2)
		tab.At(0).SetSenderHosted(38)
		if a.Kind == "return-cap-then-bad-cap" {
			tab.At(1).SetReceiverHosted(77)
		} else {
			tab.At(1).SetSenderPromise(39)
		}
		p.SetContent(s.ToPtr())
	case "release-inflight-result-export":
		// Release of the export that the Return currently held inside transport.send introduces (answer a.Q; the peer gave up
		// its result capabilities with an early Finish(releaseResultCaps), so it holds no reference to release)
		exp, ok := w.exportOf(a.Q)
		if !ok {
			exp = 1
		}
		r, _ := rm.NewRelease()
		r.SetId(uint32(exp))
		r.SetReferenceCount(1)
	case "return-last-question", "return-last-question-exception":
		qid := 0
		w.mu.Lock()
		if len(w.questions) > 0 {
			qid = w.questions[len(w.questions)-1]
		}
		w.mu.Unlock()
		r, _ := rm.NewReturn()
		r.SetAnswerId(uint32(qid))
		r.SetReleaseParamCaps(false)
		if a.Kind == "return-last-question" {
			p, _ := r.NewResults()
			s, _ := capnp.NewStruct(p.Segment(), capnp.ObjectSize{DataSize: 8, PointerCount: 1})
			p.SetContent(s.ToPtr())
		} else {
			x, _ := r.NewException()
			x.SetReason("verif-late-exception")
		}
	case "return-predicted-question", "return-predicted-question-exception":
		r, _ := rm.NewReturn()
		r.SetAnswerId(uint32(a.N))
		r.SetReleaseParamCaps(false)
		if a.Kind == "return-predicted-question" {
			p, _ := r.NewResults()
			s, _ := capnp.NewStruct(p.Segment(), capnp.ObjectSize{DataSize: 8, PointerCount: 1})
			p.SetContent(s.ToPtr())
		} else {
			x, _ := r.NewException()
			x.SetReason("verif-early-exception")
		}
	case "bootstrap-reused-question":
		b, _ := rm.NewBootstrap()
		b.SetQuestionId(uint32(a.Q))
	case "call-bad-cap-receiverHosted", "call-bad-cap-receiverAnswer", "call-bad-cap-thirdParty", "call-bad-cap-unknown":
		c := call(a.Q)
		t, _ := c.NewTarget()
		if a.On >= 0 {
			pa, _ := t.NewPromisedAnswer()
			pa.SetQuestionId(uint32(a.On))
		} else {
			t.SetImportedCap(0)
		}
		p, _ := c.NewParams()
		s, _ := capnp.NewStruct(p.Segment(), capnp.ObjectSize{DataSize: 8, PointerCount: 1})
		s.SetUint32(0, uint32(900+a.Q))
		s.SetPtr(0, capnp.NewInterface(p.Segment(), 0).ToPtr())
		tab, _ := p.NewCapTable(1)
		switch a.Kind {
		case "call-bad-cap-receiverHosted":
			tab.At(0).SetReceiverHosted(uint32(a.N)) // no such export
		case "call-bad-cap-receiverAnswer":
			pa, _ := tab.At(0).NewReceiverAnswer()
			pa.SetQuestionId(uint32(a.N))
		case "call-bad-cap-thirdParty":
			tab.At(0).NewThirdPartyHosted()
		default:
			tab.At(0).Struct.SetUint16(0, 77) // unknown union member
		}
		p.SetContent(s.ToPtr())
	case "call-null-params":
		c := call(a.Q)
		t, _ := c.NewTarget()
		t.SetImportedCap(0)
	case "call-null-target":
		c := call(a.Q)
		fillParams(c, 900+a.Q, -1, "")
	case "call-unknown-target-which":
		c := call(a.Q)
		t, _ := c.NewTarget()
		t.Struct.SetUint16(4, 9)
		fillParams(c, 900+a.Q, -1, "")
	case "call-transform-unknown-op":
		c := call(a.Q)
		t, _ := c.NewTarget()
		pa, _ := t.NewPromisedAnswer()
		pa.SetQuestionId(uint32(a.On))
		ops, _ := pa.NewTransform(2)
		ops.At(0).SetGetPointerField(0)
		ops.At(1).Struct.SetUint16(0, 9)
		fillParams(c, 900+a.Q, -1, "")
	case "sendresultsto-yourself":
		c := call(a.Q)
		t, _ := c.NewTarget()
		t.SetImportedCap(0)
		fillParams(c, 900+a.Q, -1, "")
		c.SendResultsTo().SetYourself()
	case "finish-unknown":
		f, _ := rm.NewFinish()
		f.SetQuestionId(uint32(a.N))
	case "finish-twice":
		f, _ := rm.NewFinish()
		f.SetQuestionId(uint32(a.Q))
	case "release-unknown":
		r, _ := rm.NewRelease()
		r.SetId(uint32(a.N))
		r.SetReferenceCount(1)
	case "release-too-many":
		r, _ := rm.NewRelease()
		r.SetId(0)
		r.SetReferenceCount(1000)
	case "return-unknown-question":
		r, _ := rm.NewReturn()
		r.SetAnswerId(uint32(a.N))
		r.NewResults()
	case "return-unknown-which":
		r, _ := rm.NewReturn()
		r.SetAnswerId(uint32(a.N))
		r.Struct.SetUint16(6, 9)
	case "disembargo-non-import":
		d, _ := rm.NewDisembargo()
		t, _ := d.NewTarget()
		pa, _ := t.NewPromisedAnswer()
		pa.SetQuestionId(uint32(a.Q))
		d.Context().SetSenderLoopback(3)
	case "disembargo-unknown-embargo":
		d, _ := rm.NewDisembargo()
		t, _ := d.NewTarget()
		t.SetImportedCap(0)
		d.Context().SetReceiverLoopback(uint32(a.N))
	case "disembargo-unknown-context":
		d, _ := rm.NewDisembargo()
		t, _ := d.NewTarget()
		t.SetImportedCap(0)
		d.Context().SetAccept()
	case "resolve":
		r, _ := rm.NewResolve()
		r.SetPromiseId(uint32(a.N))
	case "provide":
		p, _ := rm.NewProvide()
		p.SetQuestionId(uint32(a.Q))
	case "accept":
		p, _ := rm.NewAccept()
		p.SetQuestionId(uint32(a.Q))
	case "join":
		p, _ := rm.NewJoin()
		p.SetQuestionId(uint32(a.Q))
	case "unknown-message":
		rm.Struct.SetUint16(0, 99)
	case "abort":
		x, _ := rm.NewAbort()
		x.SetReason("verif-peer-abort")
	case "empty-message":
		// a message whose root is a null pointer
		m2, _, _ := capnp.NewMessage(capnp.SingleSegment(nil))
		msg = m2
	}
	rec["ev"], rec["dir"] = "msg", "recv"
	w.log(rec)
	w.toConn <- msg
	// a message of the Conn that is being held inside transport.send is let go once the hostile message is in
	w.mu.Lock()
	held := len(w.holds) > 0
	w.mu.Unlock()
	if held {
		w.settle()
		w.step(action{A: "release-send"}, new(bool))
	}
}
