// Driver for C11: runs small multi-threaded programs over capnp.Promise / Answer /
// Future under the gate scheduler and records a trace for TLC
// (spec/promise/PromiseAbs.tla).
//
//	promdrv run <programs.ndjson> <trace.ndjson> <mode> <budget>
package main

import (
	"bufio"
	"context"
	"encoding/json"
	"fmt"
	"math/rand"
	"os"
	"strconv"
	"strings"
	"sync"

	capnp "capnproto.org/go/capnp/v3"
	"capnproto.org/go/capnp/v3/internal/verifh/vsched"
)

type J = map[string]interface{}

type op struct {
	Op   string `json:"op"`
	P    string `json:"p"`
	Path string `json:"path"`
	H    string `json:"h"`
	Kind string `json:"kind"`
	To   string `json:"to"` // Join: the promise P is joined onto (default "q")
}

type program struct {
	ID      string `json:"id"`
	Threads [][]op `json:"threads"`
	Budget  int    `json:"budget"` // schedules for this program (0: the default given on the command line)
	Mode    string `json:"mode"`   // "rnd": seeded random schedules instead of depth-first enumeration
}

var errPC = fmt.Errorf("verif-pcaller")
var errSent = fmt.Errorf("verif-sent")

type world struct {
	*vsched.World
	mu       sync.Mutex
	promises map[string]*capnp.Promise
	handles  map[string]*capnp.Client
	rclient  *capnp.Client
	resCap   capnp.Ptr
	resNoCap capnp.Ptr
	pcOf     map[int]string
}

func ev(e string, t int, k string, o op, res string) J {
	to := o.To
	if o.Op == "Join" && to == "" {
		to = "q"
	}
	return J{"ev": e, "t": t, "k": k, "op": o.Op, "p": o.P, "path": o.Path, "h": o.H, "kind": o.Kind, "to": to, "res": res}
}

// instrumented pipeline caller of one promise
type pcaller struct {
	w    *world
	name string
}

func (pc *pcaller) PipelineSend(ctx context.Context, transform []capnp.PipelineOp, s capnp.Send) (*capnp.Answer, capnp.ReleaseFunc) {
	t := pc.w.Thread()
	pc.w.Log(ev("pc-enter", t, pc.name, op{}, ""))
	pc.w.mu.Lock()
	pc.w.pcOf[t] = pc.name
	pc.w.mu.Unlock()
	pc.w.Yield("pcaller:send")
	pc.w.Log(ev("pc-exit", t, pc.name, op{}, ""))
	return capnp.ErrorAnswer(s.Method, errPC), func() {}
}
func (pc *pcaller) PipelineRecv(ctx context.Context, transform []capnp.PipelineOp, r capnp.Recv) capnp.PipelineCaller {
	r.Reject(errPC)
	return nil
}

// the capability inside the result
type rhook struct{ w *world }

func (h *rhook) Send(ctx context.Context, s capnp.Send) (*capnp.Answer, capnp.ReleaseFunc) {
	t := h.w.Thread()
	h.w.Log(ev("send-enter", t, "R", op{}, ""))
	h.w.Yield("hook:send")
	h.w.Log(ev("send-exit", t, "R", op{}, ""))
	return capnp.ErrorAnswer(s.Method, errSent), func() {}
}
func (h *rhook) Recv(ctx context.Context, r capnp.Recv) capnp.PipelineCaller {
	r.Reject(errSent)
	return nil
}
func (h *rhook) Brand() capnp.Brand { return capnp.Brand{Value: h} }
func (h *rhook) Shutdown()          { h.w.Log(ev("shutdown", h.w.Thread(), "R", op{}, "")) }

func transformOf(path string) []capnp.PipelineOp {
	if path == "f0" {
		return []capnp.PipelineOp{{Field: 0}}
	}
	return nil
}

func classify(ans *capnp.Answer, rel capnp.ReleaseFunc) string {
	_, err := ans.Struct()
	if rel != nil {
		rel()
	}
	switch {
	case err == nil:
		return "noerror"
	case strings.Contains(err.Error(), "verif-pcaller"):
		return "pcaller"
	case strings.Contains(err.Error(), "verif-sent"):
		return "sent:R"
	}
	return "err"
}

func (w *world) exec(t int, o op) (res string) {
	defer func() {
		if p := recover(); p != nil {
			res = "panic:" + fmt.Sprint(p)
		}
	}()
	ctx := context.Background()
	meth := capnp.Method{InterfaceID: 7, MethodID: 1}
	switch o.Op {
	case "PSend":
		ans, rel := w.promises[o.P].Answer().PipelineSend(ctx, transformOf(o.Path), capnp.Send{Method: meth})
		r := classify(ans, rel)
		if r == "pcaller" {
			return "pcaller:" + w.lastPC(t)
		}
		return r
	case "Client":
		f := w.promises[o.P].Answer().Future()
		if o.Path == "f0" {
			f = f.Field(0, nil)
		}
		c := f.Client()
		w.mu.Lock()
		w.handles[o.H] = c
		w.mu.Unlock()
		if c == nil {
			return "nil"
		}
		return "client"
	case "CCall":
		w.mu.Lock()
		c := w.handles[o.H]
		w.mu.Unlock()
		ans, rel := c.SendCall(ctx, capnp.Send{Method: meth})
		r := classify(ans, rel)
		if r == "pcaller" {
			return "pcaller:" + w.lastPC(t)
		}
		return r
	case "Fulfill":
		if o.Kind == "cap" {
			w.promises[o.P].Fulfill(w.resCap)
		} else {
			w.promises[o.P].Fulfill(w.resNoCap)
		}
		return "ok"
	case "Reject":
		w.promises[o.P].Reject(fmt.Errorf("verif-reject"))
		return "ok"
	case "Join":
		to := o.To
		if to == "" {
			to = "q"
		}
		w.promises[o.P].Join(w.promises[to].Answer())
		return "ok"
	case "Struct":
		_, err := w.promises[o.P].Answer().Struct()
		if err != nil {
			return "err"
		}
		return "ok"
	case "ReleaseClients":
		w.promises[o.P].ReleaseClients()
		return "ok"
	case "Done":
		select {
		case <-w.promises[o.P].Answer().Done():
			return "closed"
		default:
			return "open"
		}
	}
	return "unknown-op"
}

// lastPC returns the name of the pipeline caller most recently entered by thread t (from the trace)
func (w *world) lastPC(t int) string {
	w.mu.Lock()
	defer w.mu.Unlock()
	return w.pcOf[t]
}

func runOnce(p *program, ch vsched.Chooser) *vsched.Outcome {
	w := &world{promises: map[string]*capnp.Promise{}, handles: map[string]*capnp.Client{}, pcOf: map[int]string{}}
	var threads []func(vw *vsched.World, t int)
	for ti := range p.Threads {
		ops := p.Threads[ti]
		threads = append(threads, func(vw *vsched.World, t int) {
			for _, o := range ops {
				vw.Yield("op")
				vw.Log(ev("start", t, "", o, ""))
				r := w.exec(t, o)
				vw.Log(ev("end", t, "", o, r))
			}
		})
	}
	out := vsched.RunOnce(func(y func(string)) { capnp.VerifYield = y }, func(vw *vsched.World) {
		w.World = vw
		meth := capnp.Method{InterfaceID: 7, MethodID: 0}
		w.promises["p"] = capnp.NewPromise(meth, &pcaller{w, "p"})
		w.promises["q"] = capnp.NewPromise(meth, &pcaller{w, "q"})
		w.promises["r"] = capnp.NewPromise(meth, &pcaller{w, "r"})
		// result with the capability R in pointer field 0
		m1, s1, _ := capnp.NewMessage(capnp.SingleSegment(nil))
		r1, _ := capnp.NewRootStruct(s1, capnp.ObjectSize{PointerCount: 1})
		w.rclient = capnp.NewClient(&rhook{w})
		id := m1.AddCap(w.rclient.AddRef())
		r1.SetPtr(0, capnp.NewInterface(s1, id).ToPtr())
		w.resCap = r1.ToPtr()
		_, s2, _ := capnp.NewMessage(capnp.SingleSegment(nil))
		r2, _ := capnp.NewRootStruct(s2, capnp.ObjectSize{PointerCount: 1})
		w.resNoCap = r2.ToPtr()
		e := ev("reset", 0, "", op{}, "")
		e["prog"] = p.ID
		vw.Log(e)
	}, threads, ch)
	if out.Hang == "" {
		out.Trace = append(out.Trace, ev("quiesce", 0, "", op{}, ""))
	}
	return out
}

type randChooser struct{ r *rand.Rand }

func (c *randChooser) Pick(n int) int { return c.r.Intn(n) }

func main() {
	pf, err := os.Open(os.Args[2])
	if err != nil {
		panic(err)
	}
	tf, err := os.Create(os.Args[3])
	if err != nil {
		panic(err)
	}
	mode := os.Args[4]
	budget, _ := strconv.Atoi(os.Args[5])
	seed, _ := strconv.ParseInt(os.Getenv("VERIF_SEED"), 10, 64)
	tw := bufio.NewWriterSize(tf, 1<<20)
	tenc := json.NewEncoder(tw)
	enc := json.NewEncoder(os.Stdout)
	sc := bufio.NewScanner(pf)
	sc.Buffer(make([]byte, 1<<20), 64<<20)
	stats := map[string]int{}
	sites := map[string]int{}
	nprog, hangs := 0, 0
	hangSigs := map[string]bool{}
	skip := 0
	if len(os.Args) > 6 {
		skip, _ = strconv.Atoi(os.Args[6])
	}
	for sc.Scan() {
		var p program
		if err := json.Unmarshal(sc.Bytes(), &p); err != nil {
			panic(err)
		}
		nprog++
		if nprog <= skip {
			continue
		}
		if hangs >= 1 {
			// goroutines of the hung execution are leaked in this process: stop here, the caller restarts after this program
			tw.Flush()
			tf.Close()
			enc.Encode(J{"summary": true, "programs": nprog - 1, "resume_at": nprog - 1, "stats": stats, "hangs": hangs, "sites": sites})
			os.Exit(0)
		}
		report := func(o *vsched.Outcome) bool {
			for k, v := range o.Sites {
				sites[k] += v
			}
			if o.Hang != "" {
				sig := hangSig(o.Hang)
				if !hangSigs[sig+p.ID] {
					hangSigs[sig+p.ID] = true
					hangs++
					enc.Encode(J{"what": "hang", "prog": p, "schedule": o.Taken, "sig": sig, "dump": o.Hang, "trace": o.Trace})
				}
				return false
			}
			for _, e := range o.Trace {
				tenc.Encode(e)
			}
			stats["executions"]++
			stats["events"] += len(o.Trace)
			return true
		}
		if mode == "rnd" || p.Mode == "rnd" {
			r := rand.New(rand.NewSource(seed*7919 + int64(nprog)))
			n := budget
			if p.Budget > 0 {
				n = p.Budget
			}
			for i := 0; i < n; i++ {
				if !report(runOnce(&p, &randChooser{r})) {
					break
				}
			}
			continue
		}
		b := budget
		if p.Budget > 0 {
			b = p.Budget
		}
		if vsched.Explore(b, func(ch vsched.Chooser) *vsched.Outcome { return runOnce(&p, ch) }, report) {
			stats["programs_fully_explored"]++
		}
	}
	tw.Flush()
	tf.Close()
	capnp.VerifYield = nil
	enc.Encode(J{"summary": true, "programs": nprog, "stats": stats, "hangs": hangs, "sites": sites})
}

// hangSig names the library functions in which goroutines are stuck (stable signature of a deadlock)
func hangSig(dump string) string {
	seen := map[string]bool{}
	var parts []string
	for _, ln := range strings.Split(dump, "\n") {
		if strings.HasPrefix(ln, "capnproto.org/go/capnp/v3.") && !strings.Contains(ln, "verifh") {
			f := strings.TrimPrefix(ln, "capnproto.org/go/capnp/v3.")
			if i := strings.Index(f, "("); i > 0 {
				f = f[:i]
			}
			if strings.HasPrefix(f, "(*") || !seen[f] {
				// keep only the innermost library frame of each goroutine: the first one after a "goroutine" header
			}
			_ = f
		}
	}
	// innermost library frame per goroutine
	for _, g := range strings.Split(dump, "\n\n") {
		for _, ln := range strings.Split(g, "\n") {
			if strings.HasPrefix(ln, "capnproto.org/go/capnp/v3.") && !strings.Contains(ln, "verifh") && !strings.Contains(ln, "verifYield") {
				f := strings.TrimPrefix(ln, "capnproto.org/go/capnp/v3.")
				if i := strings.LastIndex(f, "("); i > 0 {
					f = f[:i]
				}
				if !seen[f] {
					seen[f] = true
					parts = append(parts, f)
				}
				break
			}
		}
	}
	sortStrings(parts)
	return strings.Join(parts, "+")
}

func sortStrings(a []string) {
	for i := 1; i < len(a); i++ {
		for j := i; j > 0 && a[j] < a[j-1]; j-- {
			a[j], a[j-1] = a[j-1], a[j]
		}
	}
}
