// Driver for the torn-write clause of C09: sends messages through rpc.NewStreamTransport /
// NewPackedStreamTransport over a writer with a planned fault and records every call of the
// underlying writer.  Scripts come from spec/rpc/StreamTornGen.tla, the trace is judged by
// spec/rpc/StreamTornTrace.tla.
//
//	streamdrv <scripts.ndjson> <trace.ndjson>
package main

import (
	"bufio"
	"context"
	"encoding/json"
	"errors"
	"fmt"
	"os"
	"sync"
	"time"

	capnp "capnproto.org/go/capnp/v3"
	"capnproto.org/go/capnp/v3/rpc"
)

type J = map[string]interface{}

var (
	out    *json.Encoder
	outMu  sync.Mutex
	nlines int
)

func emit(e J) {
	outMu.Lock()
	defer outMu.Unlock()
	for _, k := range []string{"len", "n"} {
		if e[k] == nil {
			e[k] = 0
		}
	}
	for _, k := range []string{"err", "ok"} {
		if e[k] == nil {
			e[k] = false
		}
	}
	if e["level"] == nil {
		e["level"] = ""
	}
	out.Encode(e)
	nlines++
}

type script struct {
	Enc   string `json:"enc"`
	Level string `json:"level"`
	At    int    `json:"at"`
	K     int    `json:"k"`
}

// faulty is the byte stream: reads block until Close; write number `at` accepts k bytes and fails
type faulty struct {
	mu     sync.Mutex
	op     int
	at, k  int
	closed chan struct{}
	once   sync.Once
	quiet  bool
}

func (f *faulty) Read(p []byte) (int, error) {
	<-f.closed
	return 0, errors.New("closed")
}

func (f *faulty) Write(p []byte) (int, error) {
	f.mu.Lock()
	defer f.mu.Unlock()
	select {
	case <-f.closed:
		emit(J{"ev": "write", "len": len(p), "n": 0, "err": true})
		return 0, errors.New("write on closed stream")
	default:
	}
	op := f.op
	f.op++
	if op == f.at {
		k := f.k
		if k < 0 {
			k = len(p) - 1
		}
		if k > len(p) {
			k = len(p)
		}
		if k == len(p) && k > 0 {
			k = len(p) - 1
		}
		emit(J{"ev": "write", "len": len(p), "n": k, "err": true})
		return k, errors.New("injected write fault")
	}
	emit(J{"ev": "write", "len": len(p), "n": len(p), "err": false})
	return len(p), nil
}

func (f *faulty) Close() error {
	f.once.Do(func() { close(f.closed) })
	return nil
}

func newTransport(s script, f *faulty) rpc.Transport {
	if s.Enc == "packed" {
		return rpc.NewPackedStreamTransport(f)
	}
	return rpc.NewStreamTransport(f)
}

func runTransport(s script) {
	f := &faulty{at: s.At, k: s.K, closed: make(chan struct{})}
	t := newTransport(s, f)
	ctx := context.Background()
	for i := 0; i < 4; i++ {
		msg, send, release, err := t.NewMessage(ctx)
		emit(J{"ev": "newmsg", "err": err != nil})
		if err != nil {
			continue
		}
		// a Bootstrap, a Call with some payload, alternating: different sizes and write patterns
		if i%2 == 0 {
			b, _ := msg.NewBootstrap()
			b.SetQuestionId(uint32(i))
		} else {
			c, _ := msg.NewCall()
			c.SetQuestionId(uint32(i))
			c.SetInterfaceId(0x1234567812345678)
			p, _ := c.NewParams()
			d, _ := capnp.NewData(msg.Struct.Segment(), make([]byte, 100+i))
			p.SetContent(d.List.ToPtr())
		}
		emit(J{"ev": "send-begin"})
		err = send()
		emit(J{"ev": "send-end", "err": err != nil})
		release()
	}
	done := make(chan struct{})
	go func() { t.Close(); close(done) }()
	select {
	case <-done:
		emit(J{"ev": "close", "ok": true})
	case <-time.After(5 * time.Second):
		emit(J{"ev": "close", "ok": false})
	}
}

// runPrealloc: the messages are all allocated first and sent afterwards (as a connection does with the Return of a call that
// is still running): a message that exists already when the stream is torn must not be written either
func runPrealloc(s script) {
	f := &faulty{at: s.At, k: s.K, closed: make(chan struct{})}
	t := newTransport(s, f)
	ctx := context.Background()
	type pending struct {
		send    func() error
		release capnp.ReleaseFunc
	}
	var ps []pending
	for i := 0; i < 4; i++ {
		msg, send, release, err := t.NewMessage(ctx)
		emit(J{"ev": "newmsg", "err": err != nil})
		if err != nil {
			continue
		}
		c, _ := msg.NewCall()
		c.SetQuestionId(uint32(i))
		p, _ := c.NewParams()
		d, _ := capnp.NewData(msg.Struct.Segment(), make([]byte, 40+i))
		p.SetContent(d.List.ToPtr())
		ps = append(ps, pending{send, release})
	}
	for _, p := range ps {
		emit(J{"ev": "send-begin"})
		err := p.send()
		emit(J{"ev": "send-end", "err": err != nil})
		p.release()
	}
	done := make(chan struct{})
	go func() { t.Close(); close(done) }()
	select {
	case <-done:
		emit(J{"ev": "close", "ok": true})
	case <-time.After(5 * time.Second):
		emit(J{"ev": "close", "ok": false})
	}
}

func runConn(s script) {
	f := &faulty{at: s.At, k: s.K, closed: make(chan struct{})}
	conn := rpc.NewConn(newTransport(s, f), &rpc.Options{ErrorReporter: nopReporter{}})
	for i := 0; i < 3; i++ {
		ctx, cancel := context.WithTimeout(context.Background(), 100*time.Millisecond)
		c := conn.Bootstrap(ctx)
		c.Resolve(ctx)
		c.Release()
		cancel()
	}
	done := make(chan struct{})
	go func() { conn.Close(); close(done) }()
	select {
	case <-done:
		emit(J{"ev": "close", "ok": true})
	case <-time.After(10 * time.Second):
		emit(J{"ev": "close", "ok": false})
	}
	f.Close()
}

type nopReporter struct{}

func (nopReporter) ReportError(error) {}

func main() {
	in, err := os.Open(os.Args[1])
	if err != nil {
		panic(err)
	}
	tf, err := os.Create(os.Args[2])
	if err != nil {
		panic(err)
	}
	tw := bufio.NewWriterSize(tf, 1<<20)
	out = json.NewEncoder(tw)
	sc := bufio.NewScanner(in)
	n := 0
	for sc.Scan() {
		var s script
		if err := json.Unmarshal(sc.Bytes(), &s); err != nil {
			panic(err)
		}
		emit(J{"ev": "reset", "level": s.Level})
		if s.Level == "conn" {
			runConn(s)
		} else if s.Level == "prealloc" {
			runPrealloc(s)
		} else {
			runTransport(s)
		}
		n++
	}
	outMu.Lock()
	tw.Flush()
	tf.Close()
	outMu.Unlock()
	fmt.Printf("{\"summary\":true,\"lines\":%d,\"scripts\":%d}\n", nlines, n)
}
