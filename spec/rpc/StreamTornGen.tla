--------------------------- MODULE StreamTornGen ---------------------------
(* Fault plans for the byte-stream transport (C09, torn-write clause): a      *)
(* script sends NMsgs messages through rpc.NewStreamTransport (basic or       *)
(* packed encoding; directly, with all messages allocated before the first is *)
(* sent (prealloc), or under a Conn); the underlying writer accepts           *)
(* everything except at write call number `at`, where it accepts k bytes      *)
(* (k = 99: all but one byte) and returns an error.  Afterwards it accepts    *)
(* everything again, so any byte the code still writes lands on the stream.   *)
EXTENDS Integers, Sequences, TLC, Json
CONSTANTS Encodings, Levels, MaxAt, Ks
VARIABLE script
Init == script = [enc |-> "none", level |-> "none", at |-> 0 - 1, k |-> 0]
Next == /\ script.enc = "none"
        /\ \E e \in Encodings, lv \in Levels, a \in (0 - 1)..MaxAt, k \in Ks :
             /\ (a = 0 - 1 => k = 0)                     \* no fault
             /\ (lv = "conn" /\ a >= 0 => k # 0)         \* under a Conn message boundaries are not observable: only faults that tear
             /\ script' = [enc |-> e, level |-> lv, at |-> a, k |-> k]
Spec == Init /\ [][Next]_script
Emit == script.enc # "none" => PrintT(<<"SCRIPT", ToJson(script)>>)
=============================================================================
