SPECIFICATION Spec
CONSTANTS
  M = {"meth1", "meth2"}
  A = {"app1"}
  C = {"cl1", "cl2"}
  MaxMsgs = 2
  MaxFaults = 1
  Variant = "nmleak"
INVARIANTS NoRuleBroken OneShutdown AtClose WaitOrder CleanEnd

