------------------------------- MODULE RpcFault -------------------------------
(* Scripts for C09: a base scenario exercising every path of the connection    *)
(* that talks to the transport (Bootstrap answer, call delivery and Return,    *)
(* local Bootstrap, calls on an import, pipelined local call, Finish, Release  *)
(* of an import), with one transport fault injected at the k-th operation of   *)
(* one kind (message creation, send, receive), followed by the rest of the     *)
(* (the last two base scenarios put an embargo in force, see RpcEmbargo.tla)    *)
(* scenario and Close (once or twice).                                         *)
EXTENDS Integers, Sequences, FiniteSets, TLC, Json

Act(a) == [a |-> a, q |-> 0 - 1, on |-> 0 - 1, exp |-> 0 - 1, n |-> 0, tag |-> 0 - 1, kind |-> "", rel |-> FALSE, h |-> "", cap |-> 0 - 1, k |-> 0]
Boot == [Act("p-bootstrap") EXCEPT !.q = 1]
Call(q, on, tag, kind, cap) == [Act("p-call") EXCEPT !.q = q, !.on = on, !.tag = tag, !.kind = kind, !.cap = cap]
Ret(tag, k) == [Act("a-return") EXCEPT !.tag = tag, !.kind = k]
Fin(q, r) == [Act("p-finish") EXCEPT !.q = q, !.rel = r]
LBoot == [Act("l-bootstrap") EXCEPT !.h = "boot", !.cap = 9]
PRet(i, kind, cap, tag) == [Act("p-return") EXCEPT !.q = i, !.kind = kind, !.cap = cap, !.tag = tag]
LCall(h, t) == [Act("l-call") EXCEPT !.h = h, !.tag = t]
LRel(h) == [Act("l-release") EXCEPT !.h = h]
LKeep(h, t) == [Act("l-call") EXCEPT !.h = h, !.tag = t, !.kind = "keep"]
LPipe(on, t) == [Act("l-pcall") EXCEPT !.on = on, !.tag = t]
PRetLoop(i, exp, tag) == [Act("p-return") EXCEPT !.q = i, !.kind = "loopcap", !.exp = exp, !.tag = tag]
Pump == Act("p-pump")
LCallC(h, t) == [Act("l-call") EXCEPT !.h = h, !.tag = t, !.kind = "cancellable"]
LCancel(t) == [Act("l-cancel") EXCEPT !.tag = t]
LCallWC(h, t) == [Act("l-call") EXCEPT !.h = h, !.tag = t, !.kind = "withcap-c"]
PRetRel(i, kind, tag) == [Act("p-return") EXCEPT !.q = i, !.kind = kind, !.cap = 0 - 1, !.tag = tag, !.rel = TRUE]
OnCancel(tag, k) == [Act("a-oncancel") EXCEPT !.tag = tag, !.kind = k]

Bases == {
  \* incoming traffic only
  <<Boot, Call(2, 1, 1, "root", 0 - 1), Ret(1, "ok-newcap"), Call(3, 2, 2, "", 5), Ret(2, "ok-nocap"), Fin(2, FALSE), Fin(3, TRUE)>>,
  \* pipelined call on an unreturned answer, then returns
  <<Boot, Call(2, 1, 1, "root", 0 - 1), Call(3, 2, 2, "", 0 - 1), Ret(1, "ok-newcap"), Ret(2, "err"), Fin(3, FALSE), Fin(2, TRUE)>>,
  \* outgoing traffic: Bootstrap, calls on the import, release
  <<LBoot, PRet(0, "bootcap", 9, 0 - 1), LCall("boot", 101), PRet(1, "results", 0 - 1, 101), LCall("boot", 102), PRet(2, "exception", 0 - 1, 102), LRel("boot")>>,
  \* local call made before the bootstrap question returns (pipelined on the question), both directions mixed
  <<Boot, LBoot, LCall("boot", 101), PRet(0, "bootcap", 9, 0 - 1), PRet(1, "results", 0 - 1, 101), Call(2, 1, 1, "root", 5), Ret(1, "ok-nocap"), LRel("boot")>>,
  \* a local call is cancelled by its caller (Finish before the Return); the peer's Return arrives late, or never
  <<LBoot, PRet(0, "bootcap", 9, 0 - 1), LCallC("boot", 101), LCancel(101), PRet(1, "results", 0 - 1, 101), LCallC("boot", 102), PRet(2, "exception", 0 - 1, 102), LCancel(102), LRel("boot")>>,
  \* a cancelled local call whose parameters carry a capability of this vat; the peer's late Return gives the references back (releaseParamCaps)
  <<LBoot, PRet(0, "bootcap", 9, 0 - 1), LCallWC("boot", 101), LCancel(101), PRetRel(1, "results", 101), LCallWC("boot", 102), LCancel(102), PRetRel(2, "exception", 102), LRel("boot")>>,
  \* a method body that completes with a new capability when it is cancelled (by Close, by an abort, by an early Finish)
  <<Boot, Call(2, 1, 1, "root", 0 - 1), OnCancel(1, "ok-newcap"), Call(3, 1, 2, "root", 5), OnCancel(2, "ok-nocap"), Fin(2, FALSE)>>,
  \* embargo (spec/rpc/RpcEmbargo.tla, caller role): a local call pipelined on a question whose answer turns out to be a capability of
  \* this vat, a second one held back by the embargo, then the peer reflects the first call and echoes the Disembargo
  <<Boot, LBoot, PRet(0, "bootcap", 9, 0 - 1), LKeep("boot", 100), LPipe(100, 1), PRetLoop(1, 1, 100), LPipe(100, 2), Pump, Pump, LPipe(100, 3)>>,
  \* embargo, callee role: the method returns the capability it was given; pipelined calls are forwarded, the Disembargo is echoed
  <<Boot, Call(2, 1, 100, "root", 5), Call(3, 2, 1, "", 0 - 1), Ret(100, "ok-argcap"), Call(4, 2, 2, "", 0 - 1), Pump, Pump, Pump, Pump>>
}
Faults == { [Act("fault") EXCEPT !.kind = op, !.k = k] : op \in {"newmessage", "send", "recv"}, k \in 1..7 }
Closes == { <<Act("close")>>, <<Act("close"), Act("close")>> }

VARIABLE done
Init == done = FALSE
Next == /\ ~done /\ done' = TRUE
        /\ \A b \in Bases, f \in Faults, c \in Closes : PrintT(<<"SCRIPT", ToJson(<<f>> \o b \o c)>>)
        /\ \A b \in Bases, c \in Closes : PrintT(<<"SCRIPT", ToJson(b \o c)>>)
        \* Close injected at every step of every base scenario
        /\ \A b \in Bases : \A i \in 0..Len(b) : PrintT(<<"SCRIPT", ToJson(SubSeq(b, 1, i) \o <<Act("close")>> \o SubSeq(b, i + 1, Len(b)))>>)
Spec == Init /\ [][Next]_done
=============================================================================
