----------------------------- MODULE RpcEmbargo -----------------------------
(* Level 1 ordering across promise resolution (C06, "embargo"), as a small    *)
(* protocol model of the connection under test (vat C) and a well-formed peer *)
(* (vat P), in the two roles C can play.                                      *)
(*                                                                            *)
(* Side = "caller".  C's application calls m on the peer's bootstrap          *)
(*   capability (tag T0) and pipelines calls 1..NCalls on field 0 of the      *)
(*   result, one after the other.  The peer answers T0 with a capability that *)
(*   lives in C (C's own bootstrap capability B, which the peer holds as an   *)
(*   import).  Pipelined calls that C sent before it processed the Return     *)
(*   travel C -> P -> C (the peer reflects them to B, in order, once it has   *)
(*   resolved T0); calls made afterwards could be delivered to B directly     *)
(*   and would overtake the ones still travelling.  The protocol forbids      *)
(*   that: C must hold them back (embargo) until its Disembargo has made the  *)
(*   round trip behind the reflected calls.                                   *)
(*                                                                            *)
(* Side = "callee".  The peer calls m on B (tag T0), passing a capability it  *)
(*   hosts (import I of C), and pipelines calls 1..NCalls on field 0 of the   *)
(*   result.  C's application returns that very capability.  Pipelined calls  *)
(*   received before the body returned wait in C and are forwarded to I when  *)
(*   it returns, later ones are forwarded at once.  When the peer has seen    *)
(*   the Return it sends Disembargo(senderLoopback); C must echo it           *)
(*   (receiverLoopback, target I) behind every forwarded call, and forwarded  *)
(*   calls must keep their order.                                             *)
(*                                                                            *)
(* Both wires are FIFO.  The peer is a FIFO reflector: it takes one message   *)
(* at a time from its inbox (PPump).  C's receive loop takes messages as they *)
(* arrive (the driver lets the connection settle after every script action),  *)
(* so "peer sends x" and "C handles x" are one step here.                     *)
(*                                                                            *)
(* Embargo = FALSE is the control: the same system without the embargo; TLC   *)
(* must find an InOrder violation for it (checked by the C06 pipeline).       *)
(* hist is the script for the driver (harness/rpcdrv); every maximal          *)
(* behaviour is printed.                                                      *)
EXTENDS Integers, Sequences, FiniteSets, TLC, Json

CONSTANTS Side, NCalls, Embargo, MaxPump

VARIABLES hist,
          issued,     \* number of pipelined calls made so far (they carry tags 1..NCalls in issue order)
          pret,       \* caller: the peer has sent its Return for T0 / callee: the peer has seen C's Return
          cret,       \* caller: C has processed that Return / callee: C's method body for T0 has returned
          toPeer,     \* wire C -> P (FIFO), what the peer has not taken yet
          pumps,      \* number of PPump steps
          waiting,    \* calls C is holding back: embargoed (caller) / queued on the unreturned answer (callee)
          embargoed,  \* caller: an embargo is in force
          delivered,  \* caller: calls delivered to B's implementation / callee: calls the peer has received for I
          echoed,     \* the Disembargo has made it back (caller: C received the echo; callee: the peer received it)
          dissent,    \* callee: number of calls pipelined when the peer sent its Disembargo (-1: not sent yet)
          conc        \* caller: pairs of calls that were held back at the same time (made concurrently: SendCall blocks under an
                      \* embargo, so the second can only come from another goroutine) - their relative order is not defined
vars == <<hist, issued, pret, cret, toPeer, pumps, waiting, embargoed, delivered, echoed, dissent, conc>>

Act(a) == [a |-> a, q |-> 0 - 1, on |-> 0 - 1, exp |-> 0 - 1, n |-> 0, tag |-> 0 - 1, kind |-> "", rel |-> FALSE, h |-> "", cap |-> 0 - 1, k |-> 0]
T0 == 100
CallMsg(t) == [m |-> "call", t |-> t]
Dis == [m |-> "dis", t |-> 0]

\* fixed prologue: both sides bootstrap; then the call whose result is pipelined on
Prologue ==
  IF Side = "caller"
  THEN << [Act("p-bootstrap") EXCEPT !.q = 1],
          [Act("l-bootstrap") EXCEPT !.h = "boot", !.cap = 9],
          [Act("p-return") EXCEPT !.q = 0, !.kind = "bootcap", !.cap = 9],
          [Act("l-call") EXCEPT !.h = "boot", !.tag = T0, !.kind = "keep"] >>
  ELSE << [Act("p-bootstrap") EXCEPT !.q = 1],
          [Act("p-call") EXCEPT !.q = 2, !.on = 1, !.kind = "root", !.tag = T0, !.cap = 5] >>

Init == /\ hist = Prologue /\ issued = 0 /\ pret = FALSE /\ cret = FALSE /\ toPeer = <<>> /\ pumps = 0
        /\ waiting = <<>> /\ embargoed = FALSE /\ delivered = <<>> /\ echoed = FALSE /\ dissent = 0 - 1 /\ conc = {}

Add(x) == hist' = Append(hist, x)

\* ---------------------------------------------------------------- caller
\* C's application makes the next pipelined call on T0's result (field 0)
LPipe == /\ Side = "caller" /\ issued < NCalls
         /\ issued' = issued + 1
         /\ Add([Act("l-pcall") EXCEPT !.on = T0, !.tag = issued + 1])
         /\ IF ~cret THEN /\ toPeer' = Append(toPeer, CallMsg(issued + 1))            \* promise unresolved: goes to the peer
                          /\ UNCHANGED <<waiting, delivered>>
            ELSE IF embargoed THEN /\ waiting' = Append(waiting, issued + 1)            \* resolved to a local capability under embargo
                                   /\ UNCHANGED <<toPeer, delivered>>
            ELSE /\ delivered' = Append(delivered, issued + 1)                           \* resolved, no embargo: delivered directly
                 /\ UNCHANGED <<toPeer, waiting>>
         /\ conc' = IF cret /\ embargoed THEN conc \cup { {waiting[i], issued + 1} : i \in 1..Len(waiting) } ELSE conc
         /\ UNCHANGED <<pret, cret, pumps, embargoed, echoed, dissent>>
\* the peer answers T0 with C's own capability; C processes the Return: if it has pipelined on the result it
\* embargoes the capability and sends the Disembargo behind the pipelined calls
PReturnLoop == /\ Side = "caller" /\ ~pret
               /\ pret' = TRUE /\ cret' = TRUE
               /\ Add([Act("p-return") EXCEPT !.q = 1, !.kind = "loopcap", !.exp = 1, !.tag = T0])
               /\ IF issued > 0 /\ Embargo
                  THEN embargoed' = TRUE /\ toPeer' = Append(toPeer, Dis)
                  ELSE UNCHANGED <<embargoed, toPeer>>
               /\ UNCHANGED <<issued, pumps, waiting, delivered, echoed, dissent, conc>>
\* the peer takes the next message: a pipelined call is reflected to B (C delivers it), the Disembargo is echoed (C lifts the embargo
\* and lets the waiting calls through).  The peer reflects only once it has resolved T0 (sent the Return).
PPumpCaller == /\ Side = "caller" /\ pret /\ toPeer # <<>> /\ pumps < MaxPump
               /\ pumps' = pumps + 1 /\ toPeer' = Tail(toPeer)
               /\ Add(Act("p-pump"))
               /\ IF Head(toPeer).m = "call"
                  THEN /\ delivered' = Append(delivered, Head(toPeer).t) /\ UNCHANGED <<waiting, embargoed, echoed>>
                  ELSE /\ echoed' = TRUE /\ embargoed' = FALSE /\ waiting' = <<>>
                       \* the calls held back are let through together: in any order
                       /\ \E perm \in { f \in [1..Len(waiting) -> 1..Len(waiting)] : \A a, b \in 1..Len(waiting) : a # b => f[a] # f[b] } :
                             delivered' = delivered \o [i \in 1..Len(waiting) |-> waiting[perm[i]]]
               /\ UNCHANGED <<issued, pret, cret, dissent, conc>>

\* ---------------------------------------------------------------- callee
\* the peer pipelines the next call on the answer to T0
PPipe == /\ Side = "callee" /\ issued < NCalls
         /\ issued' = issued + 1
         /\ Add([Act("p-call") EXCEPT !.q = 3 + issued, !.on = 2, !.tag = issued + 1])
         /\ IF ~cret THEN waiting' = Append(waiting, issued + 1) /\ UNCHANGED toPeer       \* queued on the running call
            ELSE toPeer' = Append(toPeer, CallMsg(issued + 1)) /\ UNCHANGED waiting          \* forwarded to the import at once
         /\ UNCHANGED <<pret, cret, pumps, embargoed, delivered, echoed, dissent, conc>>
\* C's method body returns the capability it was given: queued calls are forwarded, then the Return goes out
AReturnArg == /\ Side = "callee" /\ ~cret
              /\ cret' = TRUE
              /\ Add([Act("a-return") EXCEPT !.tag = T0, !.kind = "ok-argcap"])
              /\ toPeer' = toPeer \o [i \in 1..Len(waiting) |-> CallMsg(waiting[i])] \o << [m |-> "ret", t |-> T0] >>
              /\ waiting' = <<>>
              /\ UNCHANGED <<issued, pret, pumps, embargoed, delivered, echoed, dissent, conc>>
\* the peer takes the next message from C: forwarded calls reach I's implementation; on the Return the peer learns that the
\* result is its own capability and sends Disembargo(senderLoopback) - C echoes it behind everything it forwarded so far
PPumpCallee == /\ Side = "callee" /\ toPeer # <<>> /\ pumps < MaxPump
               /\ pumps' = pumps + 1
               /\ Add(Act("p-pump"))
               /\ LET x == Head(toPeer) IN
                  CASE x.m = "call" -> /\ delivered' = Append(delivered, x.t) /\ toPeer' = Tail(toPeer)
                                       /\ UNCHANGED <<pret, echoed, dissent>>
                    [] x.m = "ret"  -> /\ pret' = TRUE /\ dissent' = issued
                                       /\ toPeer' = Append(Tail(toPeer), [m |-> "echo", t |-> 0])   \* C handles the Disembargo at once
                                       /\ UNCHANGED <<delivered, echoed>>
                    [] x.m = "echo" -> /\ echoed' = TRUE /\ toPeer' = Tail(toPeer)
                                       /\ UNCHANGED <<delivered, pret, dissent>>
               /\ UNCHANGED <<issued, cret, waiting, embargoed, conc>>

Next == LPipe \/ PReturnLoop \/ PPumpCaller \/ PPipe \/ AReturnArg \/ PPumpCallee
Spec == Init /\ [][Next]_vars

\* ---------------------------------------------------------------- properties of the protocol
\* calls reach the implementation in the order in which they were made (calls made concurrently have no order)
InOrder == \A i, j \in 1..Len(delivered) : i < j => (delivered[i] < delivered[j] \/ {delivered[i], delivered[j]} \in conc)
\* each call is delivered at most once, and nothing is delivered that was not issued
NoDup == /\ \A i, j \in 1..Len(delivered) : i # j => delivered[i] # delivered[j]
         /\ \A i \in 1..Len(delivered) : delivered[i] \in 1..issued
\* callee: when the echo has arrived every call pipelined before the Disembargo was sent has arrived before it;
\* caller: once the embargo is lifted nothing is travelling any more
EchoBehind == IF Side = "callee"
              THEN \A i \in 1..Len(toPeer) : toPeer[i].m = "echo" =>
                      \A t \in 1..dissent : (\E j \in 1..(i - 1) : toPeer[j].m = "call" /\ toPeer[j].t = t) \/ (\E j \in 1..Len(delivered) : delivered[j] = t)
              ELSE echoed => \A i \in 1..Len(toPeer) : toPeer[i].m # "call"
TypeOK == /\ issued \in 0..NCalls /\ pumps \in 0..MaxPump /\ Len(hist) <= Len(Prologue) + NCalls + MaxPump + 2

Emit == (~ENABLED Next) => PrintT(<<"SCRIPT", ToJson(hist)>>)
=============================================================================
