-------------------------- MODULE StreamTornTrace --------------------------
(* Trace specification of the stream transport's write side (C09): once a    *)
(* message has been written partially (a write call failed after at least one *)
(* byte of that message reached the stream) the stream is torn: no further    *)
(* byte may be written, the send reports an error, and later sends fail       *)
(* without writing.  A failure before the first byte of a message tears       *)
(* nothing.  Close must return.                                               *)
(*  events: reset | send-begin | write(len, n, err) | send-end(err) |         *)
(*          newmsg(err) | close(ok)                                           *)
EXTENDS Integers, Sequences, TLC, Json
Tr == ndJsonDeserialize("torntrace.ndjson")
VARIABLES l, torn, inmsg, level
vars == <<l, torn, inmsg, level>>
Init == l = 1 /\ torn = FALSE /\ inmsg = 0 /\ level = "transport"
Bad(what) == PrintT(<<"TORNBAD", ToJson([line |-> l, what |-> what])>>)
Chk(c, what) == IF c THEN TRUE ELSE Bad(what)        \* (a disjunction in an action would evaluate both sides)
Step ==
  /\ l <= Len(Tr) /\ l' = l + 1
  /\ LET e == Tr[l] IN
     CASE e.ev = "reset" -> torn' = FALSE /\ inmsg' = 0 /\ level' = e.level
       [] e.ev = "send-begin" -> inmsg' = 0 /\ UNCHANGED <<torn, level>>
       [] e.ev = "write" ->
            /\ Chk(~(torn /\ e.n > 0), "bytes written to the stream after a torn write")
            /\ inmsg' = inmsg + e.n
            \* under a Conn the boundaries of messages are not observable; its fault plans always tear (k > 0)
            /\ torn' = (torn \/ (e.err /\ (inmsg + e.n > 0 \/ (level = "conn" /\ e.n > 0))))
            /\ UNCHANGED level
       [] e.ev = "send-end" ->
            /\ Chk(torn => e.err, "send of a torn or later message reported success")
            /\ UNCHANGED <<torn, inmsg, level>>
       [] e.ev = "newmsg" -> UNCHANGED <<torn, inmsg, level>>
       [] e.ev = "close" -> Chk(e.ok, "Close did not return") /\ UNCHANGED <<torn, inmsg, level>>
Spec == Init /\ [][Step]_vars
Consumed == l = Len(Tr) + 1 => PrintT(<<"CONSUMED", ToJson([n |-> Len(Tr)])>>)
=============================================================================
