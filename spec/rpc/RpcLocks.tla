------------------------------- MODULE RpcLocks -------------------------------
(* Implementation-shaped model of the SYNCHRONISATION SKELETON of rpc.Conn    *)
(* (C09, C08): one action per critical section of rpc/rpc.go, rpc/answer.go,   *)
(* rpc/question.go and rpc/import.go, reduced to what they do with              *)
(*   mu        Conn.mu                                                          *)
(*   snd       the sender lock (Conn.sendCond; tryLockSender / lockSender /     *)
(*             unlockSender, all called with mu held, waiting with mu dropped)  *)
(*   tasks     Conn.tasks (WaitGroup): receive loop, method calls, senders      *)
(*   bg        Conn.bgctx cancelled;  closedF  Conn.closed;  shut  Conn.shut    *)
(* Processes                                                                    *)
(*   rx        the receive loop: Call (handleCall: tryLockSender, newReturn,    *)
(*             tasks.Add, start the method), Finish of a returned answer        *)
(*             (handleFinish: lockSender under mu, releaseMsg), a duplicate     *)
(*             Finish / other protocol error (returns an error: the loop ends   *)
(*             and shuts the connection down), end of stream                    *)
(*   m \in M   a method's goroutine ending in answer.Return (lockSender, send   *)
(*             the Return without mu, unlockSender; on a failed Return the      *)
(*             connection is shut down from a NEW goroutine, sd)                *)
(*   a \in A   an application goroutine making a call (question.PipelineSend /  *)
(*             importClient.Send: startTask, tryLockSender(ctx), NewMessage,    *)
(*             unlock for PlaceArgs, lockSender, send)                          *)
(*   c \in C   callers of Conn.Close (two of them: Close twice / concurrently)  *)
(* Faults: NewMessage and send may fail (at most MaxFaults times); an           *)
(* application context may be cancelled while waiting for the sender lock.      *)
(*                                                                              *)
(* Checked: no deadlock (every blocked state is one in which some process can   *)
(* still move), the invariants below (they are the preconditions of the trace   *)
(* specification RpcSync.tla, which validates the recorded synchronisation      *)
(* events of real connections), and termination: once every process has run,    *)
(* the connection is shut, both locks are free and no task is left.             *)
(*                                                                              *)
(* Variant re-introduces one repaired defect at a time (non-vacuity controls):  *)
(*   "closelocked"  second Close returns with mu locked            (D2)         *)
(*   "nmleak"       NewMessage failure keeps the sender lock       (D5)         *)
(*   "dupfinish"    duplicate Finish returns with mu locked        (seed C08-1) *)
(*   "selfwait"     failed Return shuts down on the method's own goroutine,     *)
(*                  which shutdown's tasks.Wait then waits for     (D28)        *)
EXTENDS Integers, FiniteSets, TLC

CONSTANTS M, A, C, MaxMsgs, MaxFaults, Variant

Proc == {"rx", "sd"} \cup M \cup A \cup C
FREE == "free"

VARIABLES pc, mu, snd, tasks, bg, closedF, shut, waited, tclosed,
          inbox,       \* incoming messages the peer may still send
          faults,      \* faults injected so far
          started,     \* method goroutines started by handleCall
          shutdowns,   \* how often shutdown was entered
          bad          \* set of rule names broken (kept as a set so that TLC names the rule)
vars == <<pc, mu, snd, tasks, bg, closedF, shut, waited, tclosed, inbox, faults, started, shutdowns, bad>>

Init == /\ pc = [p \in Proc |-> IF p = "rx" THEN "rx_idle" ELSE IF p \in A THEN "a1" ELSE IF p \in C THEN "c1" ELSE "off"]
        /\ mu = FREE /\ snd = FALSE /\ tasks = 1 /\ bg = FALSE /\ closedF = FALSE /\ shut = FALSE /\ waited = FALSE /\ tclosed = FALSE
        /\ inbox = MaxMsgs /\ faults = 0 /\ started = {} /\ shutdowns = 0 /\ bad = {}

Goto(p, l) == pc' = [pc EXCEPT ![p] = l]
Lock(p)    == mu = FREE /\ mu' = p
Unlock(p)  == mu = p /\ mu' = FREE
Holds(p)   == mu = p
MayFault   == faults < MaxFaults
\* a send: only under the sender lock (or by shutdown once it is alone), never after the transport was closed
SendRules  == bad' = bad \cup (IF snd \/ waited THEN {} ELSE {"send-without-sender-lock"}) \cup (IF tclosed THEN {"send-after-close"} ELSE {})
AddTask    == /\ tasks' = tasks + 1
SameBad    == bad' = bad

\* ---- generic sub-programs, parameterised by labels ----
\* tryLockSender(ctx): caller holds mu.  l = the label of the attempt, lw = the label of the wait (mu dropped)
TryLockSender(p, l, lw, ok, fail, cancellable) ==
  \/ /\ pc[p] = l /\ Holds(p)
     /\ IF bg THEN Goto(p, fail) /\ UNCHANGED <<mu, snd>>
        ELSE IF ~snd THEN snd' = TRUE /\ Goto(p, ok) /\ UNCHANGED mu
        ELSE Unlock(p) /\ Goto(p, lw) /\ UNCHANGED snd
     /\ UNCHANGED <<tasks, bg, closedF, shut, waited, tclosed, inbox, faults, started, shutdowns, bad>>
  \/ /\ pc[p] = lw                     \* select { <-s; <-ctx.Done(); <-bgctx.Done() } then mu.Lock()
     /\ \/ ~snd /\ Lock(p) /\ Goto(p, l)
        \/ bg /\ Lock(p) /\ Goto(p, fail)
        \/ cancellable /\ Lock(p) /\ Goto(p, fail)
     /\ UNCHANGED <<snd, tasks, bg, closedF, shut, waited, tclosed, inbox, faults, started, shutdowns, bad>>
\* lockSender: ignores shutdown and cancellation
LockSender(p, l, lw, ok) ==
  \/ /\ pc[p] = l /\ Holds(p)
     /\ IF ~snd THEN snd' = TRUE /\ Goto(p, ok) /\ UNCHANGED mu
        ELSE Unlock(p) /\ Goto(p, lw) /\ UNCHANGED snd
     /\ UNCHANGED <<tasks, bg, closedF, shut, waited, tclosed, inbox, faults, started, shutdowns, bad>>
  \/ /\ pc[p] = lw /\ ~snd /\ Lock(p) /\ Goto(p, l)
     /\ UNCHANGED <<snd, tasks, bg, closedF, shut, waited, tclosed, inbox, faults, started, shutdowns, bad>>
\* plain steps
JustLock(p, l, nxt) == pc[p] = l /\ Lock(p) /\ Goto(p, nxt)
                       /\ UNCHANGED <<snd, tasks, bg, closedF, shut, waited, tclosed, inbox, faults, started, shutdowns, bad>>
JustUnlock(p, l, nxt) == pc[p] = l /\ Unlock(p) /\ Goto(p, nxt)
                         /\ UNCHANGED <<snd, tasks, bg, closedF, shut, waited, tclosed, inbox, faults, started, shutdowns, bad>>
\* mu.Lock(); unlockSender(); mu.Unlock() as the code does it: two steps (the lock, then release + unlock)
RelSender(p, l, nxt, keep) ==
  /\ pc[p] = l /\ Holds(p) /\ Unlock(p) /\ Goto(p, nxt)
  /\ snd' = (IF keep THEN snd ELSE FALSE)
  /\ bad' = bad \cup (IF ~keep /\ ~snd THEN {"unlock-of-free-sender-lock"} ELSE {})
  /\ UNCHANGED <<tasks, bg, closedF, shut, waited, tclosed, inbox, faults, started, shutdowns>>
TaskDone(p, l, nxt) ==
  /\ pc[p] = l /\ tasks' = tasks - 1 /\ Goto(p, nxt)
  /\ bad' = bad \cup (IF tasks <= 0 THEN {"negative-task-counter"} ELSE {})
  /\ UNCHANGED <<mu, snd, bg, closedF, shut, waited, tclosed, inbox, faults, started, shutdowns>>

\* ---- Conn.shutdown, entered with mu held at label sh1 by process p ----
Shutdown(p) ==
  \/ /\ pc[p] = "sh1" /\ Holds(p) /\ Unlock(p)         \* bgcancel(); cancel answers; mu.Unlock()
     /\ bg' = TRUE /\ shutdowns' = shutdowns + 1 /\ Goto(p, "sh2")
     /\ UNCHANGED <<snd, tasks, closedF, shut, waited, tclosed, inbox, faults, started, bad>>
  \/ /\ pc[p] = "sh2" /\ tasks = 0                      \* tasks.Wait()
     /\ waited' = TRUE /\ Goto(p, "sh3")
     /\ UNCHANGED <<mu, snd, tasks, bg, closedF, shut, tclosed, inbox, faults, started, shutdowns, bad>>
  \/ JustLock(p, "sh3", "sh4")                          \* clear the tables
  \/ JustUnlock(p, "sh4", "sh5")                        \* release exports, embargoes, answers without any lock
  \/ /\ pc[p] = "sh5" /\ SendRules /\ Goto(p, "sh6")    \* the Abort message, sent without the sender lock
     /\ UNCHANGED <<mu, snd, tasks, bg, closedF, shut, waited, tclosed, inbox, faults, started, shutdowns>>
  \/ /\ pc[p] = "sh6"                                   \* transport.Close(); close(c.shut)
     /\ tclosed' = TRUE /\ shut' = TRUE /\ Goto(p, "done")
     /\ bad' = bad \cup (IF snd THEN {"sender-lock-held-at-close"} ELSE {}) \cup (IF tasks # 0 THEN {"task-left-at-close"} ELSE {})
     /\ UNCHANGED <<mu, snd, tasks, bg, closedF, waited, inbox, faults, started, shutdowns>>

\* ---- the receive loop ----
Rx ==
  LET p == "rx" IN
  \/ /\ pc[p] = "rx_idle"
     /\ \/ /\ bg /\ Goto(p, "rx_exit") /\ UNCHANGED <<inbox, started>>                       \* RecvMessage(bgctx) fails
        \/ /\ ~bg /\ inbox > 0 /\ inbox' = inbox - 1 /\ UNCHANGED started
           /\ \E k \in {"rc1", "rf1", "rd1", "rx_exit"} : Goto(p, k)                            \* Call, Finish, duplicate Finish, protocol error / EOF
     /\ UNCHANGED <<mu, snd, tasks, bg, closedF, shut, waited, tclosed, faults, shutdowns, bad>>
  \* handleCall
  \/ JustLock(p, "rc1", "rc2")
  \/ TryLockSender(p, "rc2", "rc2w", "rc3", "rc_fail", FALSE)
  \/ JustUnlock(p, "rc_fail", "rx_idle")
  \/ JustUnlock(p, "rc3", "rc4")
  \/ /\ pc[p] = "rc4"                                                                          \* newReturn: transport.NewMessage
     /\ \/ Goto(p, "rc5") /\ UNCHANGED faults
        \/ MayFault /\ faults' = faults + 1 /\ Goto(p, "rc4f")
     /\ UNCHANGED <<mu, snd, tasks, bg, closedF, shut, waited, tclosed, inbox, started, shutdowns, bad>>
  \/ JustLock(p, "rc4f", "rc4g")
  \/ RelSender(p, "rc4g", "rx_idle", FALSE)
  \/ JustLock(p, "rc5", "rc6")
  \/ /\ pc[p] = "rc6" /\ Holds(p) /\ Unlock(p)                                                 \* tasks.Add(1); unlockSender(); mu.Unlock(); RecvCall
     /\ \E m \in M \ started : started' = started \cup {m} /\ pc' = [pc EXCEPT ![p] = "rx_idle", ![m] = "m_run"]
     /\ tasks' = tasks + 1 /\ snd' = FALSE
     /\ bad' = bad \cup (IF waited THEN {"task-added-after-wait"} ELSE {})
     /\ UNCHANGED <<bg, closedF, shut, waited, tclosed, inbox, faults, shutdowns>>
  \/ /\ pc[p] = "rc6" /\ Holds(p) /\ M \ started = {} /\ Goto(p, "rc4g")                       \* (model bound: no method left; behave like the failure path)
     /\ UNCHANGED <<mu, snd, tasks, bg, closedF, shut, waited, tclosed, inbox, faults, started, shutdowns, bad>>
  \* handleFinish of an answer whose Return was sent: destroy, lockSender under mu, releaseMsg
  \/ JustLock(p, "rf1", "rf2")
  \/ LockSender(p, "rf2", "rf2w", "rf3")
  \/ JustUnlock(p, "rf3", "rf4")
  \/ JustLock(p, "rf4", "rf5")
  \/ RelSender(p, "rf5", "rx_idle", FALSE)
  \* duplicate Finish: protocol error
  \/ JustLock(p, "rd1", "rd2")
  \/ IF Variant = "dupfinish"
     THEN /\ pc[p] = "rd2" /\ Goto(p, "rx_exit")
          /\ UNCHANGED <<mu, snd, tasks, bg, closedF, shut, waited, tclosed, inbox, faults, started, shutdowns, bad>>
     ELSE JustUnlock(p, "rd2", "rx_exit")
  \* after receive returned: tasks.Done(); mu.Lock(); shutdown unless someone else did
  \/ TaskDone(p, "rx_exit", "rx_post")
  \/ JustLock(p, "rx_post", "rx_post2")
  \/ /\ pc[p] = "rx_post2" /\ Holds(p)
     /\ IF bg THEN Unlock(p) /\ Goto(p, "done") ELSE Goto(p, "sh1") /\ UNCHANGED mu
     /\ UNCHANGED <<snd, tasks, bg, closedF, shut, waited, tclosed, inbox, faults, started, shutdowns, bad>>
  \/ Shutdown(p)

\* ---- a method goroutine: the body, then answer.Return ----
Method(p) ==
  \/ /\ pc[p] = "m_run" /\ Goto(p, "mr1")               \* the body returns (its context is cancelled by shutdown at the latest)
     /\ UNCHANGED <<mu, snd, tasks, bg, closedF, shut, waited, tclosed, inbox, faults, started, shutdowns, bad>>
  \/ JustLock(p, "mr1", "mr2")
  \/ LockSender(p, "mr2", "mr2w", "mr3")
  \/ /\ pc[p] = "mr3" /\ Holds(p)                       \* sendReturn: nothing is sent once bgctx is done
     /\ IF bg THEN Goto(p, "mr6") /\ UNCHANGED mu ELSE Unlock(p) /\ Goto(p, "mr4")
     /\ UNCHANGED <<snd, tasks, bg, closedF, shut, waited, tclosed, inbox, faults, started, shutdowns, bad>>
  \/ /\ pc[p] = "mr4" /\ SendRules /\ Goto(p, "mr5")    \* sendMsg()
     /\ UNCHANGED <<mu, snd, tasks, bg, closedF, shut, waited, tclosed, inbox, faults, started, shutdowns>>
  \/ JustLock(p, "mr5", "mr6")
  \/ /\ pc[p] = "mr6" /\ Holds(p)                       \* unlockSender(); did the Return fail (releaseExports error)?
     /\ snd' = FALSE
     /\ \/ Goto(p, "mr7") /\ UNCHANGED faults
        \/ MayFault /\ ~bg /\ faults' = faults + 1 /\ Goto(p, IF Variant = "selfwait" THEN "sh1" ELSE "mr_err")
     /\ bad' = bad \cup (IF ~snd THEN {"unlock-of-free-sender-lock"} ELSE {})
     /\ UNCHANGED <<mu, tasks, bg, closedF, shut, waited, tclosed, inbox, started, shutdowns>>
  \/ JustUnlock(p, "mr7", "mr8")
  \/ TaskDone(p, "mr8", "done")
  \* failed Return: tasks.Done(); mu.Unlock(); go func() { mu.Lock(); if !done { shutdown } }()
  \/ /\ pc[p] = "mr_err" /\ Holds(p) /\ Unlock(p)
     /\ tasks' = tasks - 1 /\ pc' = [pc EXCEPT ![p] = "done", !["sd"] = IF pc["sd"] = "off" THEN "sd1" ELSE pc["sd"]]
     /\ UNCHANGED <<snd, bg, closedF, shut, waited, tclosed, inbox, faults, started, shutdowns, bad>>
  \/ Shutdown(p)                                         \* only reachable in the "selfwait" variant

Sd ==
  LET p == "sd" IN
  \/ JustLock(p, "sd1", "sd2")
  \/ /\ pc[p] = "sd2" /\ Holds(p)
     /\ IF bg THEN Unlock(p) /\ Goto(p, "done") ELSE Goto(p, "sh1") /\ UNCHANGED mu
     /\ UNCHANGED <<snd, tasks, bg, closedF, shut, waited, tclosed, inbox, faults, started, shutdowns, bad>>
  \/ Shutdown(p)

\* ---- an application call: question.PipelineSend / importClient.Send ----
App(p) ==
  \/ JustLock(p, "a1", "a2")
  \/ /\ pc[p] = "a2" /\ Holds(p)                        \* startTask
     /\ IF bg THEN Unlock(p) /\ Goto(p, "done") /\ UNCHANGED <<tasks, bad>>
        ELSE /\ tasks' = tasks + 1 /\ Goto(p, "a3") /\ UNCHANGED mu
             /\ bad' = bad \cup (IF waited THEN {"task-added-after-wait"} ELSE {})
     /\ UNCHANGED <<snd, bg, closedF, shut, waited, tclosed, inbox, faults, started, shutdowns>>
  \/ TryLockSender(p, "a3", "a3w", "a4", "a_fail", TRUE)
  \/ JustUnlock(p, "a_fail", "a_done")
  \/ JustUnlock(p, "a4", "a5")
  \/ /\ pc[p] = "a5"                                    \* transport.NewMessage
     /\ \/ Goto(p, "a6") /\ UNCHANGED faults
        \/ MayFault /\ faults' = faults + 1 /\ Goto(p, "a5f")
     /\ UNCHANGED <<mu, snd, tasks, bg, closedF, shut, waited, tclosed, inbox, started, shutdowns, bad>>
  \/ JustLock(p, "a5f", "a5g")
  \/ RelSender(p, "a5g", "a_done", Variant = "nmleak")
  \/ JustLock(p, "a6", "a6b")
  \/ RelSender(p, "a6b", "a7", FALSE)                   \* neither lock may be held while PlaceArgs runs
  \/ JustLock(p, "a7", "a8")
  \/ LockSender(p, "a8", "a8w", "a9")
  \/ JustUnlock(p, "a9", "a10")
  \/ /\ pc[p] = "a10" /\ SendRules /\ Goto(p, "a11")    \* send()
     /\ UNCHANGED <<mu, snd, tasks, bg, closedF, shut, waited, tclosed, inbox, faults, started, shutdowns>>
  \/ JustLock(p, "a11", "a12")
  \/ RelSender(p, "a12", "a_done", FALSE)
  \/ TaskDone(p, "a_done", "done")

\* ---- Conn.Close ----
Close(p) ==
  \/ JustLock(p, "c1", "c2")
  \/ /\ pc[p] = "c2" /\ Holds(p)
     /\ IF closedF
        THEN /\ (IF Variant = "closelocked" THEN UNCHANGED mu ELSE Unlock(p)) /\ Goto(p, "done") /\ UNCHANGED closedF
        ELSE /\ closedF' = TRUE
             /\ IF bg THEN Unlock(p) /\ Goto(p, "c3") ELSE Goto(p, "sh1") /\ UNCHANGED mu
     /\ UNCHANGED <<snd, tasks, bg, shut, waited, tclosed, inbox, faults, started, shutdowns, bad>>
  \/ /\ pc[p] = "c3" /\ shut /\ Goto(p, "done")         \* <-c.shut
     /\ UNCHANGED <<mu, snd, tasks, bg, closedF, shut, waited, tclosed, inbox, faults, started, shutdowns, bad>>
  \/ Shutdown(p)

AllDone == \A p \in Proc : pc[p] \in {"done", "off"}
Finished == AllDone /\ UNCHANGED vars                   \* so that the final state is not a deadlock
Next == Rx \/ Sd \/ (\E p \in M : Method(p)) \/ (\E p \in A : App(p)) \/ (\E p \in C : Close(p)) \/ Finished
Spec == Init /\ [][Next]_vars
FairSpec == Spec /\ WF_vars(Rx) /\ WF_vars(Sd) /\ (\A p \in M : WF_vars(Method(p))) /\ (\A p \in A : WF_vars(App(p))) /\ (\A p \in C : WF_vars(Close(p)))

\* ---- properties ----
NoRuleBroken == bad = {}
OneShutdown == shutdowns <= 1
AtClose == tclosed => (~snd /\ tasks = 0)
WaitOrder == (tclosed => waited) /\ (waited => bg)
\* when nothing can run any more, the connection is shut and nothing is held
CleanEnd == AllDone => (mu = FREE /\ ~snd /\ tasks = 0 /\ shut /\ tclosed)
Termination == <>AllDone
=============================================================================
