------------------------------- MODULE RpcSync -------------------------------
(* Trace specification of the SYNCHRONISATION SKELETON of one rpc.Conn (C09).  *)
(* It is the projection of the implementation-shaped model RpcLocks.tla onto   *)
(* the variables that the verif build records (hook verifSync, one added line  *)
(* per site, in the same per-connection sequence as the wire messages):        *)
(*   snd      the sender lock (Conn.sendCond # nil)                            *)
(*   tasks    the counter of Conn.tasks (sync.WaitGroup)                       *)
(*   bg       Conn.bgctx cancelled (shutdown has begun)                        *)
(*   waited   shutdown's tasks.Wait() has returned                             *)
(*   tclosed  shutdown reached transport.Close()                               *)
(* Every invariant of RpcLocks over these variables is a precondition here:    *)
(*   S1  the sender lock is acquired only when free and released only when     *)
(*       held (mutual exclusion of everything that builds / sends a message);  *)
(*   S2  a message is sent only under the sender lock, or by shutdown itself   *)
(*       once it is the only task left (the Abort);                            *)
(*   S3  the task counter never goes below zero; no task is added and the      *)
(*       sender lock is not taken once shutdown's Wait has returned;           *)
(*   S4  shutdown happens at most once and in order: cancel, wait (only when   *)
(*       no task is left), close; nothing is sent after the transport closed;  *)
(*   S5  when the transport is closed the sender lock is free and no task is   *)
(*       left (a leaked lock or task would block the next user for good).      *)
(* The events of an execution are recorded under Conn.mu (sender lock, adds),  *)
(* before tasks.Done and after tasks.Wait, so their order is the order of the  *)
(* state changes (no wall clock involved).                                     *)
EXTENDS Integers, Sequences, TLC, Json

Tr == ndJsonDeserialize("rpcsync.ndjson")

VARIABLES l, snd, tasks, bg, waited, tclosed
vars == <<l, snd, tasks, bg, waited, tclosed>>

Init == l = 1 /\ snd = FALSE /\ tasks = 0 /\ bg = FALSE /\ waited = FALSE /\ tclosed = FALSE
E == Tr[l]
Ev(k) == l <= Len(Tr) /\ E.k = k /\ l' = l + 1

Reset   == Ev("reset") /\ snd' = FALSE /\ tasks' = 0 /\ bg' = FALSE /\ waited' = FALSE /\ tclosed' = FALSE
SndAcq  == Ev("snd-acq") /\ ~snd /\ ~waited /\ snd' = TRUE /\ UNCHANGED <<tasks, bg, waited, tclosed>>
SndRel  == Ev("snd-rel") /\ snd /\ snd' = FALSE /\ UNCHANGED <<tasks, bg, waited, tclosed>>
Send    == Ev("send") /\ (snd \/ waited) /\ ~tclosed /\ UNCHANGED <<snd, tasks, bg, waited, tclosed>>
TaskAdd == Ev("task-add") /\ ~waited /\ tasks' = tasks + 1 /\ UNCHANGED <<snd, bg, waited, tclosed>>
TaskDone == Ev("task-done") /\ tasks > 0 /\ tasks' = tasks - 1 /\ UNCHANGED <<snd, bg, waited, tclosed>>
BgCancel == Ev("bg-cancel") /\ ~bg /\ bg' = TRUE /\ UNCHANGED <<snd, tasks, waited, tclosed>>
Waited  == Ev("tasks-waited") /\ bg /\ ~waited /\ tasks = 0 /\ waited' = TRUE /\ UNCHANGED <<snd, tasks, bg, tclosed>>
TClose  == Ev("tclose") /\ waited /\ ~tclosed /\ ~snd /\ tasks = 0 /\ tclosed' = TRUE /\ UNCHANGED <<snd, tasks, bg, waited>>
\* appended by the pipeline to an execution whose connection was closed and whose process went on: nothing may have moved since
End     == Ev("end") /\ (tclosed => ~snd /\ tasks = 0) /\ UNCHANGED <<snd, tasks, bg, waited, tclosed>>

Next == Reset \/ SndAcq \/ SndRel \/ Send \/ TaskAdd \/ TaskDone \/ BgCancel \/ Waited \/ TClose \/ End
Spec == Init /\ [][Next]_vars

ASSUME TLCSet(1, 0)
HighWater == TLCSet(1, IF l > TLCGet(1) THEN l ELSE TLCGet(1))
Accepted == IF TLCGet(1) = Len(Tr) + 1 THEN TRUE ELSE Print(<<"REJECTED_AT_LINE", TLCGet(1)>>, FALSE)
=============================================================================
