------------------------------ MODULE RpcTrace ------------------------------
(* Trace specification of one vat's RPC connection (C06, C07; reused by C08,  *)
(* C09).  The event log of an execution (rpctrace.ndjson) holds every         *)
(* protocol message in both directions ("recv" = from the peer to the         *)
(* connection, "send" = from the connection to the peer), the application's   *)
(* events (a method body started / returned, a local call resolved, a local   *)
(* reference created / released, Shutdown of an instrumented capability) and  *)
(* the harness markers quiesce / close / end.  Everything the spec needs is   *)
(* derived from the wire history, as rpc.capnp prescribes:                    *)
(*                                                                            *)
(*  answers    an answer id is opened by a received Bootstrap / Call; exactly *)
(*             one Return carries it, with the result (or exception) that the *)
(*             target's method body produced;                                 *)
(*  order      method bodies of one capability start in the wire order of the *)
(*             calls addressed to it (directly, pipelined, before or after    *)
(*             the answer returned);                                          *)
(*  questions  an id chosen by the connection is not reused until its Finish  *)
(*             was sent; each local call resolves once, with the peer's       *)
(*             Return;                                                        *)
(*  exports    wire count of export e = descriptors sent - Release counts -   *)
(*             counts dropped by Finish(releaseResultCaps); an instrumented   *)
(*             capability is shut down exactly when nothing holds it any more *)
(*             (the connection's bootstrap reference, an unfinished answer's  *)
(*             result table, an export with positive wire count) - never      *)
(*             earlier, and by the next quiescent point at the latest;        *)
(*  imports    one Release per generation with exactly the number of          *)
(*             descriptors received, once the last local reference is gone;   *)
(*  close      after Close returned everything was shut down exactly once.    *)
EXTENDS Integers, Sequences, FiniteSets, TLC, Json

Tr == ndJsonDeserialize("rpctrace.ndjson")
Ids == 0..31

VARIABLES l,
          ans,      \* answer id -> [st, kind, tag, cap, exps, fin]   st: "free" | "open" | "returned"
          exp,      \* export id -> [cap, wire]                       cap = "" when free
          qst,      \* question id -> "free" | "open" | "returned"
          qtag,     \* question id -> tag of the local call (or -1)
          qrel,     \* question id -> the Finish sent for it asked the peer to release the result capabilities
          imp,      \* import id -> descriptors received and not yet released
          lh,       \* set of <<handle, import id>>: live local references to imports
          started,  \* sequence of <<cap, tag>>: method bodies in start order
          callseq,  \* sequence of tags: received calls in wire order
          appret,   \* set of <<tag, kind, cap>>: what method bodies returned
          shut,     \* sequence of capability names shut down (bag)
          caps,     \* capabilities created so far
          lres,     \* set of <<tag, kind>>: local call results
          pret,     \* set of <<question id, kind, tag>>: peer returns received
          closed, aborted,
          emb       \* embargo bookkeeping (see the section "ordering across promise resolution")
vars == <<l, ans, exp, qst, qtag, qrel, imp, lh, started, callseq, appret, shut, caps, lres, pret, closed, aborted, emb>>

FreeAns == [st |-> "free", kind |-> "", tag |-> 0 - 1, cap |-> "", exps |-> <<>>, fin |-> FALSE, rel |-> FALSE, imp |-> 0 - 1]
\* emb: lseq    local pipelined calls in issue order, <<tag of the call they are pipelined on, tag>>
\*      out     embargoes the connection announced (Disembargo senderLoopback sent, echo not yet received): <<embargo id, stream tag>>
\*      held    tags of local calls made while their stream was under embargo (must not be delivered before the echo)
\*      ptgt    received calls addressed to a promised answer: <<tag, answer id>>
\*      fwd     tags of received calls the connection forwarded to an import, in send order
\*      fwdres  what the peer answered to forwarded calls: <<tag, kind, result tag>>
\*      req     Disembargo senderLoopback received and not yet echoed: <<embargo id, answer id, tags that must be forwarded first>>
\*      conc    pairs <<t1, t2>>: local call t1 was being held back when t2 was made (the two were made concurrently, SendCall of t1
\*              had not returned): no order is defined between them
\*      lcap    <<tag, capability>>: local calls whose parameters carry a capability of this vat
\*      lcancel tags of local calls whose caller cancelled its context
\*      qpar    <<question id, export id>>: exports created / referenced by the parameters of an open question (a bag would be needed for
\*              several descriptors of one export in one call; the scripts put one capability in a call)
\*      ptgt    (third component: the path, "" = the result itself, "f0" = its pointer field 0)
\*      etgt    received calls addressed to an export: <<tag, export id>>
\*      tight   the script runs with an answer queue of one entry (calls over the limit may be refused: server.Policy)
FreeEmb == [lseq |-> <<>>, out |-> {}, held |-> {}, ptgt |-> {}, fwd |-> <<>>, fwdres |-> {}, req |-> {}, conc |-> {}, lcap |-> {}, qpar |-> {}, lcancel |-> {},
            etgt |-> {}, tight |-> FALSE]
Fresh == /\ ans = [i \in Ids |-> FreeAns] /\ exp = [i \in Ids |-> [cap |-> "", wire |-> 0]]
         /\ qst = [i \in Ids |-> "free"] /\ qtag = [i \in Ids |-> 0 - 1] /\ qrel = [i \in Ids |-> FALSE] /\ imp = [i \in Ids |-> 0] /\ lh = {}
         /\ started = <<>> /\ callseq = <<>> /\ appret = {} /\ shut = <<>> /\ caps = {"B"} /\ lres = {} /\ pret = {}
         /\ closed = FALSE /\ aborted = FALSE /\ emb = FreeEmb
Init == l = 1 /\ Fresh

E == Tr[l]
Ev(e) == l <= Len(Tr) /\ Tr[l].ev = e
Msg(d, m) == Ev("msg") /\ E.dir = d /\ E.m = m
Consume == l' = l + 1
Range(s) == { s[i] : i \in 1..Len(s) }
Count(s, x) == Cardinality({ i \in 1..Len(s) : s[i] = x })
Pos(s, x) == CHOOSE i \in 1..Len(s) : s[i] = x
SenderHosted(cs) == { cs[i][2] : i \in { j \in 1..Len(cs) : cs[j][1] \in {"senderHosted", "senderPromise"} } }
ExpSeq(cs) == SelectSeq(cs, LAMBDA d : d[1] \in {"senderHosted", "senderPromise"})

\* who holds capability k: the connection itself (bootstrap), unfinished answers that returned it, live exports
Holders(k) == (IF k = "B" /\ ~closed THEN {<<"conn", 0>>} ELSE {})
              \cup { <<"ans", i>> : i \in { j \in Ids : ans[j].st = "returned" /\ ~ans[j].fin /\ ans[j].cap = k } }
              \cup { <<"ans", i>> : i \in { j \in Ids : ans[j].st = "open" /\ ans[j].cap = k } }
              \cup { <<"exp", i>> : i \in { j \in Ids : exp[j].cap = k /\ exp[j].wire > 0 } }
Keep(vs) == UNCHANGED vs

Reset == /\ Ev("reset") /\ Consume
         /\ ans' = [i \in Ids |-> FreeAns] /\ exp' = [i \in Ids |-> [cap |-> "", wire |-> 0]]
         /\ qst' = [i \in Ids |-> "free"] /\ qtag' = [i \in Ids |-> 0 - 1] /\ qrel' = [i \in Ids |-> FALSE] /\ imp' = [i \in Ids |-> 0] /\ lh' = {}
         /\ started' = <<>> /\ callseq' = <<>> /\ appret' = {} /\ shut' = <<>> /\ caps' = {"B"} /\ lres' = {} /\ pret' = {}
         /\ closed' = FALSE /\ aborted' = FALSE /\ emb' = FreeEmb

\* ---------------- peer -> connection ----------------
RecvBootstrap == /\ Msg("recv", "bootstrap") /\ Consume
                 /\ ans' = [ans EXCEPT ![E.q] = [FreeAns EXCEPT !.st = "open", !.kind = "bootstrap"]]
                 /\ Keep(<<exp, qst, qtag, qrel, imp, lh, started, callseq, appret, shut, caps, lres, pret, closed, aborted, emb>>)
RecvCall == /\ Msg("recv", "call") /\ Consume
            /\ ans' = [ans EXCEPT ![E.q] = [FreeAns EXCEPT !.st = "open", !.kind = "call", !.tag = E.tag]]
            /\ callseq' = Append(callseq, E.tag)
            /\ imp' = [i \in Ids |-> imp[i] + Count([j \in 1..Len(E.caps) |-> IF E.caps[j][1] \in {"senderHosted", "senderPromise"} THEN E.caps[j][2] ELSE 0 - 1], i)]
            /\ emb' = IF E.tgt = "ans" THEN [emb EXCEPT !.ptgt = @ \cup {<<E.tag, E.on, E.path>>}]
                       ELSE IF E.tgt = "imp" THEN [emb EXCEPT !.etgt = @ \cup {<<E.tag, E.e>>}] ELSE emb
            /\ Keep(<<exp, qst, qtag, qrel, lh, started, appret, shut, caps, lres, pret, closed, aborted>>)
\* Finish: the answer's result table is dropped; with releaseResultCaps the exports it carried lose those references
RecvFinish == /\ Msg("recv", "finish") /\ Consume
              /\ LET a == ans[E.q] IN
                 /\ ans' = [ans EXCEPT ![E.q].fin = TRUE, ![E.q].rel = E.rel]
                 /\ exp' = IF E.rel /\ a.st = "returned"
                           THEN [i \in Ids |-> IF exp[i].cap # "" /\ Count(a.exps, i) > 0
                                               THEN (IF exp[i].wire - Count(a.exps, i) <= 0 THEN [cap |-> exp[i].cap, wire |-> 0]
                                                     ELSE [exp[i] EXCEPT !.wire = @ - Count(a.exps, i)])
                                               ELSE exp[i]]
                           ELSE exp
              /\ Keep(<<qst, qtag, qrel, imp, lh, started, callseq, appret, shut, caps, lres, pret, closed, aborted, emb>>)
RecvRelease == /\ Msg("recv", "release") /\ Consume
               /\ exp' = [exp EXCEPT ![E.e].wire = IF @ - E.n < 0 THEN 0 ELSE @ - E.n]
               /\ Keep(<<ans, qst, qtag, qrel, imp, lh, started, callseq, appret, shut, caps, lres, pret, closed, aborted, emb>>)
\* the peer answers a question of the connection
RecvReturn == /\ Msg("recv", "return") /\ Consume
              /\ qst[E.q] \in {"open", "canceled"}
              /\ qst' = [qst EXCEPT ![E.q] = IF qst[E.q] = "open" THEN "returned" ELSE "free"]     \* canceled: Finish already sent
              /\ pret' = pret \cup {<<E.q, E.kind, E.tag>>}
              \* capabilities in a Return that answers a question cancelled with releaseResultCaps are released by the peer itself
              /\ imp' = IF qst[E.q] = "canceled" /\ qrel[E.q] THEN imp
                         ELSE [i \in Ids |-> imp[i] + Count([j \in 1..Len(E.caps) |-> IF E.caps[j][1] \in {"senderHosted", "senderPromise"} THEN E.caps[j][2] ELSE 0 - 1], i)]
              /\ emb' = [(IF qtag[E.q] \in Range(emb.fwd) THEN [emb EXCEPT !.fwdres = @ \cup {<<qtag[E.q], E.kind, E.tag>>}] ELSE emb)
                           EXCEPT !.qpar = { x \in @ : x[1] # E.q }]
              \* releaseParamCaps: the peer gives back the references it received in the parameters of this question
              /\ exp' = IF E.rel
                         THEN [i \in Ids |-> IF <<E.q, i>> \in emb.qpar /\ exp[i].wire > 0 THEN [exp[i] EXCEPT !.wire = @ - 1] ELSE exp[i]]
                         ELSE exp
              /\ Keep(<<ans, qtag, qrel, lh, started, callseq, appret, shut, caps, lres, closed, aborted>>)
\* Disembargo from the peer.  senderLoopback: the peer asks for the echo behind everything pipelined on that answer so far.
\* receiverLoopback: the echo of an embargo the connection announced - the embargo is over.
RecvDisembargo ==
  /\ Msg("recv", "disembargo") /\ Consume
  /\ IF E.kind = "senderLoopback"
     THEN emb' = [emb EXCEPT !.req = @ \cup {<<E.n, E.on, { x[1] : x \in { y \in emb.ptgt : y[2] = E.on } }>>}]
     ELSE emb' = [emb EXCEPT !.out = { x \in @ : x[1] # E.n },
                             !.held = IF \E x \in emb.out : x[1] = E.n
                                      THEN LET st == (CHOOSE x \in emb.out : x[1] = E.n)[2] IN
                                           { t \in @ : ~\E i \in 1..Len(emb.lseq) : emb.lseq[i] = <<st, t>> }
                                      ELSE @]
  /\ Keep(<<ans, exp, qst, qtag, qrel, imp, lh, started, callseq, appret, shut, caps, lres, pret, closed, aborted>>)
RecvOther == /\ Ev("msg") /\ E.dir = "recv" /\ E.m \notin {"bootstrap", "call", "finish", "release", "return", "disembargo"} /\ Consume
             /\ Keep(<<ans, exp, qst, qtag, qrel, imp, lh, started, callseq, appret, shut, caps, lres, pret, closed, aborted, emb>>)

\* ---------------- connection -> peer ----------------
\* Return: exactly one per answer, carrying its id, with the result the method body produced
SendReturn ==
  /\ Msg("send", "return") /\ Consume
  /\ LET a == ans[E.q] IN
     /\ a.st = "open"                                                     \* known answer, not returned before
     /\ IF a.kind = "bootstrap"
        THEN /\ E.kind = "results" /\ Len(ExpSeq(E.caps)) = 1                \* the bootstrap capability
             /\ LET x == ExpSeq(E.caps)[1][2] IN
                /\ (exp[x].wire > 0 => exp[x].cap = "B")
                /\ exp' = [exp EXCEPT ![x] = [cap |-> "B", wire |-> (IF exp[x].cap = "B" THEN exp[x].wire ELSE 0) + (IF a.fin /\ a.rel THEN 0 ELSE 1)]]
                /\ ans' = [ans EXCEPT ![E.q].st = "returned", ![E.q].cap = "B", ![E.q].exps = <<x>>]
        ELSE \E r \in appret :
             /\ r[1] = a.tag                                                 \* the body of this very call returned ...
             /\ (r[2] = "ok" => E.kind = "results" /\ E.tag = a.tag)         \* ... and this is its result
             /\ (r[2] = "err" => E.kind = "exception")
             /\ IF r[2] = "ok" /\ r[3] # ""
                THEN /\ Len(ExpSeq(E.caps)) = 1
                     /\ LET x == ExpSeq(E.caps)[1][2] IN
                        /\ (exp[x].wire > 0 => exp[x].cap = r[3])            \* an id in use is not given to another capability
                        /\ exp' = [exp EXCEPT ![x] = [cap |-> r[3], wire |-> (IF exp[x].cap = r[3] THEN exp[x].wire ELSE 0) + (IF a.fin /\ a.rel THEN 0 ELSE 1)]]
                        /\ ans' = [ans EXCEPT ![E.q].st = "returned", ![E.q].cap = r[3], ![E.q].exps = <<x>>]
                ELSE /\ Len(ExpSeq(E.caps)) = 0
                     \* a result that is a capability of the peer goes back as receiverHosted with its import id
                     /\ (r[2] = "ok" /\ r[4] >= 0 => E.caps = << <<"receiverHosted", r[4]>> >>)
                     /\ exp' = exp
                     /\ ans' = [ans EXCEPT ![E.q].st = "returned", ![E.q].imp = IF r[2] = "ok" THEN r[4] ELSE 0 - 1]
  /\ Keep(<<qst, qtag, qrel, imp, lh, started, callseq, appret, shut, caps, lres, pret, closed, aborted, emb>>)
\* an exception Return for a call that never reached a method body (unknown target, failed pipelined target ...)
\* - but not for a call that can be delivered: its target is a capability this vat holds for the peer (the bootstrap capability
\* through its unfinished answer, the capability in the result of an unfinished answer that returned one, a live export) and
\* neither the call nor its target answer was finished, the connection is up and no answer-queue limit is in play
Deliverable(q) ==
  LET a == ans[q] IN
  /\ ~closed /\ ~aborted /\ ~emb.tight /\ ~a.fin
  /\ \/ \E x \in emb.ptgt : /\ x[1] = a.tag
                             /\ LET t == ans[x[2]] IN
                                /\ ~t.fin /\ t.st # "free"
                                /\ \/ t.kind = "bootstrap" /\ x[3] = ""
                                   \/ t.kind = "call" /\ x[3] = "f0" /\ \E r \in appret : r[1] = t.tag /\ r[2] = "ok" /\ r[3] # ""
     \/ \E y \in emb.etgt : y[1] = a.tag /\ exp[y[2]].cap # "" /\ exp[y[2]].wire > 0
SendReturnNoBody ==
  /\ Msg("send", "return") /\ Consume
  /\ ans[E.q].st = "open" /\ ans[E.q].kind = "call" /\ E.kind = "exception"
  /\ ~\E s \in Range(started) : s[2] = ans[E.q].tag
  /\ ~Deliverable(E.q)
  /\ ans' = [ans EXCEPT ![E.q].st = "returned"]
  /\ UNCHANGED emb
  /\ Keep(<<exp, qst, qtag, qrel, imp, lh, started, callseq, appret, shut, caps, lres, pret, closed, aborted>>)
\* the Return of a call that was forwarded to a capability of the peer carries what the peer answered
SendReturnForwarded ==
  /\ Msg("send", "return") /\ Consume
  /\ ans[E.q].st = "open" /\ ans[E.q].kind = "call" /\ ans[E.q].tag \in Range(emb.fwd)
  /\ \E r \in emb.fwdres : /\ r[1] = ans[E.q].tag
                            /\ \/ r[2] = "results" /\ E.kind = "results" /\ E.tag = r[3]
                               \/ r[2] = "exception" /\ E.kind = "exception"
  /\ ans' = [ans EXCEPT ![E.q].st = "returned"]
  /\ Keep(<<exp, qst, qtag, qrel, imp, lh, started, callseq, appret, shut, caps, lres, pret, closed, aborted, emb>>)

\* a question id is not reused before its Finish was sent
SendQuestion == /\ (Msg("send", "bootstrap") \/ Msg("send", "call")) /\ Consume
                /\ qst[E.q] = "free"
                /\ qst' = [qst EXCEPT ![E.q] = "open"] /\ qtag' = [qtag EXCEPT ![E.q] = E.tag]
                \* a received call passed on to an import: at most once, and calls pipelined on one answer keep their wire order
                /\ IF E.m = "call" /\ E.tgt = "imp" /\ E.tag \in Range(callseq)
                   THEN /\ E.tag \notin Range(emb.fwd)
                        /\ \A x \in emb.ptgt : \A y \in emb.ptgt :
                              (x[1] = E.tag /\ y[2] = x[2] /\ y[1] \in Range(emb.fwd)) => Pos(callseq, y[1]) < Pos(callseq, E.tag)
                        /\ emb' = [emb EXCEPT !.fwd = Append(@, E.tag)]
                   ELSE IF E.m = "call" /\ Len(ExpSeq(E.caps)) > 0
                   THEN emb' = [emb EXCEPT !.qpar = @ \cup {<<E.q, ExpSeq(E.caps)[1][2]>>}]
                   ELSE emb' = emb
                \* a capability of this vat in the parameters: one senderHosted descriptor, its export gains a wire reference
                /\ IF E.m = "call" /\ \E x \in emb.lcap : x[1] = E.tag
                   THEN LET k == (CHOOSE x \in emb.lcap : x[1] = E.tag)[2] IN
                        /\ Len(ExpSeq(E.caps)) = 1
                        /\ LET x == ExpSeq(E.caps)[1][2] IN
                           /\ (exp[x].wire > 0 => exp[x].cap = k)
                           /\ exp' = [exp EXCEPT ![x] = [cap |-> k, wire |-> (IF exp[x].cap = k THEN exp[x].wire ELSE 0) + 1]]
                   ELSE exp' = exp
                /\ Keep(<<ans, qrel, imp, lh, started, callseq, appret, shut, caps, lres, pret, closed, aborted>>)
SendFinish == /\ Msg("send", "finish") /\ Consume
              /\ qst[E.q] \in {"open", "returned"}
              \* a Finish sent before the Return (cancellation): the id stays in use until the Return arrives
              /\ qst' = [qst EXCEPT ![E.q] = IF qst[E.q] = "returned" THEN "free" ELSE "canceled"]
              /\ qrel' = [qrel EXCEPT ![E.q] = E.rel]
              /\ Keep(<<ans, exp, qtag, imp, lh, started, callseq, appret, shut, caps, lres, pret, closed, aborted, emb>>)
\* Release of an import: no local reference left, and exactly the number of descriptors received
SendRelease == /\ Msg("send", "release") /\ Consume
               /\ E.n = imp[E.e] /\ E.n > 0
               /\ ~\E x \in lh : x[2] = E.e
               /\ imp' = [imp EXCEPT ![E.e] = 0]
               /\ Keep(<<ans, exp, qst, qtag, qrel, lh, started, callseq, appret, shut, caps, lres, pret, closed, aborted, emb>>)
\* the connection gives up only when the application closes it (well-formed peers, no transport faults in these scripts)
SendAbort == /\ Msg("send", "abort") /\ Consume /\ closed /\ aborted' = TRUE
             /\ Keep(<<ans, exp, qst, qtag, qrel, imp, lh, started, callseq, appret, shut, caps, lres, pret, closed, emb>>)
\* Disembargo senderLoopback: the connection announces an embargo on a result it has pipelined on; the promised answer it names
\* must still be addressable by the peer (Return received, Finish not yet sent)
SendDisembargoSender ==
  /\ Msg("send", "disembargo") /\ E.kind = "senderLoopback" /\ Consume
  /\ E.tgt = "ans" /\ qst[E.on] = "returned"
  /\ emb' = [emb EXCEPT !.out = @ \cup {<<E.n, qtag[E.on]>>}]
  /\ Keep(<<ans, exp, qst, qtag, qrel, imp, lh, started, callseq, appret, shut, caps, lres, pret, closed, aborted>>)
\* Disembargo receiverLoopback: the echo the peer asked for - with its id, addressed to the import the answer resolved to, and
\* behind every call that was pipelined on that answer before the request
SendDisembargoEcho ==
  /\ Msg("send", "disembargo") /\ E.kind = "receiverLoopback" /\ Consume
  /\ \E d \in emb.req : /\ d[1] = E.n
                         /\ E.tgt = "imp" /\ ans[d[2]].st = "returned" /\ ans[d[2]].imp = E.e
                         /\ d[3] \subseteq Range(emb.fwd)
                         /\ emb' = [emb EXCEPT !.req = @ \ {d}]
  /\ Keep(<<ans, exp, qst, qtag, qrel, imp, lh, started, callseq, appret, shut, caps, lres, pret, closed, aborted>>)
SendOther == /\ Ev("msg") /\ E.dir = "send" /\ E.m \in {"unimplemented"} /\ Consume
             /\ Keep(<<ans, exp, qst, qtag, qrel, imp, lh, started, callseq, appret, shut, caps, lres, pret, closed, aborted, emb>>)

\* ---------------- application ----------------
\* a method body starts: for a received call, at most once, and in wire order per capability
LTags == { emb.lseq[i][2] : i \in 1..Len(emb.lseq) }
Resolved(t) == \E r \in lres : r[1] = t
AppStart == /\ Ev("app-start") /\ Consume
            /\ E.tag \in Range(callseq) \cup LTags                        \* a call that was received, or made locally on a pipeline
            /\ ~\E s \in Range(started) : s[2] = E.tag                      \* delivered at most once
            /\ E.cap \in caps
            \* every call that was received earlier and was delivered to the same capability started earlier:
            \* i.e. no later-received call of this capability has started yet
            /\ E.tag \in Range(callseq) =>
                 \A s \in Range(started) : (s[1] = E.cap /\ s[2] \in Range(callseq)) => Pos(callseq, s[2]) < Pos(callseq, E.tag)
            \* ordering across promise resolution: calls made on one pipeline are delivered in the order they were made
            \* (whether they travelled through the peer or were delivered locally), and none under embargo is delivered
            /\ E.tag \notin emb.held
            /\ \A i, j \in 1..Len(emb.lseq) :
                  (i < j /\ emb.lseq[j][2] = E.tag /\ emb.lseq[i][1] = emb.lseq[j][1] /\ <<emb.lseq[i][2], E.tag>> \notin emb.conc) =>
                     ((\E s \in Range(started) : s[2] = emb.lseq[i][2]) \/ Resolved(emb.lseq[i][2]))
            /\ started' = Append(started, <<E.cap, E.tag>>)
            /\ Keep(<<ans, exp, qst, qtag, qrel, imp, lh, callseq, appret, shut, caps, lres, pret, closed, aborted, emb>>)
AppReturn == /\ Ev("app-return") /\ Consume
             /\ appret' = appret \cup {<<E.tag, E.kind, E.cap, E.e>>}
             /\ caps' = IF E.cap # "" THEN caps \cup {E.cap} ELSE caps
             \* the new capability is held by the answer from now on
             \* (a connection that is closing keeps nothing: results produced after Close are dropped at once)
             /\ ans' = [i \in Ids |-> IF ans[i].st = "open" /\ ans[i].kind = "call" /\ ans[i].tag = E.tag /\ E.cap # "" /\ ~closed
                                      THEN [ans[i] EXCEPT !.cap = E.cap] ELSE ans[i]]
             /\ Keep(<<exp, qst, qtag, qrel, imp, lh, started, callseq, shut, lres, pret, closed, aborted, emb>>)
\* Shutdown of an instrumented capability: at most once and only when nothing holds it
Shutdown == /\ Ev("shutdown") /\ Consume
            /\ E.cap \in caps /\ E.cap \notin Range(shut)
            /\ Holders(E.cap) = {}
            /\ shut' = Append(shut, E.cap)
            /\ Keep(<<ans, exp, qst, qtag, qrel, imp, lh, started, callseq, appret, caps, lres, pret, closed, aborted, emb>>)
\* local references to imports
\* the application obtained a reference to import e (bootstrap result, call result, call parameter) / dropped it
LHandle == /\ Ev("l-handle") /\ Consume
           /\ lh' = IF E.e >= 0 THEN lh \cup {<<E.h, E.e>>} ELSE lh
           /\ Keep(<<ans, exp, qst, qtag, qrel, imp, started, callseq, appret, shut, caps, lres, pret, closed, aborted, emb>>)
LRelease == /\ Ev("l-release") /\ Consume
            /\ lh' = { x \in lh : x[1] # E.h }
            /\ Keep(<<ans, exp, qst, qtag, qrel, imp, started, callseq, appret, shut, caps, lres, pret, closed, aborted, emb>>)
\* the application makes a call on a pipeline (field 0 of the result of local call E.on); if that stream is under embargo the
\* call is held until the echo arrives
LPCall == /\ Ev("l-pcall") /\ Consume
          /\ emb' = [emb EXCEPT !.lseq = Append(@, <<E.on, E.tag>>),
                                 !.held = IF \E x \in emb.out : x[2] = E.on THEN @ \cup {E.tag} ELSE @,
                                 !.conc = @ \cup { <<t, E.tag>> : t \in emb.held }]
          /\ Keep(<<ans, exp, qst, qtag, qrel, imp, lh, started, callseq, appret, shut, caps, lres, pret, closed, aborted>>)
LocalResult == /\ Ev("l-result") /\ Consume
               /\ (E.tag \in LTags /\ E.kind = "ok") => E.n = E.tag        \* every method body answers with its call's tag
               /\ ~\E r \in lres : r[1] = E.tag                             \* resolves at most once
               \* with the peer's result, if the peer answered
               \* (a call its caller cancelled may fail with the cancellation even though the peer's Return arrived meanwhile)
               /\ (E.tag \notin emb.lcancel /\ \E q \in Ids : qtag[q] = E.tag /\ \E p \in pret : p[1] = q /\ p[3] = E.tag) =>
                     (\E p \in pret : p[3] = E.tag /\ ((p[2] = "results" /\ E.kind = "ok" /\ E.n = E.tag) \/ (p[2] = "exception" /\ E.kind = "err")))
               /\ lres' = lres \cup {<<E.tag, E.kind>>}
               /\ Keep(<<ans, exp, qst, qtag, qrel, imp, lh, started, callseq, appret, shut, caps, pret, closed, aborted, emb>>)
\* Close was invoked: from now on the connection drops everything it holds (the bootstrap capability, result tables, exports)
CloseInvoked == /\ Ev("close") /\ Consume /\ closed' = TRUE
                /\ ans' = [i \in Ids |-> [ans[i] EXCEPT !.fin = TRUE, !.cap = IF ans[i].st = "open" THEN "" ELSE ans[i].cap]]
                /\ exp' = [i \in Ids |-> [exp[i] EXCEPT !.wire = 0]]
                /\ Keep(<<qst, qtag, qrel, imp, lh, started, callseq, appret, shut, caps, lres, pret, aborted, emb>>)
\* a local call whose parameters carry a new capability of this vat
LCallCap == /\ Ev("l-call") /\ E.cap # "" /\ Consume
            /\ caps' = caps \cup {E.cap}
            /\ emb' = [emb EXCEPT !.lcap = @ \cup {<<E.tag, E.cap>>}]
            /\ Keep(<<ans, exp, qst, qtag, qrel, imp, lh, started, callseq, appret, shut, lres, pret, closed, aborted>>)
\* the caller of local call E.tag cancels its context
LCancel == /\ Ev("l-cancel") /\ Consume /\ emb' = [emb EXCEPT !.lcancel = @ \cup {E.tag}]
           /\ Keep(<<ans, exp, qst, qtag, qrel, imp, lh, started, callseq, appret, shut, caps, lres, pret, closed, aborted>>)
Policy == /\ Ev("policy") /\ Consume /\ emb' = [emb EXCEPT !.tight = TRUE]
          /\ Keep(<<ans, exp, qst, qtag, qrel, imp, lh, started, callseq, appret, shut, caps, lres, pret, closed, aborted>>)
\* an error report that blames the peer: the peers of these scripts are well formed, so there is none while the connection is open
Reported == /\ Ev("reported") /\ Consume
            /\ (E.kind = "blames-peer" => closed)
            /\ Keep(<<ans, exp, qst, qtag, qrel, imp, lh, started, callseq, appret, shut, caps, lres, pret, closed, aborted, emb>>)
Passive == /\ (Ev("l-bootstrap") \/ (Ev("l-call") /\ E.cap = "") \/ Ev("app-cancelled") \/ Ev("fault")
               \/ Ev("transport-closed") \/ Ev("done") \/ Ev("end") \/ Ev("peer-deliver") \/ Ev("peer-echo") \/ Ev("view") \/ Ev("held") \/ Ev("hold-expired") \/ Ev("released"))
           /\ Consume
           /\ Keep(<<ans, exp, qst, qtag, qrel, imp, lh, started, callseq, appret, shut, caps, lres, pret, closed, aborted, emb>>)

\* quiescent point: every returned body has its Return on the wire, every answered question its Finish,
\* every capability nobody holds has been shut down
Quiesce == /\ Ev("quiesce") /\ Consume
           /\ (closed \/ aborted \/ \A i \in Ids : (ans[i].st = "open" /\ ans[i].kind = "call" /\ \E r \in appret : r[1] = ans[i].tag) => FALSE)
           /\ (closed \/ aborted \/ \A i \in Ids : ans[i].st = "open" => ans[i].kind = "call")       \* bootstraps are answered at once
           /\ (closed \/ aborted \/ \A i \in Ids : qst[i] # "returned")
           \* embargoes: every request was echoed, every announced embargo is over, every pipelined local call has resolved
           /\ (closed \/ aborted \/ (emb.req = {} /\ emb.out = {} /\ \A t \in LTags : Resolved(t)))
           /\ Keep(<<ans, exp, qst, qtag, qrel, imp, lh, started, callseq, appret, shut, caps, lres, pret, closed, aborted, emb>>)
\* the same quiescent point, obligations about references: every capability nobody holds has been shut down, every import
\* nobody references has been released
QuiesceRefs == /\ Ev("quiesce-refs") /\ Consume
               /\ \A k \in caps : Holders(k) = {} => k \in Range(shut)
               /\ (closed \/ aborted \/ \A i \in Ids : (imp[i] > 0 /\ ~\E x \in lh : x[2] = i) => FALSE)     \* (moot once the connection is gone)
               /\ Keep(<<ans, exp, qst, qtag, qrel, imp, lh, started, callseq, appret, shut, caps, lres, pret, closed, aborted, emb>>)
\* after Close returned everything the connection held has been released: every capability shut down exactly once
CloseReturned == /\ Ev("close-returned") /\ Consume
                 /\ \A k \in caps : Count(shut, k) = 1
                 /\ Keep(<<ans, exp, qst, qtag, qrel, imp, lh, started, callseq, appret, shut, caps, lres, pret, closed, aborted, emb>>)

Next == Reset \/ RecvBootstrap \/ RecvCall \/ RecvFinish \/ RecvRelease \/ RecvReturn \/ RecvDisembargo \/ RecvOther
        \/ SendReturn \/ SendReturnNoBody \/ SendReturnForwarded \/ SendQuestion \/ SendFinish \/ SendRelease \/ SendAbort
        \/ SendDisembargoSender \/ SendDisembargoEcho \/ SendOther \/ LPCall \/ LCallCap \/ Reported \/ Policy \/ LCancel
        \/ AppStart \/ AppReturn \/ Shutdown \/ CloseInvoked \/ LHandle \/ LRelease \/ LocalResult \/ Passive \/ Quiesce \/ QuiesceRefs \/ CloseReturned
Spec == Init /\ [][Next]_vars

ASSUME TLCSet(1, 0)
HighWater == TLCSet(1, IF l > TLCGet(1) THEN l ELSE TLCGet(1))
Accepted == IF TLCGet(1) = Len(Tr) + 1 THEN TRUE ELSE Print(<<"REJECTED_AT_LINE", TLCGet(1)>>, FALSE)
=============================================================================
