SPECIFICATION Spec
CONSTANTS
  Encodings = {"basic", "packed"}
  Levels = {"transport", "prealloc", "conn"}
  MaxAt = 7
  Ks = {0, 1, 3, 7, 99}
INVARIANT Emit
CHECK_DEADLOCK FALSE
