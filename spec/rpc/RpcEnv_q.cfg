SPECIFICATION Spec
CONSTANTS
  MaxLen = 6
  MaxCalls = 3
  WithLocal = FALSE
  WithClose = FALSE
INVARIANT Emit
CHECK_DEADLOCK FALSE
