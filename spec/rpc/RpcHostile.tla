------------------------------ MODULE RpcHostile ------------------------------
(* Scripts for C08: a well-formed prefix (taken from RpcEnv-style actions),    *)
(* then one hostile message, then a probe (a well-formed call and a local      *)
(* call, so that a wedged connection shows), then Close.  The hostile message  *)
(* kinds cover rpc.capnp's unions and id spaces: unknown / reused ids in every *)
(* message that carries one, capability descriptors that name nothing or use   *)
(* unsupported variants, unknown union members, null pointers where structs    *)
(* are required, unsupported Level 2+ messages.                                *)
EXTENDS Integers, Sequences, FiniteSets, TLC, Json

Act(a) == [a |-> a, q |-> 0 - 1, on |-> 0 - 1, exp |-> 0 - 1, n |-> 0, tag |-> 0 - 1, kind |-> "", rel |-> FALSE, h |-> "", cap |-> 0 - 1, k |-> 0]
Boot == [Act("p-bootstrap") EXCEPT !.q = 1]
Call1 == [Act("p-call") EXCEPT !.q = 2, !.on = 1, !.tag = 1, !.kind = "root"]
Call1c == [Act("p-call") EXCEPT !.q = 2, !.on = 1, !.tag = 1, !.kind = "root", !.cap = 5]
Ret1(k) == [Act("a-return") EXCEPT !.tag = 1, !.kind = k]
Fin(q, r) == [Act("p-finish") EXCEPT !.q = q, !.rel = r]
LBoot == [Act("l-bootstrap") EXCEPT !.h = "boot", !.cap = 9]
PRetBoot == [Act("p-return") EXCEPT !.q = 0, !.kind = "bootcap", !.cap = 9]
LCall(t) == [Act("l-call") EXCEPT !.h = "boot", !.tag = t]

Hold(m, q) == [Act("hold-send") EXCEPT !.kind = m, !.q = q]
\* the last prefix leaves the Return of answer 2 (a new capability in its result, the peer has already finished the question with
\* releaseResultCaps) inside the transport's send while the hostile message arrives; the driver lets it go afterwards
LCallC(t) == [Act("l-call") EXCEPT !.h = "boot", !.tag = t, !.kind = "cancellable"]
LCancel(t) == [Act("l-cancel") EXCEPT !.tag = t]
LPark(t) == [Act("l-call") EXCEPT !.h = "boot", !.tag = t, !.kind = "parkargs"]
Prefixes == { <<Boot, Call1, Fin(2, TRUE), Hold("return", 2), Ret1("ok-newcap")>>,
              \* a local call was cancelled and its Finish is still inside the transport's send when the next message arrives
              <<LBoot, PRetBoot, LCallC(101), Hold("finish", 0 - 1), LCancel(101)>>,
              \* an export was created and released again: its id is inside the table but names nothing
              <<Boot, Call1, Ret1("ok-newcap"), Fin(2, TRUE)>>,
              <<>>, <<Boot>>, <<Boot, Call1>>, <<Boot, Call1, Ret1("ok-newcap")>>, <<Boot, Call1c, Ret1("ok-nocap"), Fin(2, FALSE)>>,
              <<LBoot, PRetBoot>>, <<LBoot, PRetBoot, LCall(101)>>, <<Boot, LBoot, PRetBoot, Call1>>,
              \* a local call is parked while it builds its parameters: its question exists, its Call is not on the wire yet (the driver
              \* lets it go once the hostile message is in)
              <<LBoot, PRetBoot, LPark(101)>> }

H(kind, q, on, n) == [Act("p-raw") EXCEPT !.kind = kind, !.q = q, !.on = on, !.n = n]
Hostiles == { H("call-unknown-export", 7, 0 - 1, 77), H("call-unknown-answer", 7, 0 - 1, 77), H("call-reused-question", 1, 0 - 1, 0),
              H("call-reused-question", 2, 0 - 1, 0), H("bootstrap-reused-question", 1, 0 - 1, 0), H("bootstrap-reused-question", 2, 0 - 1, 0),
              H("call-bad-cap-receiverHosted", 7, 1, 77), H("call-bad-cap-receiverHosted", 7, 0 - 1, 77), H("call-bad-cap-receiverAnswer", 7, 1, 77),
              H("call-bad-cap-thirdParty", 7, 1, 0), H("call-bad-cap-unknown", 7, 1, 0),
              H("call-null-params", 7, 0 - 1, 0), H("call-null-target", 7, 0 - 1, 0), H("call-unknown-target-which", 7, 0 - 1, 0),
              H("call-transform-unknown-op", 7, 2, 0), H("call-transform-unknown-op", 7, 1, 0), H("sendresultsto-yourself", 7, 0 - 1, 0),
              H("finish-unknown", 0 - 1, 0 - 1, 77), H("finish-twice", 2, 0 - 1, 0), H("finish-twice", 1, 0 - 1, 0),
              H("release-unknown", 0 - 1, 0 - 1, 77), H("release-too-many", 0 - 1, 0 - 1, 0),
              H("return-unknown-question", 0 - 1, 0 - 1, 77), H("return-unknown-which", 0 - 1, 0 - 1, 0),
              H("disembargo-non-import", 2, 0 - 1, 0), H("disembargo-non-import", 1, 0 - 1, 0), H("disembargo-unknown-embargo", 0 - 1, 0 - 1, 77),
              H("disembargo-unknown-context", 0 - 1, 0 - 1, 0),
              H("resolve", 0 - 1, 0 - 1, 3), H("provide", 9, 0 - 1, 0), H("accept", 9, 0 - 1, 0), H("join", 9, 0 - 1, 0),
              H("unknown-message", 0 - 1, 0 - 1, 0), H("abort", 0 - 1, 0 - 1, 0), H("empty-message", 0 - 1, 0 - 1, 0),
              \* a call addressed to the answer it is itself asking for
              H("call-self-target", 7, 7, 0),
              \* a capability table whose first entry is a good new import and whose second entry is bad: the good one has to be dropped again
              H("call-cap-then-bad-cap", 7, 0 - 1, 77), H("call-cap-then-bad-cap", 7, 1, 77),
              \* a call that cannot be delivered (bad target) but carries a capability for a new import
              H("call-unknown-target-which-with-cap", 7, 0 - 1, 0), H("call-transform-unknown-op-with-cap", 7, 1, 0),
              H("call-unknown-export-with-cap", 7, 0 - 1, 77), H("call-unknown-answer-with-cap", 7, 0 - 1, 77),
              \* Returns the connection did not ask for / cannot parse, carrying capabilities
              H("return-unknown-question-with-cap", 0 - 1, 0 - 1, 77), H("return-cap-then-bad-cap", 0 - 1, 0 - 1, 77),
              \* Release of an export the peer holds no reference to (the one a Return in flight introduces)
              H("release-inflight-result-export", 2, 0 - 1, 0),
              \* descriptors / targets naming an export id that was in use and has been released (ids 1, 2)
              H("call-bad-cap-receiverHosted", 7, 1, 1), H("call-bad-cap-receiverHosted", 7, 0 - 1, 2), H("call-unknown-export", 7, 0 - 1, 1),
              H("release-unknown", 0 - 1, 0 - 1, 1),
              \* a Return for the question the connection opened last (late for a cancelled one, early or duplicate otherwise)
              H("return-last-question", 0 - 1, 0 - 1, 0), H("return-last-question-exception", 0 - 1, 0 - 1, 0),
              \* a Return for a question id the peer can predict (ids are reused lowest first) before it has seen the Call
              H("return-predicted-question", 0 - 1, 0 - 1, 0), H("return-predicted-question", 0 - 1, 0 - 1, 1),
              H("return-predicted-question-exception", 0 - 1, 0 - 1, 0), H("return-predicted-question-exception", 0 - 1, 0 - 1, 1) }

Probe == << [Act("p-call") EXCEPT !.q = 12, !.on = 1, !.tag = 50, !.kind = "root"], [Act("a-return") EXCEPT !.tag = 50, !.kind = "ok-nocap"],
            [Act("l-bootstrap") EXCEPT !.h = "boot2", !.cap = 9], [Act("l-call") EXCEPT !.h = "boot2", !.tag = 150] >>
Closes == { <<Act("close")>>, <<Act("close"), Act("close")>> }

VARIABLE done
Init == done = FALSE
Next == /\ ~done /\ done' = TRUE
        /\ \A p \in Prefixes, h \in Hostiles, c \in Closes :
             PrintT(<<"SCRIPT", ToJson(p \o <<h>> \o Probe \o c)>>)
Spec == Init /\ [][Next]_done
=============================================================================
