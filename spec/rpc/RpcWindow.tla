------------------------------ MODULE RpcWindow ------------------------------
(* Scripts for the windows inside the connection's own sends (C06, C07): a     *)
(* message the connection is writing is held inside the transport (hold-send:  *)
(* recorded, not yet "received" by the peer, sender lock held, connection      *)
(* mutex released), the well-formed peer or the local application acts, the    *)
(* message is let go (release-send), the scenario continues.  What the peer    *)
(* may do inside a window is what it may do before it has seen the held        *)
(* message.  Every combination is printed.                                     *)
EXTENDS Integers, Sequences, FiniteSets, TLC, Json

Act(a) == [a |-> a, q |-> 0 - 1, on |-> 0 - 1, exp |-> 0 - 1, n |-> 0, tag |-> 0 - 1, kind |-> "", rel |-> FALSE, h |-> "", cap |-> 0 - 1, k |-> 0]
Boot == [Act("p-bootstrap") EXCEPT !.q = 1]
Call(q, on, tag, kind, cap) == [Act("p-call") EXCEPT !.q = q, !.on = on, !.tag = tag, !.kind = kind, !.cap = cap]
Ret(tag, k) == [Act("a-return") EXCEPT !.tag = tag, !.kind = k]
Fin(q, r) == [Act("p-finish") EXCEPT !.q = q, !.rel = r]
Rel(a) == [Act("p-release") EXCEPT !.exp = a, !.k = 1]
LBoot == [Act("l-bootstrap") EXCEPT !.h = "boot", !.cap = 9]
PRet(i, kind, cap, tag) == [Act("p-return") EXCEPT !.q = i, !.kind = kind, !.cap = cap, !.tag = tag]
LCall(h, t) == [Act("l-call") EXCEPT !.h = h, !.tag = t]
LRel(h) == [Act("l-release") EXCEPT !.h = h]
Hold(m, q) == [Act("hold-send") EXCEPT !.kind = m, !.q = q]
Go == Act("release-send")

\* W1: the Return of a call (answer 2, a new capability in the result) is in flight
W1 == { <<Boot, Call(2, 1, 1, "root", 0 - 1), Hold("return", 2), Ret(1, k)>> \o x \o <<Go>> \o y :
          k \in {"ok-newcap", "ok-nocap", "err"},
          x \in { <<>>, <<Fin(2, TRUE)>>, <<Fin(2, FALSE)>>, <<Call(3, 2, 2, "", 0 - 1)>>, <<Rel(1)>>, <<Call(3, 2, 2, "", 0 - 1), Fin(2, TRUE)>>,
                  \* the bytes of the Return may reach the peer before the transport's send returns: the peer finishes the
                  \* answer and reuses its id while the connection has not yet noted that the Return is out
                  <<Fin(2, FALSE), Call(2, 1, 4, "root", 0 - 1)>> },
          y \in { <<>>, <<Call(5, 1, 3, "root", 5)>>, <<Fin(2, FALSE), Call(2, 1, 4, "root", 0 - 1), Ret(4, "ok-nocap")>> } }
\* (in the last y the peer finishes answer 2 - a second Finish is dropped by the driver - and reuses the id: legal once it has seen the Return)

\* W2: the Return of the Bootstrap (answer 1) is in flight
W2 == { <<Hold("return", 1), Boot>> \o x \o <<Go>> \o y :
          x \in { <<>>, <<Fin(1, TRUE)>>, <<Fin(1, FALSE)>> },
          y \in { <<>>, <<Fin(1, FALSE), Boot>> } }

\* W3: the Finish the connection sends for one of its questions is in flight (the receive loop is inside handleReturn)
W3 == { <<LBoot, PRet(0, "bootcap", 9, 0 - 1), LCall("boot", 101), Hold("finish", 0 - 1), PRet(1, k, 0 - 1, 101)>> \o x \o <<Go>> \o y :
          k \in {"results", "exception"},
          x \in { <<>>, <<LCall("boot", 102)>>, <<LRel("boot")>>, <<Boot>> },
          y \in { <<>>, <<LCall("boot", 103), PRet(2, "results", 0 - 1, 103)>> } }

\* W4: a Call the connection sends is in flight
W4 == { <<LBoot, PRet(0, "bootcap", 9, 0 - 1), Hold("call", 0 - 1), LCall("boot", 101)>> \o x \o <<Go, PRet(1, "results", 0 - 1, 101)>> :
          x \in { <<>>, <<Boot>>, <<LCall("boot", 102)>>, <<Boot, Call(2, 1, 1, "root", 9)>> } }

\* W5: the Release of an import is in flight while new references to that import arrive (the import's generation changes)
W5 == { <<Boot, LBoot, PRet(0, "bootcap", 9, 0 - 1), Hold("release", 0 - 1), LRel("boot")>> \o x \o <<Go>> \o y :
          x \in { <<>>, <<Call(2, 1, 1, "root", 9)>>, <<Call(2, 1, 1, "root", 9), Call(3, 1, 2, "root", 9)>> },
          y \in { <<>>, <<Ret(1, "ok-nocap"), Fin(2, FALSE)>>, <<Call(4, 1, 3, "root", 9), Ret(3, "ok-nocap")>> } }

\* W6: a pipelined local call is in flight while the Return of the question it is pipelined on arrives, and that Return resolves
\* to a capability of this vat: the embargo must cover the call in flight (RpcEmbargo, caller role)
LKeep(h, t) == [Act("l-call") EXCEPT !.h = h, !.tag = t, !.kind = "keep"]
LPipe(on, t) == [Act("l-pcall") EXCEPT !.on = on, !.tag = t]
PRetLoop(i, exp, tag) == [Act("p-return") EXCEPT !.q = i, !.kind = "loopcap", !.exp = exp, !.tag = tag]
Pump == Act("p-pump")
W6 == { <<Boot, LBoot, PRet(0, "bootcap", 9, 0 - 1), LKeep("boot", 100)>> \o pre \o <<Hold("call", 0 - 1), LPipe(100, 5), PRetLoop(1, 1, 100), Go>> \o post :
          pre \in { <<>>, <<LPipe(100, 4)>> },
          post \in { <<LPipe(100, 6), Pump, Pump, Pump>>, <<Pump, LPipe(100, 6), Pump, Pump>>, <<LPipe(100, 6), LPipe(100, 7), Pump, Pump, Pump>> } }

\* W7: a local call on an import is parked while it builds its parameters; the last local reference to the import is dropped
\* (the Release waits for the call), and the peer sends the same import again: the connection hands out a new client for the
\* table entry that is about to go, and every reference received must still be counted
LPark(h, t) == [Act("l-call") EXCEPT !.h = h, !.tag = t, !.kind = "parkargs"]
W7 == { <<Boot, LBoot, PRet(0, "bootcap", 9, 0 - 1), LPark("boot", 101), LRel("boot")>> \o x \o <<Go>> \o y \o <<PRet(1, "results", 0 - 1, 101)>> :
          x \in { <<Call(2, 1, 1, "root", 9)>>, <<Call(2, 1, 1, "root", 9), Call(3, 1, 2, "root", 9)>>, <<>> },
          y \in { <<>>, <<Ret(1, "ok-nocap"), Fin(2, FALSE)>>, <<Call(4, 1, 3, "root", 9)>> } }

\* W8: calls queued on an unreturned answer (Q1), one of them (Q2) returning a capability at once when it is delivered, a later one
\* (Q3) slow to deliver, and a call (Q4) pipelined on Q2's answer: Q4 is delivered to the capability Q2 returns, behind Q2
Auto(tag, k, noack) == [Act("a-auto") EXCEPT !.tag = tag, !.kind = k, !.n = (IF noack THEN 1 ELSE 0)]
Slow(tag, ms) == [Act("a-slowdeliver") EXCEPT !.tag = tag, !.k = ms]
W8 == { <<Boot, Call(2, 1, 1, "root", 0 - 1), Auto(2, "ok-newcap", na), Slow(3, ms), Call(3, 2, 2, "", 0 - 1), Call(4, 2, 3, "", 0 - 1), Call(5, 3, 4, "", 0 - 1)>>
        \o extra \o <<Ret(1, "ok-newcap")>> :
          na \in BOOLEAN, ms \in {0, 3}, extra \in { <<>>, <<Call(6, 3, 5, "", 0 - 1)>> } }

\* W9: a local call is cancelled; its Finish is in flight when the peer's Return for it arrives
LCallC(h, t) == [Act("l-call") EXCEPT !.h = h, !.tag = t, !.kind = "cancellable"]
LCancel(t) == [Act("l-cancel") EXCEPT !.tag = t]
W9 == { <<LBoot, PRet(0, "bootcap", 9, 0 - 1), LCallC("boot", 101), Hold("finish", 0 - 1), LCancel(101), PRet(1, k, 0 - 1, 101)>> \o x \o <<Go>> \o y :
          k \in {"results", "exception"},
          x \in { <<>>, <<LCall("boot", 102)>>, <<Boot>> },
          y \in { <<>>, <<LCall("boot", 103), PRet(2, "results", 0 - 1, 103)>>, <<LRel("boot")>> } }

\* W10: the cancelled call carried a capability of this vat in its parameters; the peer's Return (late: after the Finish, or while the
\* Finish is in flight) gives those references back with releaseParamCaps, or keeps them and releases them by Release later.
\* The connection stays open: the parameter capability must be shut down without waiting for Close.
LCallWC(h, t) == [Act("l-call") EXCEPT !.h = h, !.tag = t, !.kind = "withcap-c"]
PRetRel(i, kind, tag, r) == [Act("p-return") EXCEPT !.q = i, !.kind = kind, !.cap = 0 - 1, !.tag = tag, !.rel = r]
W10 == { <<LBoot, PRet(0, "bootcap", 9, 0 - 1), LCallWC("boot", 101)>> \o hold \o <<LCancel(101), PRetRel(1, k, 101, TRUE)>> \o (IF hold = <<>> THEN <<>> ELSE <<Go>>) \o y :
           k \in {"results", "exception"},
           hold \in { <<>>, <<Hold("finish", 0 - 1)>> },
           y \in { <<>>, <<LCallWC("boot", 102), PRetRel(2, "results", 102, TRUE)>>, <<LRel("boot")>> } }

\* W11: as W5, but the new reference to the import whose Release is in flight arrives in a RETURN (the result of a second Bootstrap
\* that was outstanding when the last local reference was dropped): the receive loop finds the dying table entry
LBoot2 == [Act("l-bootstrap") EXCEPT !.h = "boot2", !.cap = 9]
W11 == { <<LBoot, PRet(0, "bootcap", 9, 0 - 1), LBoot2, Hold("release", 0 - 1), LRel("boot"), PRet(1, "bootcap", 9, 0 - 1), Go>> \o y :
           y \in { <<>>, <<LCall("boot2", 101), PRet(2, "results", 0 - 1, 101)>>, <<LRel("boot2")>>,
                   <<LCall("boot2", 101), PRet(2, "results", 0 - 1, 101), LRel("boot2")>> } }

VARIABLE done
Init == done = FALSE
Next == /\ ~done /\ done' = TRUE
        /\ \A s \in W1 \cup W2 \cup W3 \cup W4 \cup W5 \cup W6 \cup W7 \cup W8 \cup W9 \cup W10 \cup W11 : PrintT(<<"SCRIPT", ToJson(s)>>)
Spec == Init /\ [][Next]_done
=============================================================================
