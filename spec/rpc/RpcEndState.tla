----------------------------- MODULE RpcEndState -----------------------------
(* Trace specification for the robustness properties of a connection (C08,    *)
(* C09): whatever the peer sends and wherever the transport fails, the        *)
(* connection terminates cleanly.  It deliberately does not constrain the     *)
(* protocol content after the first hostile message / fault (RpcTrace does    *)
(* that for well-formed histories); it requires, event by event:              *)
(*   - the reaction to a hostile message is one the protocol allows for that  *)
(*     kind of message (Abort, an exception Return, an Unimplemented echo, or *)
(*     nothing) - never a results Return for a call that could not be         *)
(*     delivered;                                                             *)
(*   - nothing is sent after the transport was closed;                        *)
(*   - every local call made by the application resolves (l-result);          *)
(*   - Close returns (also the second time), the connection's Done channel    *)
(*     closes, and afterwards no internal lock is held (view event);          *)
(*   - every instrumented capability is shut down at most once, and exactly   *)
(*     once after Close.                                                      *)
EXTENDS Integers, Sequences, FiniteSets, TLC, Json

Tr == ndJsonDeserialize("rpctrace.ndjson")

VARIABLES l, hostile, reacted, lcalls, lresults, closes, closereturns, done, tclosed, shut, caps, hostileq, localuse
vars == <<l, hostile, reacted, lcalls, lresults, closes, closereturns, done, tclosed, shut, caps, hostileq, localuse>>

Fresh == /\ hostile = "" /\ reacted = FALSE /\ lcalls = {} /\ lresults = {} /\ closes = 0 /\ closereturns = 0
         /\ done = FALSE /\ tclosed = FALSE /\ shut = <<>> /\ caps = {"B"} /\ hostileq = 0 - 1 /\ localuse = FALSE
Init == l = 1 /\ Fresh
E == Tr[l]
Ev(e) == l <= Len(Tr) /\ Tr[l].ev = e
Consume == l' = l + 1
Range(s) == { s[i] : i \in 1..Len(s) }
Count(s, x) == Cardinality({ i \in 1..Len(s) : s[i] = x })

\* reactions the protocol allows to a hostile message of this kind (as the first message sent afterwards)
Unsupported == {"resolve", "provide", "accept", "join", "unknown-message", "disembargo-unknown-context", "sendresultsto-yourself"}
\* calls that name no existing target: they can only be answered with an exception (or an abort)
Undeliverable == {"call-unknown-export", "call-unknown-answer", "call-null-target", "call-unknown-target-which", "call-transform-unknown-op",
                  "call-self-target", "call-cap-then-bad-cap", "call-unknown-target-which-with-cap", "call-transform-unknown-op-with-cap",
                  "call-unknown-export-with-cap", "call-unknown-answer-with-cap"}
Accept(kind) == IF kind \in Unsupported THEN {"unimplemented", "abort"}
                ELSE {"abort", "return-exception", "unimplemented"}

Reset == /\ Ev("reset") /\ Consume
         /\ hostile' = "" /\ reacted' = FALSE /\ lcalls' = {} /\ lresults' = {} /\ closes' = 0 /\ closereturns' = 0
         /\ done' = FALSE /\ tclosed' = FALSE /\ shut' = <<>> /\ caps' = {"B"} /\ hostileq' = 0 - 1 /\ localuse' = FALSE
Hostile == /\ Ev("hostile") /\ Consume /\ hostile' = E.kind /\ reacted' = FALSE /\ hostileq' = E.q
           /\ UNCHANGED <<lcalls, lresults, closes, closereturns, done, tclosed, shut, caps, localuse>>
\* a message sent by the connection
Send == /\ Ev("msg") /\ E.dir = "send" /\ Consume
        /\ ~tclosed                                                   \* nothing is sent on a closed transport
        \* a call that could not be delivered never gets a results Return
        /\ ~(hostile \in Undeliverable /\ E.m = "return" /\ E.q = hostileq /\ E.kind = "results")
        /\ reacted' = (reacted \/ hostile # "")
        /\ UNCHANGED <<hostile, lcalls, lresults, closes, closereturns, done, tclosed, shut, caps, hostileq, localuse>>
Recv == /\ Ev("msg") /\ E.dir = "recv" /\ Consume /\ UNCHANGED <<hostile, reacted, lcalls, lresults, closes, closereturns, done, tclosed, shut, caps, hostileq, localuse>>
LCall == /\ (Ev("l-call") \/ Ev("l-pcall")) /\ Consume /\ lcalls' = lcalls \cup {E.tag}
         \* a call on a pipeline may end up on a capability of this vat: the application then uses it directly, not through the connection
         /\ localuse' = (localuse \/ Ev("l-pcall"))
         /\ UNCHANGED <<hostile, reacted, lresults, closes, closereturns, done, tclosed, shut, caps, hostileq>>
LResult == /\ Ev("l-result") /\ Consume /\ E.tag \in lcalls /\ E.tag \notin lresults /\ E.kind # "timeout"     \* resolves once, not by the harness' own timeout
           /\ lresults' = lresults \cup {E.tag}
           /\ UNCHANGED <<hostile, reacted, lcalls, closes, closereturns, done, tclosed, shut, caps, hostileq, localuse>>
AppReturn == /\ Ev("app-return") /\ Consume /\ caps' = IF E.cap # "" THEN caps \cup {E.cap} ELSE caps
             /\ UNCHANGED <<hostile, reacted, lcalls, lresults, closes, closereturns, done, tclosed, shut, hostileq, localuse>>
Shutdown == /\ Ev("shutdown") /\ Consume /\ E.cap \notin Range(shut) /\ shut' = Append(shut, E.cap)
            /\ UNCHANGED <<hostile, reacted, lcalls, lresults, closes, closereturns, done, tclosed, caps, hostileq, localuse>>
Close == /\ Ev("close") /\ Consume /\ closes' = closes + 1
         /\ UNCHANGED <<hostile, reacted, lcalls, lresults, closereturns, done, tclosed, shut, caps, hostileq, localuse>>
CloseReturned == /\ Ev("close-returned") /\ Consume /\ closereturns' = closereturns + 1
                 /\ (localuse \/ \A k \in caps : k \in Range(shut))   \* everything the connection held was released (unless the application itself still uses it)
                 /\ UNCHANGED <<hostile, reacted, lcalls, lresults, closes, done, tclosed, shut, caps, hostileq, localuse>>
TransportClosed == /\ Ev("transport-closed") /\ Consume /\ tclosed' = TRUE
                   /\ UNCHANGED <<hostile, reacted, lcalls, lresults, closes, closereturns, done, shut, caps, hostileq, localuse>>
Done == /\ Ev("done") /\ Consume /\ done' = TRUE
        /\ UNCHANGED <<hostile, reacted, lcalls, lresults, closes, closereturns, tclosed, shut, caps, hostileq, localuse>>
\* the verif view after Close: the connection mutex can be taken, the sender lock is free
View == /\ Ev("view") /\ Consume /\ E.kind = "free"
        /\ UNCHANGED <<hostile, reacted, lcalls, lresults, closes, closereturns, done, tclosed, shut, caps, hostileq, localuse>>
End == /\ Ev("end") /\ Consume
       /\ lresults = lcalls /\ closereturns = closes /\ closes >= 1 /\ done
       /\ \A k \in caps : k \in Range(shut)
       /\ UNCHANGED <<hostile, reacted, lcalls, lresults, closes, closereturns, done, tclosed, shut, caps, hostileq, localuse>>
\* the application keeps a reference to a capability it was handed (e = -1: not an import, i.e. a capability of this vat)
LHandle == /\ Ev("l-handle") /\ Consume /\ localuse' = (localuse \/ E.e = 0 - 1)
           /\ UNCHANGED <<hostile, reacted, lcalls, lresults, closes, closereturns, done, tclosed, shut, caps, hostileq>>
Passive == /\ (Ev("app-start") \/ Ev("app-cancelled") \/ Ev("reported") \/ Ev("fault") \/ Ev("quiesce") \/ Ev("quiesce-refs") \/ Ev("l-bootstrap")
               \/ Ev("l-release") \/ Ev("peer-deliver") \/ Ev("peer-echo") \/ Ev("held") \/ Ev("hold-expired") \/ Ev("released") \/ Ev("l-cancel") \/ Ev("policy"))
           /\ Consume /\ UNCHANGED <<hostile, reacted, lcalls, lresults, closes, closereturns, done, tclosed, shut, caps, hostileq, localuse>>
\* there is no action for: "send-after-close", "close-hung", "not-done", a "view" that is not free

Next == Reset \/ Hostile \/ Send \/ Recv \/ LCall \/ LResult \/ AppReturn \/ Shutdown \/ Close \/ CloseReturned
        \/ TransportClosed \/ Done \/ View \/ End \/ Passive \/ LHandle
Spec == Init /\ [][Next]_vars

ASSUME TLCSet(1, 0)
HighWater == TLCSet(1, IF l > TLCGet(1) THEN l ELSE TLCGet(1))
Accepted == IF TLCGet(1) = Len(Tr) + 1 THEN TRUE ELSE Print(<<"REJECTED_AT_LINE", TLCGet(1)>>, FALSE)
=============================================================================
