SPECIFICATION FairSpec
CONSTANTS
  M = {"meth1", "meth2"}
  A = {"app1"}
  C = {"cl1", "cl2"}
  MaxMsgs = 2
  MaxFaults = 1
  Variant = "ok"
INVARIANTS NoRuleBroken OneShutdown AtClose WaitOrder CleanEnd
PROPERTY Termination
