SPECIFICATION Spec
CONSTRAINT HighWater
POSTCONDITION Accepted
CHECK_DEADLOCK FALSE
