------------------------------- MODULE RpcWire -------------------------------
(* Wire-level trace specification of ONE end of an RPC connection (C06, C07).  *)
(* The trace (rpcwire.ndjson) is what the tracing transport of a real Conn     *)
(* recorded (hook verifWrapTransport, build tag verif): every message received *)
(* and every message about to be sent, in the order in which the connection    *)
(* handled them.  No application events are needed: the rules are those of     *)
(* rpc.capnp that constrain what THIS vat may send, given what it received.    *)
(* Both ends of a connection between two real Conns are validated, each with   *)
(* its own trace, so every message is judged as a send of one of them.         *)
(*                                                                             *)
(*  answers    a Return names an answer opened by a received Bootstrap / Call  *)
(*             that has not been returned yet (exactly one Return each);       *)
(*  questions  a question id is free when it is used; it stays in use until    *)
(*             its Return was received and its Finish was sent; Finish is sent *)
(*             once, for a question that is open or returned;                  *)
(*  targets    a Call goes to an import that is live (references received, not *)
(*             all released) or to a question whose Finish has not been sent;  *)
(*  imports    Release names an import with received references and carries a  *)
(*             count that does not exceed them;                                *)
(*  embargo    Disembargo(senderLoopback) names a question whose Return was    *)
(*             received and whose Finish has not been sent;                    *)
(*             Disembargo(receiverLoopback) echoes a request that was          *)
(*             received, once;                                                 *)
(*  abort      nothing is sent after an Abort.                                 *)
(*                                                                             *)
(* When the PEER breaks the protocol (test peers do so on purpose) or a send   *)
(* fails, the rest of the trace is accepted as it is (lax): what the           *)
(* connection must do then is the subject of C08 / C09.                        *)
EXTENDS Integers, Sequences, FiniteSets, TLC, Json

Tr == ndJsonDeserialize("rpcwire.ndjson")
Ids == 0..63

VARIABLES l,
          ans,     \* answer id -> "free" | "open" | "returned" | "finished" (Finish received before the Return) ; freed when both happened
          qst,     \* question id -> "free" | "open" | "returned" (Return received) | "finsent" (Finish sent, Return outstanding)
          imp,     \* import id -> references received and not yet released
          exw,     \* export id -> references sent and not yet released by the peer
          req,     \* embargo ids the peer asked to loop back, not yet echoed
          aborted, lax
vars == <<l, ans, qst, imp, exw, req, aborted, lax>>

Fresh == /\ ans = [i \in Ids |-> "free"] /\ qst = [i \in Ids |-> "free"] /\ imp = [i \in Ids |-> 0] /\ exw = [i \in Ids |-> 0]
         /\ req = {} /\ aborted = FALSE /\ lax = FALSE
Init == l = 1 /\ Fresh
E == Tr[l]
InRange(x) == x \in Ids
Consume == l' = l + 1
Count(cs, kinds, i) == Cardinality({ j \in 1..Len(cs) : cs[j][1] \in kinds /\ cs[j][2] = i })
CapIdsOK(cs) == \A j \in 1..Len(cs) : InRange(cs[j][2])
Hosted == {"senderHosted", "senderPromise"}

Reset == /\ l <= Len(Tr) /\ E.dir = "reset" /\ Consume
         /\ ans' = [i \in Ids |-> "free"] /\ qst' = [i \in Ids |-> "free"] /\ imp' = [i \in Ids |-> 0] /\ exw' = [i \in Ids |-> 0]
         /\ req' = {} /\ aborted' = FALSE /\ lax' = FALSE
\* once lax, or for ids outside the modelled range, everything is accepted
Lax == /\ l <= Len(Tr) /\ E.dir # "reset" /\ Consume
       /\ (lax \/ E.dir = "note" \/ (~InRange(E.q) /\ E.q # 0 - 1) \/ (~InRange(E.e) /\ E.e # 0 - 1) \/ (~InRange(E.on) /\ E.on # 0 - 1) \/ ~CapIdsOK(E.caps))
       /\ lax' = TRUE
       /\ UNCHANGED <<ans, qst, imp, exw, req, aborted>>

Strict == l <= Len(Tr) /\ ~lax /\ E.dir \in {"send", "recv"}
          /\ (E.q = 0 - 1 \/ InRange(E.q)) /\ (E.e = 0 - 1 \/ InRange(E.e)) /\ (E.on = 0 - 1 \/ InRange(E.on)) /\ CapIdsOK(E.caps)

\* ------------------------------------------------------------------ received
\* a received message that breaks the protocol switches to lax instead of rejecting the trace
RecvOK ==
  CASE E.m \in {"bootstrap", "call"} -> ans[E.q] = "free"
    [] E.m = "finish" -> ans[E.q] \in {"open", "returned"}
    [] E.m = "return" -> qst[E.q] \in {"open", "finsent"}
    [] E.m = "release" -> E.n <= exw[E.e]
    [] OTHER -> TRUE
Recv ==
  /\ Strict /\ E.dir = "recv" /\ Consume
  /\ IF ~RecvOK THEN lax' = TRUE /\ UNCHANGED <<ans, qst, imp, exw, req, aborted>>
     ELSE /\ lax' = FALSE /\ aborted' = aborted
          /\ ans' = CASE E.m \in {"bootstrap", "call"} -> [ans EXCEPT ![E.q] = "open"]
                      [] E.m = "finish" -> [ans EXCEPT ![E.q] = IF @ = "returned" THEN "free" ELSE "finished"]
                      [] OTHER -> ans
          /\ qst' = IF E.m = "return" THEN [qst EXCEPT ![E.q] = IF @ = "open" THEN "returned" ELSE "free"] ELSE qst
          /\ imp' = IF E.m \in {"call", "return"} THEN [i \in Ids |-> imp[i] + Count(E.caps, Hosted, i)] ELSE imp
          /\ exw' = IF E.m = "release" THEN [exw EXCEPT ![E.e] = @ - E.n]
                    \* a Finish with releaseResultCaps / a Return with releaseParamCaps drops references the monitor does not attribute:
                    \* export counts become lower bounds only, so they are not used to judge the peer afterwards
                    ELSE IF (E.m = "finish" \/ E.m = "return") /\ E.rel THEN [i \in Ids |-> 0] ELSE exw
          /\ req' = IF E.m = "disembargo" /\ E.kind = "senderLoopback" THEN req \cup {E.n} ELSE req

\* ------------------------------------------------------------------ sent
SendReturn == /\ Strict /\ E.dir = "send" /\ E.m = "return" /\ ~aborted /\ Consume
              /\ ans[E.q] \in {"open", "finished"}                              \* an answer that is owed a Return, exactly once
              /\ ans' = [ans EXCEPT ![E.q] = IF @ = "open" THEN "returned" ELSE "free"]
              /\ exw' = [i \in Ids |-> exw[i] + Count(E.caps, Hosted, i)]
              /\ UNCHANGED <<qst, imp, req, aborted, lax>>
SendQuestion == /\ Strict /\ E.dir = "send" /\ E.m \in {"bootstrap", "call"} /\ ~aborted /\ Consume
                /\ qst[E.q] = "free"                                            \* the id is not in use
                /\ (E.m = "call" /\ E.tgt = "imp" => imp[E.e] > 0)              \* a live import
                /\ (E.m = "call" /\ E.tgt = "ans" => qst[E.on] \in {"open", "returned"})   \* a question the peer can still address
                /\ qst' = [qst EXCEPT ![E.q] = "open"]
                /\ exw' = [i \in Ids |-> exw[i] + Count(E.caps, Hosted, i)]
                /\ UNCHANGED <<ans, imp, req, aborted, lax>>
SendFinish == /\ Strict /\ E.dir = "send" /\ E.m = "finish" /\ ~aborted /\ Consume
              /\ qst[E.q] \in {"open", "returned"}                              \* once, for a question of this vat
              /\ qst' = [qst EXCEPT ![E.q] = IF @ = "returned" THEN "free" ELSE "finsent"]
              \* releaseResultCaps gives up import references the monitor cannot attribute: import counts become upper bounds only
              /\ UNCHANGED <<ans, imp, exw, req, aborted, lax>>
SendRelease == /\ Strict /\ E.dir = "send" /\ E.m = "release" /\ ~aborted /\ Consume
               /\ E.n > 0 /\ E.n <= imp[E.e]                                    \* only what was received
               /\ imp' = [imp EXCEPT ![E.e] = @ - E.n]
               /\ UNCHANGED <<ans, qst, exw, req, aborted, lax>>
SendDisembargo == /\ Strict /\ E.dir = "send" /\ E.m = "disembargo" /\ ~aborted /\ Consume
                  /\ \/ E.kind = "senderLoopback" /\ E.tgt = "ans" /\ qst[E.on] = "returned" /\ req' = req
                     \/ E.kind = "receiverLoopback" /\ E.n \in req /\ E.tgt = "imp" /\ req' = req \ {E.n}
                  /\ UNCHANGED <<ans, qst, imp, exw, aborted, lax>>
SendAbort == /\ Strict /\ E.dir = "send" /\ E.m = "abort" /\ ~aborted /\ Consume /\ aborted' = TRUE
             /\ UNCHANGED <<ans, qst, imp, exw, req, lax>>
SendOther == /\ Strict /\ E.dir = "send" /\ E.m \in {"unimplemented", "other"} /\ ~aborted /\ Consume
             /\ UNCHANGED <<ans, qst, imp, exw, req, aborted, lax>>

Next == Reset \/ Lax \/ Recv \/ SendReturn \/ SendQuestion \/ SendFinish \/ SendRelease \/ SendDisembargo \/ SendAbort \/ SendOther
Spec == Init /\ [][Next]_vars

ASSUME TLCSet(1, 0)
HighWater == TLCSet(1, IF l > TLCGet(1) THEN l ELSE TLCGet(1))
Accepted == IF TLCGet(1) = Len(Tr) + 1 THEN TRUE ELSE Print(<<"REJECTED_AT_LINE", TLCGet(1)>>, FALSE)
=============================================================================
