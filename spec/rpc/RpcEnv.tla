------------------------------- MODULE RpcEnv -------------------------------
(* Scripts for the RPC conformance driver: what the peer sends, what the      *)
(* local application does, in which order.  The peer is well formed here:     *)
(* fresh question ids, Finish at most once per question and only for opened   *)
(* ones, calls only on answers not yet finished and on exports it was given,  *)
(* Release only of references it received.  Symbolic references ("the export  *)
(* returned in answer a", "the n-th question the connection opened") are      *)
(* resolved by the driver at run time; actions that are not enabled then are  *)
(* skipped.  Every maximal script (or every script of MaxLen) is printed.     *)
EXTENDS Integers, Sequences, FiniteSets, TLC, Json

CONSTANTS MaxLen, MaxCalls, WithLocal, WithClose

VARIABLES hist, nextq, nexttag, opened, finished, bodies, returned, capans, relsent, boot, lboot, lq, lret, lcalls, lrel, closed, oncancel, pexp
vars == <<hist, nextq, nexttag, opened, finished, bodies, returned, capans, relsent, boot, lboot, lq, lret, lcalls, lrel, closed, oncancel, pexp>>

Act(a) == [a |-> a, q |-> 0 - 1, on |-> 0 - 1, exp |-> 0 - 1, n |-> 0, tag |-> 0 - 1, kind |-> "", rel |-> FALSE, h |-> "", cap |-> 0 - 1, k |-> 0]
Add(x) == hist' = Append(hist, x)
Room == Len(hist) < MaxLen /\ ~closed

Init == /\ hist = <<>> /\ nextq = 1 /\ nexttag = 1 /\ opened = {} /\ finished = {} /\ bodies = {} /\ returned = {}
        /\ capans = {} /\ relsent = {} /\ boot = FALSE /\ lboot = FALSE /\ lq = 0 /\ lret = 0 /\ lcalls = 0 /\ lrel = {} /\ closed = FALSE /\ oncancel = FALSE /\ pexp = {}

\* peer: Bootstrap (answer id 1 is the bootstrap answer)
PBootstrap == /\ Room /\ ~boot /\ boot' = TRUE /\ opened' = opened \cup {nextq}
              /\ Add([Act("p-bootstrap") EXCEPT !.q = nextq]) /\ nextq' = nextq + 1
              /\ UNCHANGED <<nexttag, finished, bodies, returned, capans, relsent, lboot, lq, lret, lcalls, lrel, closed, oncancel, pexp>>
\* peer: Call on a promised answer (the bootstrap answer: path root; a call's answer: field 0) or on an export it holds
PCall == /\ Room /\ nexttag <= MaxCalls
         /\ \E tgt \in ({ <<"ans", a>> : a \in opened \ finished } \cup { <<"exp", a>> : a \in capans \ relsent }),
               c \in {0 - 1, 5} :
              /\ Add([Act("p-call") EXCEPT !.q = nextq, !.tag = nexttag, !.cap = c,
                        !.on = (IF tgt[1] = "ans" THEN tgt[2] ELSE 0 - 1),
                        !.exp = (IF tgt[1] = "exp" THEN tgt[2] ELSE 0 - 1),
                        !.kind = (IF tgt[1] = "ans" /\ tgt[2] = 1 THEN "root" ELSE "")])
         /\ opened' = opened \cup {nextq} /\ bodies' = bodies \cup {<<nexttag, nextq>>}
         /\ nextq' = nextq + 1 /\ nexttag' = nexttag + 1
         /\ UNCHANGED <<finished, returned, capans, relsent, boot, lboot, lq, lret, lcalls, lrel, closed, oncancel, pexp>>
\* application: a method body returns
AReturn == /\ Room /\ \E b \in bodies : b[1] \notin returned /\
              \E kind \in {"ok-newcap", "ok-nocap", "err"} :
                /\ Add([Act("a-return") EXCEPT !.tag = b[1], !.kind = kind])
                /\ returned' = returned \cup {b[1]}
                /\ capans' = IF kind = "ok-newcap" THEN capans \cup {b[2]} ELSE capans
           /\ UNCHANGED <<nextq, nexttag, opened, finished, bodies, relsent, boot, lboot, lq, lret, lcalls, lrel, closed, oncancel, pexp>>
\* application: what a method body will do when its context is cancelled (Close, abort, Finish before it returned): by default it
\* gives up with an error; here it is told to complete with results carrying a new capability (at most once per script)
AOnCancel == /\ WithClose /\ Room /\ ~oncancel /\ oncancel' = TRUE
             /\ \E b \in bodies : b[1] \notin returned /\ Add([Act("a-oncancel") EXCEPT !.tag = b[1], !.kind = "ok-newcap"])
             /\ UNCHANGED <<nextq, nexttag, opened, finished, bodies, returned, capans, relsent, boot, lboot, lq, lret, lcalls, lrel, closed, pexp>>
PFinish == /\ Room /\ \E q \in opened \ finished, r \in BOOLEAN :
              /\ (r => q \notin relsent)                 \* a reference is given back once: by Release or by releaseResultCaps
              /\ Add([Act("p-finish") EXCEPT !.q = q, !.rel = r]) /\ finished' = finished \cup {q}
              /\ relsent' = IF r THEN relsent \cup {q} ELSE relsent
           /\ UNCHANGED <<nextq, nexttag, opened, bodies, returned, capans, boot, lboot, lq, lret, lcalls, lrel, closed, oncancel, pexp>>
\* peer: Release the reference it got in answer a's Return (bootstrap answer 1 included)
PRelease == /\ Room /\ \E a \in (capans \cup (IF boot THEN {1} ELSE {})) \ relsent :
               /\ Add([Act("p-release") EXCEPT !.exp = a, !.k = 1]) /\ relsent' = relsent \cup {a}
            /\ UNCHANGED <<nextq, nexttag, opened, finished, bodies, returned, capans, boot, lboot, lq, lret, lcalls, lrel, closed, oncancel, pexp>>
\* local application: Bootstrap(), the peer's answer, calls on the imported capability, release
LBootstrap == /\ WithLocal /\ Room /\ ~lboot /\ lboot' = TRUE /\ lq' = lq + 1
              /\ Add([Act("l-bootstrap") EXCEPT !.h = "boot", !.cap = 9])
              /\ UNCHANGED <<nextq, nexttag, opened, finished, bodies, returned, capans, relsent, boot, lret, lcalls, lrel, closed, oncancel, pexp>>
PReturn == /\ WithLocal /\ Room /\ lret < lq
           /\ \E kind \in {"results", "exception"}, rel \in (IF lret \in pexp THEN BOOLEAN ELSE {FALSE}) :
                /\ Add([Act("p-return") EXCEPT !.q = lret, !.kind = (IF lret = 0 /\ kind = "results" THEN "bootcap" ELSE kind),
                       !.cap = (IF lret = 0 THEN 9 ELSE 0 - 1), !.tag = (IF lret = 0 THEN 0 - 1 ELSE 100 + lret), !.rel = rel])
                \* releaseParamCaps: the peer gives back the references it got in the call's parameters
                /\ pexp' = IF rel THEN pexp \ {lret} ELSE pexp
           /\ lret' = lret + 1
           /\ UNCHANGED <<nextq, nexttag, opened, finished, bodies, returned, capans, relsent, boot, lboot, lq, lcalls, lrel, closed, oncancel>>
\* a local call, with or without a capability of this vat in its parameters (the connection exports it to the peer)
LCall == /\ WithLocal /\ Room /\ lboot /\ "boot" \notin lrel /\ lcalls < 2
         /\ \E wc \in BOOLEAN :
              /\ Add([Act("l-call") EXCEPT !.h = "boot", !.tag = 100 + lq, !.kind = (IF wc THEN "withcap" ELSE "")])
              /\ pexp' = IF wc THEN pexp \cup {lq} ELSE pexp
         /\ lq' = lq + 1 /\ lcalls' = lcalls + 1
         /\ UNCHANGED <<nextq, nexttag, opened, finished, bodies, returned, capans, relsent, boot, lboot, lret, lrel, closed, oncancel>>
\* the peer releases the reference it holds on a capability it received as a parameter
PReleaseParam == /\ WithLocal /\ Room /\ \E i \in pexp :
                    /\ Add([Act("p-release-param") EXCEPT !.tag = 100 + i, !.k = 1]) /\ pexp' = pexp \ {i}
                 /\ UNCHANGED <<nextq, nexttag, opened, finished, bodies, returned, capans, relsent, boot, lboot, lq, lret, lcalls, lrel, closed, oncancel>>
LRelease == /\ WithLocal /\ Room /\ lboot /\ "boot" \notin lrel
            /\ Add([Act("l-release") EXCEPT !.h = "boot"]) /\ lrel' = lrel \cup {"boot"}
            /\ UNCHANGED <<nextq, nexttag, opened, finished, bodies, returned, capans, relsent, boot, lboot, lq, lret, lcalls, closed, oncancel, pexp>>
Close == /\ WithClose /\ Len(hist) < MaxLen /\ ~closed /\ closed' = TRUE /\ Add(Act("close"))
         /\ UNCHANGED <<nextq, nexttag, opened, finished, bodies, returned, capans, relsent, boot, lboot, lq, lret, lcalls, lrel, oncancel, pexp>>

Next == PBootstrap \/ PCall \/ AReturn \/ AOnCancel \/ PFinish \/ PRelease \/ LBootstrap \/ PReturn \/ LCall \/ PReleaseParam \/ LRelease \/ Close
Spec == Init /\ [][Next]_vars
Emit == (Len(hist) > 0 /\ (Len(hist) = MaxLen \/ ~ENABLED Next)) => PrintT(<<"SCRIPT", ToJson(hist)>>)
=============================================================================
