SPECIFICATION Spec
CONSTANTS
  NCalls = 3
  NPipes = 1
  MaxLen = 6
  WithShutdown = TRUE
  WithCancel = FALSE
INVARIANT Emit
CHECK_DEADLOCK FALSE
