SPECIFICATION Spec
CONSTANTS
  Max = 1
CONSTRAINT HighWater
POSTCONDITION Accepted
CHECK_DEADLOCK FALSE
