------------------------------ MODULE Server ------------------------------
(* Impl-layer model of server/server.go: start(), the per-call goroutine,  *)
(* Shutdown().  One action per lock acquisition / critical section / wait. *)
EXTENDS Integers, Sequences, FiniteSets, TLC

CONSTANTS Calls, Slots, WithShutdown
FREE == <<"free", 0>>

VARIABLES
  mu,            \* FREE or the id of the thread holding srv.mu ("s"<call> start thread, "g"<call> goroutine, "sd")
  starting,      \* 0 = nil, k > 0 = id of the open channel
  full,          \* 0 = nil, k > 0 = id of the open channel
  drain,         \* "nil", "open", "closed"
  closed,        \* set of closed channel ids
  nextCh,        \* fresh channel id counter
  ongoing,       \* slot -> call or 0
  pc,            \* per call: state of its start() thread
  myStart, myFull, waitOn, slotOf,   \* per call locals
  gpc,           \* per call: state of its implementation goroutine
  acked, cancelled, rejected,
  sdpc, userShutdown,
  startOrder     \* history: order in which implementations started

vars == <<mu, starting, full, drain, closed, nextCh, ongoing, pc, myStart, myFull, waitOn, slotOf, gpc, acked, cancelled, rejected, sdpc, userShutdown, startOrder>>

S(i) == <<"s", i>>
G(i) == <<"g", i>>

Init ==
  /\ mu = FREE /\ starting = 0 /\ full = 0 /\ drain = "nil" /\ closed = {} /\ nextCh = 1
  /\ ongoing = [s \in Slots |-> 0]
  /\ pc = [i \in Calls |-> "new"]
  /\ myStart = [i \in Calls |-> 0] /\ myFull = [i \in Calls |-> 0] /\ waitOn = [i \in Calls |-> 0] /\ slotOf = [i \in Calls |-> 0]
  /\ gpc = [i \in Calls |-> "none"]
  /\ acked = [i \in Calls |-> FALSE] /\ cancelled = [i \in Calls |-> FALSE] /\ rejected = [i \in Calls |-> FALSE]
  /\ sdpc = (IF WithShutdown THEN "new" ELSE "off") /\ userShutdown = 0
  /\ startOrder = <<>>

HasFree == \E s \in Slots : ongoing[s] = 0
FreeSlot == CHOOSE s \in Slots : ongoing[s] = 0
HasOngoing == \E s \in Slots : ongoing[s] # 0

\* ---- start(): srv.mu.Lock() (initial, or after a wait) ----
Lock(i) ==
  /\ pc[i] \in {"new", "relock"} /\ mu = FREE /\ mu' = S(i)
  /\ pc' = [pc EXCEPT ![i] = "loop"]
  /\ UNCHANGED <<starting, full, drain, closed, nextCh, ongoing, myStart, myFull, waitOn, slotOf, gpc, acked, cancelled, rejected, sdpc, userShutdown, startOrder>>

\* loop body under the lock: drain check, gate check, take gate, take slot
Loop(i) ==
  /\ pc[i] = "loop" /\ mu = S(i)
  /\ IF drain # "nil" THEN
        /\ mu' = FREE /\ rejected' = [rejected EXCEPT ![i] = TRUE] /\ pc' = [pc EXCEPT ![i] = "end"]
        /\ UNCHANGED <<starting, full, nextCh, ongoing, myStart, myFull, waitOn, slotOf>>
     ELSE IF starting # 0 THEN
        /\ mu' = FREE /\ waitOn' = [waitOn EXCEPT ![i] = starting] /\ pc' = [pc EXCEPT ![i] = "waitStarting"]
        /\ UNCHANGED <<starting, full, nextCh, ongoing, myStart, myFull, slotOf, rejected>>
     ELSE \* take the gate
        /\ starting' = nextCh /\ myStart' = [myStart EXCEPT ![i] = nextCh]
        /\ IF HasFree THEN
              /\ ongoing' = [ongoing EXCEPT ![FreeSlot] = i] /\ slotOf' = [slotOf EXCEPT ![i] = FreeSlot]
              /\ mu' = FREE /\ nextCh' = nextCh + 1 /\ pc' = [pc EXCEPT ![i] = "spawn"]
              /\ UNCHANGED <<full, myFull, waitOn, rejected>>
           ELSE
              /\ full' = nextCh + 1 /\ myFull' = [myFull EXCEPT ![i] = nextCh + 1] /\ nextCh' = nextCh + 2
              /\ mu' = FREE /\ pc' = [pc EXCEPT ![i] = "waitFull"]
              /\ UNCHANGED <<ongoing, slotOf, waitOn, rejected>>
  /\ UNCHANGED <<drain, closed, gpc, acked, cancelled, sdpc, userShutdown, startOrder>>

WaitStarting(i) ==   \* select { <-wait ; <-ctx.Done }
  /\ pc[i] = "waitStarting"
  /\ \/ /\ waitOn[i] \in closed /\ pc' = [pc EXCEPT ![i] = "relock"] /\ UNCHANGED rejected
     \/ /\ cancelled[i] /\ rejected' = [rejected EXCEPT ![i] = TRUE] /\ pc' = [pc EXCEPT ![i] = "end"]
  /\ UNCHANGED <<mu, starting, full, drain, closed, nextCh, ongoing, myStart, myFull, waitOn, slotOf, gpc, acked, cancelled, sdpc, userShutdown, startOrder>>

WaitFull(i) ==       \* select { <-full ; <-ctx.Done }
  /\ pc[i] = "waitFull"
  /\ \/ /\ myFull[i] \in closed /\ pc' = [pc EXCEPT ![i] = "lockAfterFull"]
     \/ /\ cancelled[i] /\ pc' = [pc EXCEPT ![i] = "lockCancelFull"]
  /\ UNCHANGED <<mu, starting, full, drain, closed, nextCh, ongoing, myStart, myFull, waitOn, slotOf, gpc, acked, cancelled, rejected, sdpc, userShutdown, startOrder>>

CancelFull(i) ==     \* lock; starting = nil; close(starting); full = nil; unlock; reject
  /\ pc[i] = "lockCancelFull" /\ mu = FREE
  /\ starting' = 0 /\ closed' = closed \cup {myStart[i]} /\ full' = 0
  /\ rejected' = [rejected EXCEPT ![i] = TRUE] /\ pc' = [pc EXCEPT ![i] = "end"]
  /\ UNCHANGED <<mu, drain, nextCh, ongoing, myStart, myFull, waitOn, slotOf, gpc, acked, cancelled, sdpc, userShutdown, startOrder>>

AfterFull(i) ==      \* lock; id = nextID(); if drain != nil {...reject}; else occupy slot
  /\ pc[i] = "lockAfterFull" /\ mu = FREE
  /\ IF drain # "nil" THEN
        /\ starting' = 0 /\ closed' = closed \cup {myStart[i]}
        /\ rejected' = [rejected EXCEPT ![i] = TRUE] /\ pc' = [pc EXCEPT ![i] = "end"]
        /\ UNCHANGED <<ongoing, slotOf>>
     ELSE
        /\ HasFree   \* if this could be false the code would index ongoing[-1]: checked by SlotAvailable
        /\ ongoing' = [ongoing EXCEPT ![FreeSlot] = i] /\ slotOf' = [slotOf EXCEPT ![i] = FreeSlot]
        /\ pc' = [pc EXCEPT ![i] = "spawn"]
        /\ UNCHANGED <<starting, closed, rejected>>
  /\ UNCHANGED <<mu, full, drain, nextCh, myStart, myFull, waitOn, gpc, acked, cancelled, sdpc, userShutdown, startOrder>>

Spawn(i) ==          \* go func(){ Impl ... }() ; then select { <-ack ; <-done }
  /\ pc[i] = "spawn"
  /\ gpc' = [gpc EXCEPT ![i] = "impl"] /\ startOrder' = Append(startOrder, i)
  /\ pc' = [pc EXCEPT ![i] = "waitAck"]
  /\ UNCHANGED <<mu, starting, full, drain, closed, nextCh, ongoing, myStart, myFull, waitOn, slotOf, acked, cancelled, rejected, sdpc, userShutdown>>

WaitAck(i) ==
  /\ pc[i] = "waitAck" /\ (acked[i] \/ gpc[i] = "done")
  /\ pc' = [pc EXCEPT ![i] = "lockRelease"]
  /\ UNCHANGED <<mu, starting, full, drain, closed, nextCh, ongoing, myStart, myFull, waitOn, slotOf, gpc, acked, cancelled, rejected, sdpc, userShutdown, startOrder>>

ReleaseGate(i) ==    \* lock; starting = nil; close(starting); unlock
  /\ pc[i] = "lockRelease" /\ mu = FREE
  /\ starting' = 0 /\ closed' = closed \cup {myStart[i]} /\ pc' = [pc EXCEPT ![i] = "end"]
  /\ UNCHANGED <<mu, full, drain, nextCh, ongoing, myStart, myFull, waitOn, slotOf, gpc, acked, cancelled, rejected, sdpc, userShutdown, startOrder>>

\* ---- implementation goroutine (application code decides when) ----
Ack(i) == /\ gpc[i] = "impl" /\ ~acked[i] /\ acked' = [acked EXCEPT ![i] = TRUE]
          /\ UNCHANGED <<mu, starting, full, drain, closed, nextCh, ongoing, pc, myStart, myFull, waitOn, slotOf, gpc, cancelled, rejected, sdpc, userShutdown, startOrder>>
ImplReturn(i) == /\ gpc[i] = "impl" /\ gpc' = [gpc EXCEPT ![i] = "lockRet"]
          /\ UNCHANGED <<mu, starting, full, drain, closed, nextCh, ongoing, pc, myStart, myFull, waitOn, slotOf, acked, cancelled, rejected, sdpc, userShutdown, startOrder>>
AfterReturn(i) ==    \* lock; free slot; maybe close drain; maybe close full; unlock; close(done)
  /\ gpc[i] = "lockRet" /\ mu = FREE
  /\ ongoing' = [ongoing EXCEPT ![slotOf[i]] = 0]
  /\ LET stillOngoing == \E s \in Slots : s # slotOf[i] /\ ongoing[s] # 0 IN
     drain' = IF drain = "open" /\ ~stillOngoing THEN "closed" ELSE drain
  /\ IF full # 0 THEN closed' = closed \cup {full} /\ full' = 0 ELSE UNCHANGED <<closed, full>>
  /\ gpc' = [gpc EXCEPT ![i] = "done"]
  /\ UNCHANGED <<mu, starting, nextCh, pc, myStart, myFull, waitOn, slotOf, acked, cancelled, rejected, sdpc, userShutdown, startOrder>>

CallerCancel(i) == /\ ~cancelled[i] /\ pc[i] \notin {"end"} /\ cancelled' = [cancelled EXCEPT ![i] = TRUE]
          /\ UNCHANGED <<mu, starting, full, drain, closed, nextCh, ongoing, pc, myStart, myFull, waitOn, slotOf, gpc, acked, rejected, sdpc, userShutdown, startOrder>>

\* ---- Shutdown ----
SdLock ==
  /\ sdpc = "new" /\ mu = FREE
  /\ drain' = IF HasOngoing THEN "open" ELSE "closed"
  /\ cancelled' = [i \in Calls |-> IF \E s \in Slots : ongoing[s] = i THEN TRUE ELSE cancelled[i]]
  /\ sdpc' = "wait"
  /\ UNCHANGED <<mu, starting, full, closed, nextCh, ongoing, pc, myStart, myFull, waitOn, slotOf, gpc, acked, rejected, userShutdown, startOrder>>
SdWait ==
  /\ sdpc = "wait" /\ drain = "closed" /\ userShutdown' = userShutdown + 1 /\ sdpc' = "done"
  /\ UNCHANGED <<mu, starting, full, drain, closed, nextCh, ongoing, pc, myStart, myFull, waitOn, slotOf, gpc, acked, cancelled, rejected, startOrder>>

CallStep(i) == Lock(i) \/ Loop(i) \/ WaitStarting(i) \/ WaitFull(i) \/ CancelFull(i) \/ AfterFull(i) \/ Spawn(i)
               \/ WaitAck(i) \/ ReleaseGate(i) \/ Ack(i) \/ ImplReturn(i) \/ AfterReturn(i) \/ CallerCancel(i)
AllDone == (\A i \in Calls : pc[i] = "end" /\ gpc[i] \in {"none", "done"}) /\ sdpc \in {"off", "done"}
Next == (\E i \in Calls : CallStep(i)) \/ SdLock \/ SdWait \/ (AllDone /\ UNCHANGED vars)
Spec == Init /\ [][Next]_vars

\* ---- properties ----
Started(i)   == gpc[i] # "none"
Running(i)   == gpc[i] = "impl"
\* at most one implementation is started and has neither acknowledged nor returned
OneUnacked   == Cardinality({i \in Calls : Running(i) /\ ~acked[i]}) <= 1
WithinCap    == Cardinality({i \in Calls : gpc[i] \in {"impl", "lockRet"}}) <= Cardinality(Slots)
ShutdownOnce == userShutdown <= 1
\* once the user's shutdown ran, nothing is running and nothing starts
QuietAfterShutdown == userShutdown = 1 => \A i \in Calls : gpc[i] \in {"none", "done"}
NoStartAfterShutdown == [][userShutdown = 1 => startOrder' = startOrder]_vars
\* the slot lookup after waking from `full` always finds a slot (else ongoing[-1] panics)
SlotAvailable == \A i \in Calls : (pc[i] = "lockAfterFull" /\ mu = FREE /\ drain = "nil") => HasFree
NoStuck      == AllDone \/ ENABLED ((\E i \in Calls : CallStep(i)) \/ SdLock \/ SdWait)
=============================================================================
