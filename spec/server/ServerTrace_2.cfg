SPECIFICATION Spec
CONSTANTS
  Max = 2
CONSTRAINT HighWater
POSTCONDITION Accepted
CHECK_DEADLOCK FALSE
