---------------------------- MODULE AnswerQueue ----------------------------
(* Implementation-shaped model of server/answer.go (C12, C06): the queue of  *)
(* calls pipelined on an answer that has not returned yet.                    *)
(*                                                                            *)
(* While the call is running, pipelined calls are queued (entry i answers as  *)
(* basis i; basis 0 is the call's own answer; an entry may itself be          *)
(* pipelined on an earlier entry's answer: its basis is that entry).  When    *)
(* the call returns, fulfill() enters the draining state, delivers the        *)
(* entries in order, only then marks every basis ready (callers that arrived  *)
(* meanwhile - they found the queue full, or came during the drain - wait for *)
(* that) and only then lets the queued calls' own returns reach their         *)
(* callers.  Two things are guaranteed to the application:                    *)
(*   OrderOnResult   a call that arrived after the queued ones is not         *)
(*                   delivered before them;                                   *)
(*   OrderOnEntry    a call made directly on the capability an entry          *)
(*                   returned - possible once that entry's answer is visible  *)
(*                   to its caller - is not delivered before the entries that *)
(*                   were pipelined on that entry's answer earlier.           *)
(* ReadyEarly / ReturnEarly are the control variants (basis 0 usable as soon  *)
(* as the drain starts; an entry's return delivered right after the entry):   *)
(* TLC must find a violation of the first / second invariant for them.        *)
EXTENDS Integers, Sequences, FiniteSets, TLC

CONSTANTS Bases,        \* basis of each queued entry, e.g. <<0, 0, 1>>: the third entry is pipelined on the first entry's answer
          NLate,        \* callers that arrive on basis 0 once the drain has started (or that found the queue full)
          ReadyEarly, ReturnEarly

N == Len(Bases)
VARIABLES phase,        \* "queueing" | "draining" | "drained"
          next,         \* index of the next entry the drain loop delivers
          ready,        \* basis 0 is usable by callers that are not in the queue
          visible,      \* entries whose return has reached their caller (their result capability can be called directly)
          late,         \* late caller -> "away" | "waiting" | "done"
          direct,       \* entries on whose result capability a direct call has been made
          log           \* deliveries in order: <<"q", i>> queued entry i, <<"l", c>> late caller c, <<"d", k>> direct call on entry k's result
vars == <<phase, next, ready, visible, late, direct, log>>

Init == /\ phase = "queueing" /\ next = 1 /\ ready = FALSE /\ visible = {} /\ late = [c \in 1..NLate |-> "away"]
        /\ direct = {} /\ log = <<>>

\* the running call returns: fulfill() starts draining
Fulfill == /\ phase = "queueing" /\ phase' = "draining"
           /\ ready' = ReadyEarly
           /\ UNCHANGED <<next, visible, late, direct, log>>
\* the drain loop delivers the next entry (its basis is an earlier entry, already delivered)
Drain == /\ phase = "draining" /\ next <= N
         /\ log' = Append(log, <<"q", next>>) /\ next' = next + 1
         /\ UNCHANGED <<phase, ready, visible, late, direct>>
\* the whole queue has been delivered: every basis becomes ready, the queue is drained
Drained == /\ phase = "draining" /\ next = N + 1
           /\ phase' = "drained" /\ ready' = TRUE
           /\ UNCHANGED <<next, visible, late, direct, log>>
\* the return of queued entry i reaches its caller: after the drain - or, in the ReturnEarly variant, as soon as i was delivered
Return(i) == /\ i \in 1..N /\ i \notin visible
             /\ IF ReturnEarly THEN i < next ELSE phase = "drained"
             /\ visible' = visible \cup {i}
             /\ UNCHANGED <<phase, next, ready, late, direct, log>>
\* a caller that is not in the queue arrives for basis 0 (it found the queue full earlier, or comes during / after the drain)
Arrive(c) == /\ late[c] = "away" /\ phase # "queueing" /\ late' = [late EXCEPT ![c] = "waiting"]
             /\ UNCHANGED <<phase, next, ready, visible, direct, log>>
Through(c) == /\ late[c] = "waiting" /\ ready
              /\ late' = [late EXCEPT ![c] = "done"] /\ log' = Append(log, <<"l", c>>)
              /\ UNCHANGED <<phase, next, ready, visible, direct>>
\* the application calls the capability entry k returned, directly (it can: k's answer is visible)
Direct(k) == /\ k \in visible /\ k \notin direct
             /\ direct' = direct \cup {k} /\ log' = Append(log, <<"d", k>>)
             /\ UNCHANGED <<phase, next, ready, visible, late>>

Next == Fulfill \/ Drain \/ Drained \/ (\E i \in 1..N : Return(i)) \/ (\E c \in 1..NLate : Arrive(c) \/ Through(c)) \/ (\E k \in 1..N : Direct(k))
Spec == Init /\ [][Next]_vars /\ WF_vars(Next)

Pos(x) == IF \E i \in 1..Len(log) : log[i] = x THEN CHOOSE i \in 1..Len(log) : log[i] = x ELSE 0
\* calls addressed to the result itself: every queued entry with basis 0 before every late caller
OrderOnResult == \A c \in 1..NLate : Pos(<<"l", c>>) > 0 => \A i \in 1..N : Bases[i] = 0 => (Pos(<<"q", i>>) > 0 /\ Pos(<<"q", i>>) < Pos(<<"l", c>>))
\* calls addressed to what entry k returned: every queued entry pipelined on k before a direct call on k's result
OrderOnEntry == \A k \in 1..N : Pos(<<"d", k>>) > 0 => \A i \in 1..N : Bases[i] = k => (Pos(<<"q", i>>) > 0 /\ Pos(<<"q", i>>) < Pos(<<"d", k>>))
\* queued entries are delivered in queue order, each once
QueueOrder == \A i, j \in 1..N : (i < j /\ Pos(<<"q", j>>) > 0) => (Pos(<<"q", i>>) > 0 /\ Pos(<<"q", i>>) < Pos(<<"q", j>>))
TypeOK == /\ phase \in {"queueing", "draining", "drained"} /\ next \in 1..(N + 1) /\ visible \subseteq 1..N /\ direct \subseteq visible
\* everything gets through eventually
AllServed == <>(next = N + 1 /\ \A c \in 1..NLate : late[c] # "waiting")
=============================================================================
