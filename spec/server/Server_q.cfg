SPECIFICATION Spec
CONSTANTS
  Calls = {1, 2, 3}
  Slots = {1}
  WithShutdown = TRUE
INVARIANTS OneUnacked WithinCap ShutdownOnce QuietAfterShutdown SlotAvailable NoStuck
PROPERTY NoStartAfterShutdown
CHECK_DEADLOCK FALSE
