SPECIFICATION Spec
CONSTANTS
  Bases <- BasesChain
  NLate = 2
  ReadyEarly = FALSE
  ReturnEarly = FALSE
INVARIANTS TypeOK QueueOrder OrderOnResult OrderOnEntry
PROPERTY AllServed
CHECK_DEADLOCK FALSE
