SPECIFICATION Spec
CONSTANTS
  Bases <- BasesChain
  NLate = 2
  ReadyEarly = FALSE
  ReturnEarly = TRUE
INVARIANTS TypeOK QueueOrder OrderOnResult OrderOnEntry
PROPERTY AllServed
CHECK_DEADLOCK FALSE
