SPECIFICATION Spec
CONSTANTS
  Bases <- BasesChain
  NLate = 2
  ReadyEarly = TRUE
  ReturnEarly = FALSE
INVARIANTS TypeOK QueueOrder OrderOnResult OrderOnEntry
PROPERTY AllServed
CHECK_DEADLOCK FALSE
