----------------------------- MODULE ServerTrace -----------------------------
(* Trace specification of a locally implemented capability (C12).  The event  *)
(* log of one execution (srvtrace.ndjson, totally ordered by a sequence       *)
(* number taken inside the harness callbacks) must satisfy, event by event:   *)
(*  - an implementation starts only for an invoked call, at most once, only   *)
(*    while no other started call is neither acknowledged nor returned,       *)
(*    only while fewer than Max implementations run, never after the user's   *)
(*    shutdown ran, and only after every call whose Send had returned (or     *)
(*    which had acknowledged) before this call was invoked has started;       *)
(*  - Send returns only after the call acknowledged, returned or was          *)
(*    rejected; each call yields exactly one result, the implementation's;    *)
(*  - pipelined calls on an answer are delivered only after it returned       *)
(*    successfully, in the order they were made, else they fail;              *)
(*  - after Shutdown is invoked running implementations see cancellation;     *)
(*    the user's shutdown runs once, after all of them returned.              *)
EXTENDS Integers, Sequences, FiniteSets, TLC, Json

CONSTANT Max

Tr == ndJsonDeserialize("srvtrace.ndjson")

VARIABLES l, invoked, before, started, acked, returned, retres, sendret, results, cancelled, sawcancel,
          pipes, delivered, presults, sdinv, usershut, sdret
vars == <<l, invoked, before, started, acked, returned, retres, sendret, results, cancelled, sawcancel,
          pipes, delivered, presults, sdinv, usershut, sdret>>

Fresh == /\ invoked = {} /\ before = <<>> /\ started = <<>> /\ acked = {} /\ returned = {} /\ retres = <<>> /\ sendret = {}
         /\ results = <<>> /\ cancelled = {} /\ sawcancel = {} /\ pipes = <<>> /\ delivered = <<>> /\ presults = <<>>
         /\ sdinv = FALSE /\ usershut = 0 /\ sdret = FALSE
Init == l = 1 /\ Fresh

Ev(e) == l <= Len(Tr) /\ Tr[l].ev = e
E == Tr[l]
Consume == l' = l + 1
Range(s) == { s[i] : i \in 1..Len(s) }
StartedSet == Range(started)
Running == { i \in StartedSet : i \notin returned }
Unacked == { i \in StartedSet : i \notin acked /\ i \notin returned }
Lookup(f, k) == IF \E i \in 1..Len(f) : f[i][1] = k THEN (CHOOSE x \in Range(f) : x[1] = k)[2] ELSE "none"
LookupI(f, k) == IF \E i \in 1..Len(f) : f[i][1] = k THEN (CHOOSE x \in Range(f) : x[1] = k)[2] ELSE 0 - 1
LookupSet(f, k) == IF \E i \in 1..Len(f) : f[i][1] = k THEN (CHOOSE x \in Range(f) : x[1] = k)[2] ELSE {}
Keep(vs) == UNCHANGED vs

Reset == /\ Ev("reset") /\ Consume
         /\ invoked' = {} /\ before' = <<>> /\ started' = <<>> /\ acked' = {} /\ returned' = {} /\ retres' = <<>> /\ sendret' = {}
         /\ results' = <<>> /\ cancelled' = {} /\ sawcancel' = {} /\ pipes' = <<>> /\ delivered' = <<>> /\ presults' = <<>>
         /\ sdinv' = FALSE /\ usershut' = 0 /\ sdret' = FALSE

Invoke == /\ Ev("invoke") /\ Consume /\ E.i \notin invoked
          /\ invoked' = invoked \cup {E.i}
          \* calls that must be started (or be finished without starting) before this one may start
          /\ before' = Append(before, <<E.i, sendret \cup acked>>)
          /\ Keep(<<started, acked, returned, retres, sendret, results, cancelled, sawcancel, pipes, delivered, presults, sdinv, usershut, sdret>>)

ImplStart == /\ Ev("impl-start") /\ Consume
             /\ E.i \in invoked /\ E.i \notin StartedSet
             /\ Unacked = {}                                  \* previous call returned or acknowledged delivery
             /\ Cardinality(Running) < Max                    \* concurrency cap
             /\ usershut = 0                                  \* nothing starts after shutdown
             /\ \A j \in LookupSet(before, E.i) : j \in StartedSet \/ Lookup(results, j) # "none"     \* order
             /\ started' = Append(started, E.i)
             /\ Keep(<<invoked, before, acked, returned, retres, sendret, results, cancelled, sawcancel, pipes, delivered, presults, sdinv, usershut, sdret>>)

Ack == /\ Ev("ack") /\ Consume /\ E.i \in StartedSet /\ acked' = acked \cup {E.i}
       /\ Keep(<<invoked, before, started, returned, retres, sendret, results, cancelled, sawcancel, pipes, delivered, presults, sdinv, usershut, sdret>>)

ImplReturn == /\ Ev("impl-return") /\ Consume /\ E.i \in StartedSet /\ E.i \notin returned
              /\ returned' = returned \cup {E.i} /\ retres' = Append(retres, <<E.i, E.res>>)
              \* an implementation that runs when Shutdown was invoked has seen (or will have seen) its context cancelled
              /\ Keep(<<invoked, before, started, acked, sendret, results, cancelled, sawcancel, pipes, delivered, presults, sdinv, usershut, sdret>>)

SendReturned == /\ Ev("send-returned") /\ Consume /\ E.i \in invoked /\ E.i \notin sendret
                \* delivery was acknowledged, the call returned, or it was never started (rejected)
                /\ (E.i \in StartedSet => E.i \in acked \/ E.i \in returned)
                /\ sendret' = sendret \cup {E.i}
                /\ Keep(<<invoked, before, started, acked, returned, retres, results, cancelled, sawcancel, pipes, delivered, presults, sdinv, usershut, sdret>>)

Result == /\ Ev("result") /\ Consume /\ E.i \in invoked /\ Lookup(results, E.i) = "none"       \* exactly one completion
          /\ (E.i \in StartedSet => E.i \in returned /\ E.res = Lookup(retres, E.i))          \* ... with what the implementation returned
          /\ (E.i \notin StartedSet => E.res = "err")                                          \* a call that never started fails
          /\ results' = Append(results, <<E.i, E.res>>)
          /\ Keep(<<invoked, before, started, acked, returned, retres, sendret, cancelled, sawcancel, pipes, delivered, presults, sdinv, usershut, sdret>>)

Cancel == /\ Ev("cancel") /\ Consume /\ cancelled' = cancelled \cup {E.i}
          /\ Keep(<<invoked, before, started, acked, returned, retres, sendret, results, sawcancel, pipes, delivered, presults, sdinv, usershut, sdret>>)
ImplCancelled == /\ Ev("impl-cancelled") /\ Consume
                 /\ (E.i \in cancelled \/ sdinv)             \* a context is cancelled only by its caller or by Shutdown
                 /\ sawcancel' = sawcancel \cup {E.i}
                 /\ Keep(<<invoked, before, started, acked, returned, retres, sendret, results, cancelled, pipes, delivered, presults, sdinv, usershut, sdret>>)

\* third component: the answer had not returned when the pipelined call was made;
\* fourth component: the pipelined calls that had been delivered when this one was made
PipeInvoke == /\ Ev("pipe-invoke") /\ Consume /\ pipes' = Append(pipes, <<E.i, E.on, E.on \notin returned, { delivered[k] : k \in 1..Len(delivered) }>>)
              /\ Keep(<<invoked, before, started, acked, returned, retres, sendret, results, cancelled, sawcancel, delivered, presults, sdinv, usershut, sdret>>)
QueueSize == 2      \* the driver runs every server with AnswerQueueSize 2
PipesOn(c) == SelectSeq(pipes, LAMBDA x : x[2] = c)
PipeDelivered == /\ Ev("pipe-delivered") /\ Consume
                 /\ LET c == LookupI(pipes, E.i) IN
                    \* only after the answer returned successfully; a call pipelined on a pipelined call (ids from 100) only
                    \* after that call was delivered
                    /\ c # 0 - 1
                    /\ IF c >= 100 THEN c \in { delivered[k] : k \in 1..Len(delivered) }
                                   ELSE c \in returned /\ Lookup(retres, c) = "ok"
                    \* in the order the pipelined calls were made on that answer
                    \* - except that calls which found the answer's queue full (QueueSize entries) are all blocked inside
                    \* PipelineSend at the same time, i.e. were made concurrently: no order among them, but behind the queued ones
                    /\ LET mine == PipesOn(c)
                           idx == CHOOSE k \in 1..Len(mine) : mine[k][1] = E.i
                           Blocked(k) == mine[k][3] /\ Cardinality({ j \in 1..k : mine[j][3] }) > QueueSize
                       IN /\ E.i \notin { delivered[k] : k \in 1..Len(delivered) }
                          \* (a call made while an earlier blocked call had still not got through - e.g. during the drain - is concurrent with it too)
                          /\ \A j \in 1..(idx - 1) : (Blocked(j) /\ (Blocked(idx) \/ mine[j][1] \notin mine[idx][4]))
                                                      \/ mine[j][1] \in { delivered[k] : k \in 1..Len(delivered) }
                 /\ delivered' = Append(delivered, E.i)
                 /\ Keep(<<invoked, before, started, acked, returned, retres, sendret, results, cancelled, sawcancel, pipes, presults, sdinv, usershut, sdret>>)
PipeResult == /\ Ev("pipe-result") /\ Consume /\ Lookup(presults, E.i) = "none"
              /\ LET c == LookupI(pipes, E.i) IN
                 \* delivered calls succeed (the target answers ok); others fail
                 /\ (E.res = "ok" => E.i \in Range(delivered))
                 /\ (E.i \in Range(delivered) => E.res = "ok")
              /\ presults' = Append(presults, <<E.i, E.res>>)
              /\ Keep(<<invoked, before, started, acked, returned, retres, sendret, results, cancelled, sawcancel, pipes, delivered, sdinv, usershut, sdret>>)

ShutdownInvoke == /\ Ev("shutdown-invoke") /\ Consume /\ ~sdinv /\ sdinv' = TRUE
                  /\ Keep(<<invoked, before, started, acked, returned, retres, sendret, results, cancelled, sawcancel, pipes, delivered, presults, usershut, sdret>>)
UserShutdown == /\ Ev("user-shutdown") /\ Consume
                /\ sdinv /\ usershut = 0                       \* exactly once, only after Shutdown was invoked
                /\ Running = {}                                \* after the running calls returned
                /\ usershut' = 1
                /\ Keep(<<invoked, before, started, acked, returned, retres, sendret, results, cancelled, sawcancel, pipes, delivered, presults, sdinv, sdret>>)
ShutdownReturned == /\ Ev("shutdown-returned") /\ Consume /\ usershut = 1 /\ sdret' = TRUE
                    /\ Keep(<<invoked, before, started, acked, returned, retres, sendret, results, cancelled, sawcancel, pipes, delivered, presults, sdinv, usershut>>)
\* implementations that were running when Shutdown was invoked and were still running `grace` later saw cancellation
NeedCancel == /\ Ev("check-cancelled") /\ Consume /\ (E.i \in Running => E.i \in sawcancel)
              /\ Keep(<<invoked, before, started, acked, returned, retres, sendret, results, cancelled, sawcancel, pipes, delivered, presults, sdinv, usershut, sdret>>)
Quiesce == /\ Ev("quiesce") /\ Consume
           /\ \A i \in invoked : Lookup(results, i) # "none"           \* every call completed
           /\ \A x \in Range(pipes) : Lookup(presults, x[1]) # "none"
           /\ (sdinv => usershut = 1 /\ sdret)
           /\ Keep(<<invoked, before, started, acked, returned, retres, sendret, results, cancelled, sawcancel, pipes, delivered, presults, sdinv, usershut, sdret>>)

Next == Reset \/ Invoke \/ ImplStart \/ Ack \/ ImplReturn \/ SendReturned \/ Result \/ Cancel \/ ImplCancelled
        \/ PipeInvoke \/ PipeDelivered \/ PipeResult \/ ShutdownInvoke \/ UserShutdown \/ ShutdownReturned \/ NeedCancel \/ Quiesce
Spec == Init /\ [][Next]_vars

ASSUME TLCSet(1, 0)
HighWater == TLCSet(1, IF l > TLCGet(1) THEN l ELSE TLCGet(1))
Accepted == IF TLCGet(1) = Len(Tr) + 1 THEN TRUE ELSE Print(<<"REJECTED_AT_LINE", TLCGet(1)>>, FALSE)
=============================================================================
