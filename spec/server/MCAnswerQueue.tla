---- MODULE MCAnswerQueue ----
EXTENDS AnswerQueue
BasesChain == <<0, 0, 1>>
BasesFlat == <<0, 0>>
====
