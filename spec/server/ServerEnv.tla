------------------------------ MODULE ServerEnv ------------------------------
(* Environment scripts for a locally implemented capability (C12): the order  *)
(* in which the application and its callers act.  Calls are invoked in        *)
(* numeric order (each from its own goroutine, so an invocation need not wait *)
(* for the previous Send to return); the implementation of a call may         *)
(* acknowledge and then return (ok with a capability in the result, or an     *)
(* error); callers may cancel; pipelined calls may be made on the answer of   *)
(* an acknowledged call; Shutdown may happen at any point.  Whether an action *)
(* is possible at run time depends on the server (a call that has not been    *)
(* started cannot acknowledge): the driver waits briefly and skips actions    *)
(* that are not enabled.  Every maximal script is printed.                    *)
EXTENDS Integers, Sequences, FiniteSets, TLC, Json

CONSTANTS NCalls, NPipes, MaxLen, WithShutdown, WithCancel

VARIABLES hist, invoked, acked, returned, cancelled, piped, shut
vars == <<hist, invoked, acked, returned, cancelled, piped, shut>>

Init == hist = <<>> /\ invoked = 0 /\ acked = {} /\ returned = {} /\ cancelled = {} /\ piped = 0 /\ shut = FALSE
Add(a) == hist' = Append(hist, a)
Room == Len(hist) < MaxLen

Invoke == Room /\ invoked < NCalls /\ invoked' = invoked + 1 /\ Add([a |-> "invoke", i |-> invoked + 1, on |-> 0, res |-> ""])
          /\ UNCHANGED <<acked, returned, cancelled, piped, shut>>
Ack == Room /\ \E i \in 1..invoked : i \notin acked /\ i \notin returned /\ acked' = acked \cup {i} /\ Add([a |-> "ack", i |-> i, on |-> 0, res |-> ""])
       /\ UNCHANGED <<invoked, returned, cancelled, piped, shut>>
Return == Room /\ \E i \in 1..invoked, r \in {"ok", "err"} : i \notin returned /\ returned' = returned \cup {i} /\ Add([a |-> "return", i |-> i, on |-> 0, res |-> r])
          /\ UNCHANGED <<invoked, acked, cancelled, piped, shut>>
Cancel == WithCancel /\ Room /\ \E i \in 1..invoked : i \notin cancelled /\ i \notin returned /\ cancelled' = cancelled \cup {i}
          /\ Add([a |-> "cancel", i |-> i, on |-> 0, res |-> ""]) /\ UNCHANGED <<invoked, acked, returned, piped, shut>>
Pipe == Room /\ piped < NPipes /\ \E i \in acked : piped' = piped + 1 /\ Add([a |-> "pipe", i |-> 100 + piped + 1, on |-> i, res |-> ""])
        /\ UNCHANGED <<invoked, acked, returned, cancelled, shut>>
Shutdown == WithShutdown /\ Room /\ ~shut /\ shut' = TRUE /\ Add([a |-> "shutdown", i |-> 0, on |-> 0, res |-> ""])
            /\ UNCHANGED <<invoked, acked, returned, cancelled, piped>>
Next == Invoke \/ Ack \/ Return \/ Cancel \/ Pipe \/ Shutdown
Spec == Init /\ [][Next]_vars

Emit == (Len(hist) = MaxLen \/ ~ENABLED Next) => PrintT(<<"SCRIPT", ToJson(hist)>>)
=============================================================================
