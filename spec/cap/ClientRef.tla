----------------------------- MODULE ClientRef -----------------------------
(* Impl-layer model of capability.go: Client / clientHook / WeakClient /    *)
(* ClientPromise.  One action per critical-section step; every lock         *)
(* acquisition and every channel wait is its own (blockable) step.          *)
EXTENDS Integers, Sequences, FiniteSets, TLC

CONSTANTS Threads, Hooks, Promises, Clients, MaxOps, FixTransfer
ASSUME Promises \subseteq Hooks
NIL == "nil"
FREE == "free"

VARIABLES
  hmu, refs, calls, done, resolved, rhook, shut, hcreated,   \* per hook
  cmu, ch, crel, cexists,                                    \* per client handle
  wh,                                                        \* the single weak ref (hook or NIL)
  pc, loc,                                                   \* per thread: program counter, locals
  busy,                                                      \* client handles currently used by an op
  nops, fulfilled, panic

vars == <<hmu, refs, calls, done, resolved, rhook, shut, hcreated, cmu, ch, crel, cexists, wh, pc, loc, busy, nops, fulfilled, panic>>

NoLoc == [op |-> "none", c |-> NIL, h |-> NIL, n |-> 0, d |-> NIL, rh |-> NIL, p |-> NIL]

\* ---------- initial state: one settled hook with one client, one promise with one client ----------
H1 == CHOOSE h \in Hooks \ Promises : TRUE
P1 == CHOOSE p \in Promises : TRUE
C1 == CHOOSE c \in Clients : TRUE
C2 == CHOOSE c \in Clients \ {C1} : TRUE

Init ==
  /\ hmu = [h \in Hooks |-> FREE]
  /\ refs = [h \in Hooks |-> IF h \in {H1, P1} THEN 1 ELSE 0]
  /\ calls = [h \in Hooks |-> 0]
  /\ done = [h \in Hooks |-> FALSE]
  /\ resolved = [h \in Hooks |-> h \notin Promises]
  /\ rhook = [h \in Hooks |-> IF h \in Promises THEN NIL ELSE h]
  /\ shut = [h \in Hooks |-> 0]
  /\ hcreated = [h \in Hooks |-> h \in {H1, P1}]
  /\ cmu = [c \in Clients |-> FREE]
  /\ ch = [c \in Clients |-> IF c = C1 THEN H1 ELSE IF c = C2 THEN P1 ELSE NIL]
  /\ crel = [c \in Clients |-> FALSE]
  /\ cexists = [c \in Clients |-> c \in {C1, C2}]
  /\ wh = NIL
  /\ pc = [t \in Threads |-> "idle"]
  /\ loc = [t \in Threads |-> NoLoc]
  /\ busy = {}
  /\ nops = 0
  /\ fulfilled = FALSE
  /\ panic = FALSE

\* ---------- helpers ----------
Live(c) == cexists[c] /\ ~crel[c]
Usable(c) == Live(c) /\ c \notin busy
Fresh == {c \in Clients : ~cexists[c] /\ c \notin busy}
FreshClient == CHOOSE c \in Fresh : TRUE
HasFresh == Fresh # {}

RECURSIVE FinalOf(_)
FinalOf(h) == IF h = NIL THEN NIL ELSE IF ~resolved[h] \/ rhook[h] = h THEN h ELSE FinalOf(rhook[h])

Goto(t, l) == pc' = [pc EXCEPT ![t] = l]
SetLoc(t, r) == loc' = [loc EXCEPT ![t] = r]

\* close(done[h]); closing a closed channel panics
CloseDone(h) == IF done[h] THEN panic' = TRUE /\ done' = done ELSE done' = [done EXCEPT ![h] = TRUE] /\ panic' = panic

\* ---------- op start (idle thread picks an API call) ----------
StartOp(t) ==
  /\ pc[t] = "idle" /\ nops < MaxOps /\ ~panic
  /\ nops' = nops + 1
  /\ \/ \E c \in Clients : Usable(c) /\ \E op \in {"AddRef", "Release", "Call"} :
          /\ (op = "AddRef" => Fresh \ {c} # {})
          /\ LET d == IF op = "AddRef" THEN CHOOSE x \in Fresh \ {c} : TRUE ELSE NIL IN
             SetLoc(t, [NoLoc EXCEPT !.op = op, !.c = c, !.d = d]) /\ busy' = busy \cup {c} \cup (IF d = NIL THEN {} ELSE {d})
          /\ Goto(t, "lockC") /\ UNCHANGED <<wh, fulfilled>>
     \/ \E c \in Clients : Usable(c) /\ wh = NIL /\ ch[c] # NIL   \* WeakRef (peek): modelled atomically, hook taken unresolved-as-is
          /\ wh' = ch[c] /\ Goto(t, "idle") /\ UNCHANGED <<loc, busy, fulfilled>>
     \/ /\ wh # NIL /\ HasFresh                                   \* WeakClient.AddRef
        /\ SetLoc(t, [NoLoc EXCEPT !.op = "WeakAddRef", !.h = wh, !.d = FreshClient]) /\ busy' = busy \cup {FreshClient}
        /\ Goto(t, "lockH") /\ UNCHANGED <<wh, fulfilled>>
     \/ /\ ~fulfilled                                              \* ClientPromise.Fulfill(c) or Fulfill(nil)
        /\ fulfilled' = TRUE
        /\ \/ \E c \in Clients : Usable(c) /\ ch[c] # P1 /\
                SetLoc(t, [NoLoc EXCEPT !.op = "Fulfill", !.c = c, !.p = P1]) /\ busy' = busy \cup {c} /\ Goto(t, "lockC")
           \/ SetLoc(t, [NoLoc EXCEPT !.op = "Fulfill", !.c = NIL, !.p = P1]) /\ busy' = busy /\ Goto(t, "fLockP")
        /\ UNCHANGED wh
  /\ UNCHANGED <<hmu, refs, calls, done, resolved, rhook, shut, hcreated, cmu, ch, crel, cexists, panic>>

\* ---------- c.mu.Lock() ----------
LockC(t) ==
  /\ pc[t] = "lockC" /\ cmu[loc[t].c] = FREE
  /\ cmu' = [cmu EXCEPT ![loc[t].c] = t]
  /\ LET c == loc[t].c  op == loc[t].op IN
     IF op = "Fulfill" THEN     \* read c.h, unlock, go lock promise hook
        /\ SetLoc(t, [loc[t] EXCEPT !.rh = ch[c]]) /\ Goto(t, "fUnlockC")
     ELSE IF ch[c] = NIL THEN Goto(t, "retNil") /\ UNCHANGED loc
     ELSE SetLoc(t, [loc[t] EXCEPT !.h = ch[c]]) /\ Goto(t, "lockH")
  /\ UNCHANGED <<hmu, refs, calls, done, resolved, rhook, shut, hcreated, ch, crel, cexists, wh, busy, nops, fulfilled, panic>>

\* client had nil hook: unlock and finish
RetNil(t) ==
  /\ pc[t] = "retNil"
  /\ cmu' = [cmu EXCEPT ![loc[t].c] = FREE] /\ busy' = busy \ {loc[t].c, loc[t].d}
  /\ crel' = IF loc[t].op = "Release" THEN crel ELSE crel   \* Release on nil-hook client returns without marking
  /\ Goto(t, "idle") /\ SetLoc(t, NoLoc)
  /\ UNCHANGED <<hmu, refs, calls, done, resolved, rhook, shut, hcreated, ch, cexists, wh, nops, fulfilled, panic>>

\* ---------- h.mu.Lock() then one resolveHook iteration ----------
LockH(t) ==
  /\ pc[t] = "lockH" /\ hmu[loc[t].h] = FREE
  /\ hmu' = [hmu EXCEPT ![loc[t].h] = t]
  /\ Goto(t, "resolve")
  /\ UNCHANGED <<refs, calls, done, resolved, rhook, shut, hcreated, cmu, ch, crel, cexists, wh, loc, busy, nops, fulfilled, panic>>

\* resolveHook loop body: holding hmu[h]
Resolve(t) ==
  /\ pc[t] = "resolve"
  /\ LET h == loc[t].h IN
     IF ~resolved[h] \/ rhook[h] = h THEN
        Goto(t, "crit") /\ UNCHANGED <<hmu, loc>>
     ELSE /\ hmu' = [hmu EXCEPT ![h] = FREE]
          /\ IF rhook[h] = NIL THEN SetLoc(t, [loc[t] EXCEPT !.h = NIL]) /\ Goto(t, "resolvedNil")
             ELSE SetLoc(t, [loc[t] EXCEPT !.h = rhook[h]]) /\ Goto(t, "lockH")
  /\ UNCHANGED <<refs, calls, done, resolved, rhook, shut, hcreated, cmu, ch, crel, cexists, wh, busy, nops, fulfilled, panic>>

\* hook chain resolved to nil
ResolvedNil(t) ==
  /\ pc[t] = "resolvedNil"
  /\ LET op == loc[t].op  c == loc[t].c IN
     /\ IF op = "WeakAddRef" THEN wh' = NIL /\ busy' = busy \ {loc[t].d} /\ UNCHANGED <<cmu, ch, crel>>
        ELSE /\ wh' = wh /\ ch' = [ch EXCEPT ![c] = NIL] /\ cmu' = [cmu EXCEPT ![c] = FREE] /\ busy' = busy \ {c, loc[t].d}
             /\ crel' = IF op = "Release" THEN [crel EXCEPT ![c] = TRUE] ELSE crel
     /\ Goto(t, "idle") /\ SetLoc(t, NoLoc)
  /\ UNCHANGED <<hmu, refs, calls, done, resolved, rhook, shut, hcreated, cexists, nops, fulfilled, panic>>

\* ---------- critical section with both c.mu (if any) and h.mu held ----------
Crit(t) ==
  /\ pc[t] = "crit"
  /\ LET op == loc[t].op  c == loc[t].c  h == loc[t].h IN
     CASE op = "AddRef" ->
            LET d == loc[t].d IN
            /\ refs' = [refs EXCEPT ![h] = @ + 1]
            /\ ch' = [ch EXCEPT ![c] = h, ![d] = h] /\ cexists' = [cexists EXCEPT ![d] = TRUE]
            /\ hmu' = [hmu EXCEPT ![h] = FREE] /\ cmu' = [cmu EXCEPT ![c] = FREE] /\ busy' = busy \ {c, d}
            /\ Goto(t, "idle") /\ SetLoc(t, NoLoc)
            /\ UNCHANGED <<calls, done, crel, wh, panic>>
       [] op = "WeakAddRef" ->
            IF refs[h] = 0 THEN
               /\ hmu' = [hmu EXCEPT ![h] = FREE] /\ wh' = h /\ Goto(t, "idle") /\ SetLoc(t, NoLoc)
               /\ busy' = busy \ {loc[t].d}
               /\ UNCHANGED <<refs, ch, cexists, cmu, calls, done, crel, panic>>
            ELSE LET d == loc[t].d IN
               /\ refs' = [refs EXCEPT ![h] = @ + 1] /\ wh' = h
               /\ ch' = [ch EXCEPT ![d] = h] /\ cexists' = [cexists EXCEPT ![d] = TRUE]
               /\ hmu' = [hmu EXCEPT ![h] = FREE] /\ Goto(t, "idle") /\ SetLoc(t, NoLoc)
               /\ busy' = busy \ {d}
               /\ UNCHANGED <<cmu, calls, done, crel, panic>>
       [] op = "Call" ->      \* startCall: calls++, unlock both, go run the hook's Send
            /\ calls' = [calls EXCEPT ![h] = @ + 1] /\ ch' = [ch EXCEPT ![c] = h]
            /\ hmu' = [hmu EXCEPT ![h] = FREE] /\ cmu' = [cmu EXCEPT ![c] = FREE]
            /\ Goto(t, "inSend")
            /\ UNCHANGED <<refs, done, crel, cexists, wh, busy, loc, panic>>
       [] op = "Release" ->
            /\ crel' = [crel EXCEPT ![c] = TRUE] /\ ch' = [ch EXCEPT ![c] = NIL]
            /\ refs' = [refs EXCEPT ![h] = @ - 1]
            /\ hmu' = [hmu EXCEPT ![h] = FREE] /\ cmu' = [cmu EXCEPT ![c] = FREE] /\ busy' = busy \ {c}
            /\ IF refs[h] - 1 > 0 THEN Goto(t, "idle") /\ SetLoc(t, NoLoc) /\ UNCHANGED <<done, panic>>
               ELSE /\ (IF calls[h] = 0 THEN CloseDone(h) ELSE UNCHANGED <<done, panic>>)
                    /\ Goto(t, "waitDone") /\ UNCHANGED loc
            /\ UNCHANGED <<calls, cexists, wh>>
  /\ UNCHANGED <<resolved, rhook, shut, hcreated, nops, fulfilled>>

\* ---------- inside ClientHook.Send (application code); then finish() ----------
InSend(t) ==   \* Send returns; finish(): lock saved hook
  /\ pc[t] = "inSend" /\ hmu[loc[t].h] = FREE
  /\ hmu' = [hmu EXCEPT ![loc[t].h] = t] /\ Goto(t, "finish")
  /\ UNCHANGED <<refs, calls, done, resolved, rhook, shut, hcreated, cmu, ch, crel, cexists, wh, loc, busy, nops, fulfilled, panic>>

Finish(t) ==
  /\ pc[t] = "finish"
  /\ LET h == loc[t].h IN
     /\ calls' = [calls EXCEPT ![h] = @ - 1]
     /\ (IF refs[h] = 0 /\ calls[h] - 1 = 0 THEN CloseDone(h) ELSE UNCHANGED <<done, panic>>)
     /\ hmu' = [hmu EXCEPT ![h] = FREE] /\ busy' = busy \ {loc[t].c}
  /\ Goto(t, "idle") /\ SetLoc(t, NoLoc)
  /\ UNCHANGED <<refs, resolved, rhook, shut, hcreated, cmu, ch, crel, cexists, wh, nops, fulfilled>>

\* ---------- <-h.done ; h.Shutdown() ----------
WaitDone(t) ==
  /\ pc[t] = "waitDone" /\ done[loc[t].h]
  /\ shut' = [shut EXCEPT ![loc[t].h] = @ + 1]
  /\ Goto(t, "idle") /\ SetLoc(t, NoLoc)
  /\ UNCHANGED <<hmu, refs, calls, done, resolved, rhook, hcreated, cmu, ch, crel, cexists, wh, busy, nops, fulfilled, panic>>

\* ---------- Fulfill ----------
FUnlockC(t) ==
  /\ pc[t] = "fUnlockC"
  /\ cmu' = [cmu EXCEPT ![loc[t].c] = FREE] /\ Goto(t, "fLockP")
  /\ UNCHANGED <<hmu, refs, calls, done, resolved, rhook, shut, hcreated, ch, crel, cexists, wh, loc, busy, nops, fulfilled, panic>>

FLockP(t) ==
  /\ pc[t] = "fLockP" /\ hmu[loc[t].p] = FREE
  /\ hmu' = [hmu EXCEPT ![loc[t].p] = t] /\ Goto(t, "fMark")
  /\ UNCHANGED <<refs, calls, done, resolved, rhook, shut, hcreated, cmu, ch, crel, cexists, wh, loc, busy, nops, fulfilled, panic>>

FMark(t) ==   \* resolvedHook = rh; close(resolved); refs := p.refs; p.refs = 0
  /\ pc[t] = "fMark"
  /\ LET p == loc[t].p  rh == loc[t].rh IN
     /\ rhook' = [rhook EXCEPT ![p] = rh] /\ resolved' = [resolved EXCEPT ![p] = TRUE]
     /\ refs' = IF FixTransfer /\ refs[p] > 0 /\ FinalOf(rh) # NIL
                THEN [refs EXCEPT ![p] = 0, ![FinalOf(rh)] = @ + refs[p]] ELSE [refs EXCEPT ![p] = 0]
     /\ IF refs[p] = 0 THEN
           /\ hmu' = [hmu EXCEPT ![p] = FREE] /\ busy' = busy \ {loc[t].c}
           /\ Goto(t, "idle") /\ SetLoc(t, NoLoc) /\ UNCHANGED <<done, panic>>
        ELSE
           /\ (IF calls[p] = 0 THEN CloseDone(p) ELSE UNCHANGED <<done, panic>>)
           /\ IF FixTransfer THEN SetLoc(t, [loc[t] EXCEPT !.n = refs[p], !.h = p]) /\ Goto(t, "fWaitU")
              ELSE SetLoc(t, [loc[t] EXCEPT !.n = refs[p], !.h = p]) /\ Goto(t, "fResolve")
           /\ UNCHANGED <<hmu, busy>>
  /\ UNCHANGED <<calls, shut, hcreated, cmu, ch, crel, cexists, wh, nops, fulfilled>>

\* resolveHook(cp.h): swaps the mutex on p for the mutex on the final hook
FResolve(t) ==
  /\ pc[t] = "fResolve"
  /\ LET h == loc[t].h IN
     IF ~resolved[h] \/ rhook[h] = h THEN
        \* final hook reached (holding its mutex): rh.refs += refs
        /\ refs' = [refs EXCEPT ![h] = @ + loc[t].n]
        /\ hmu' = [hmu EXCEPT ![h] = FREE] /\ Goto(t, "fWait") /\ UNCHANGED loc
     ELSE /\ hmu' = [hmu EXCEPT ![h] = FREE] /\ UNCHANGED refs
          /\ IF rhook[h] = NIL THEN Goto(t, "fWait") /\ UNCHANGED loc
             ELSE SetLoc(t, [loc[t] EXCEPT !.h = rhook[h]]) /\ Goto(t, "fLockNext")
  /\ UNCHANGED <<calls, done, resolved, rhook, shut, hcreated, cmu, ch, crel, cexists, wh, busy, nops, fulfilled, panic>>

FLockNext(t) ==
  /\ pc[t] = "fLockNext" /\ hmu[loc[t].h] = FREE
  /\ hmu' = [hmu EXCEPT ![loc[t].h] = t] /\ Goto(t, "fResolve")
  /\ UNCHANGED <<refs, calls, done, resolved, rhook, shut, hcreated, cmu, ch, crel, cexists, wh, loc, busy, nops, fulfilled, panic>>

FWaitU(t) ==
  /\ pc[t] = "fWaitU"
  /\ hmu' = [hmu EXCEPT ![loc[t].p] = FREE] /\ Goto(t, "fWait")
  /\ UNCHANGED <<refs, calls, done, resolved, rhook, shut, hcreated, cmu, ch, crel, cexists, wh, loc, busy, nops, fulfilled, panic>>

FWait(t) ==   \* <-cp.h.done ; cp.h.Shutdown()
  /\ pc[t] = "fWait" /\ done[loc[t].p]
  /\ shut' = [shut EXCEPT ![loc[t].p] = @ + 1] /\ busy' = busy \ {loc[t].c}
  /\ Goto(t, "idle") /\ SetLoc(t, NoLoc)
  /\ UNCHANGED <<hmu, refs, calls, done, resolved, rhook, hcreated, cmu, ch, crel, cexists, wh, nops, fulfilled, panic>>

Step(t) == StartOp(t) \/ LockC(t) \/ RetNil(t) \/ LockH(t) \/ Resolve(t) \/ ResolvedNil(t) \/ Crit(t)
           \/ InSend(t) \/ Finish(t) \/ WaitDone(t) \/ FUnlockC(t) \/ FLockP(t) \/ FMark(t) \/ FResolve(t)
           \/ FLockNext(t) \/ FWait(t) \/ FWaitU(t)

AllIdle == \A t \in Threads : pc[t] = "idle"
Terminated == AllIdle
Next == (\E t \in Threads : Step(t)) \/ (Terminated /\ UNCHANGED vars)
Spec == Init /\ [][Next]_vars

\* ---------- properties ----------
RECURSIVE Target(_)
Target(h) == IF h = NIL THEN NIL ELSE IF ~resolved[h] \/ rhook[h] = h THEN h ELSE Target(rhook[h])
\* strong references that denote hook h right now
Denoting(h) == {c \in Clients : Live(c) /\ ch[c] # NIL /\ Target(ch[c]) = h}

NoStuck        == AllIdle \/ ENABLED (\E t \in Threads : Step(t))
NoPanic        == ~panic
ShutAtMostOnce == \A h \in Hooks : shut[h] <= 1
RefsNonNeg     == \A h \in Hooks : refs[h] >= 0 /\ calls[h] >= 0
\* a settled hook that has been shut down is denoted by no live client
NoShutWhileReferenced == \A h \in Hooks : (shut[h] > 0 /\ h \notin Promises) => Denoting(h) = {}
\* nothing is shut down while a call bracket through it is open
NoShutDuringCall == \A h \in Hooks : shut[h] > 0 => calls[h] = 0
\* at quiescence reference counts are exact and unreferenced hooks are shut down exactly once
QuiescentExact ==
  AllIdle => \A h \in Hooks :
     /\ (h \notin Promises \/ ~resolved[h]) => refs[h] = Cardinality(Denoting(h))
     /\ (hcreated[h] /\ Denoting(h) = {} /\ (h \notin Promises \/ resolved[h] \/ refs[h] = 0)) => shut[h] = 1
     /\ (Denoting(h) # {} /\ h \notin Promises) => shut[h] = 0
=============================================================================
