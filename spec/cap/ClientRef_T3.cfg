SPECIFICATION Spec
CONSTANTS
  Threads = {t1, t2, t3}
  Hooks = {h1, p1}
  Promises = {p1}
  Clients = {c1, c2, c3, c4, c5}
  MaxOps = 6
  FixTransfer = TRUE
INVARIANTS NoStuck NoPanic ShutAtMostOnce RefsNonNeg NoShutWhileReferenced NoShutDuringCall QuiescentExact
CHECK_DEADLOCK FALSE
