---------------------------- MODULE ClientRefAbs ----------------------------
(* Abstract (property-level) specification of capability references and its  *)
(* trace specification (C10).                                                 *)
(*                                                                            *)
(* State: client handles (live / released) denoting hooks; promise hooks      *)
(* that may be resolved to another hook or to null; per hook the number of    *)
(* calls in progress and of Shutdown callbacks seen.  A handle's references   *)
(* count on the hook it denotes *after following resolutions* - this is the   *)
(* "references of a promised client transfer to the capability it resolves    *)
(* to" clause.                                                                *)
(*                                                                            *)
(* Trace: one event per line of captrace.ndjson, totally ordered by a global  *)
(* sequence number taken inside the harness callbacks:                        *)
(*   start / end of each API call (the operation takes effect atomically at   *)
(*   a silent linearisation step Lin(t) in between),                          *)
(*   send-enter / send-exit of the instrumented hook, shutdown of a hook,     *)
(*   quiesce (all threads done), reset (next execution).                      *)
(* A Shutdown while a live reference denotes the hook or a call is inside it, *)
(* a second Shutdown, a call delivered to a hook other than the one the       *)
(* handle denoted at some instant of the call, a wrong result, or a missing   *)
(* Shutdown at quiescence make the trace unacceptable.                        *)
EXTENDS Integers, Sequences, FiniteSets, TLC, Json

CONSTANTS Handles, Hooks, Promises, Weaks, Threads

Tr == ndJsonDeserialize("captrace.ndjson")

VARIABLES l,        \* next trace line
          hs,       \* handle -> [st, den]
          res,      \* hook -> "SETTLED" | "UNRES" | hook | "NULL"
          open,     \* hook -> calls whose Send is in progress
          inbr,     \* hook -> call brackets open (linearised, not yet ended)
          shut,     \* hook -> Shutdown count
          weak,     \* weak ref -> hook | "NULL" | "NONE"
          pend,     \* thread -> pending operation
          created   \* hooks that exist in this execution
vars == <<l, hs, res, open, inbr, shut, weak, pend, created>>

NoOp == [op |-> "none"]
InitState ==
  /\ hs = [h \in Handles |-> IF h \in {"c1", "c9"} THEN [st |-> "live", den |-> "k1"]
                             ELSE IF h = "c2" THEN [st |-> "live", den |-> "p1"]
                             ELSE [st |-> "none", den |-> "NULL"]]
  /\ res = [k \in Hooks |-> IF k \in Promises THEN "UNRES" ELSE "SETTLED"]
  /\ open = [k \in Hooks |-> 0] /\ inbr = [k \in Hooks |-> 0] /\ shut = [k \in Hooks |-> 0]
  /\ weak = [w \in Weaks |-> "NONE"]
  /\ pend = [t \in Threads |-> NoOp]
  /\ created = {"k1", "p1"}
Init == l = 1 /\ InitState

RECURSIVE Target(_)
Target(x) == IF x = "NULL" THEN "NULL" ELSE IF res[x] \in {"SETTLED", "UNRES"} THEN x ELSE Target(res[x])
Refs(k) == Cardinality({ h \in Handles : hs[h].st = "live" /\ hs[h].den # "NULL" /\ Target(hs[h].den) = k })

Ev(e) == l <= Len(Tr) /\ Tr[l].ev = e
Consume == l' = l + 1

\* ---- reset: next execution ----
Reset == /\ Ev("reset") /\ Consume
         \* c0 is a second reference to the promised client, present only in programs that ask for it (reset.h = "c0")
         /\ hs' = [h \in Handles |-> IF h \in {"c1", "c9"} THEN [st |-> "live", den |-> "k1"]
                                     ELSE IF h = "c2" \/ (h = "c0" /\ Tr[l].h = "c0") THEN [st |-> "live", den |-> "p1"]
                                     ELSE IF h = "c7" /\ Tr[l].new = "c7" THEN [st |-> "live", den |-> "p2"]      \* a second promised client
                                     ELSE [st |-> "none", den |-> "NULL"]]
         /\ res' = [k \in Hooks |-> IF k \in Promises THEN "UNRES" ELSE "SETTLED"]
         /\ open' = [k \in Hooks |-> 0] /\ inbr' = [k \in Hooks |-> 0] /\ shut' = [k \in Hooks |-> 0]
         \* programs may start with a weak reference w1 to k1 (reset.w = "w1")
         /\ weak' = [w \in Weaks |-> IF w = "w1" /\ Tr[l].w = "w1" THEN "k1" ELSE "NONE"] /\ pend' = [t \in Threads |-> NoOp]
         /\ created' = {"k1", "p1"} \cup (IF Tr[l].new = "c7" THEN {"p2"} ELSE {})

\* ---- API call start ----
Start == /\ Ev("start") /\ Consume
         /\ LET e == Tr[l] IN
            /\ pend[e.t] = NoOp
            /\ pend' = [pend EXCEPT ![e.t] = [op |-> e.op, h |-> e.h, new |-> e.new, w |-> e.w, lin |-> FALSE, result |-> "", k |-> "NULL", sent |-> FALSE]]
         /\ UNCHANGED <<hs, res, open, inbr, shut, weak, created>>

\* ---- linearisation point of thread t's pending call (silent) ----
Lin(t) ==
  /\ pend[t] # NoOp /\ ~pend[t].lin
  /\ LET p == pend[t] IN
     CASE p.op = "AddRef" ->
            /\ hs[p.h].st = "live"
            /\ LET k == Target(hs[p.h].den) IN
               IF k = "NULL"
               THEN /\ pend' = [pend EXCEPT ![t].lin = TRUE, ![t].result = "nil"]
                    /\ hs' = [hs EXCEPT ![p.new] = [st |-> "nil", den |-> "NULL"]]      \* a nil client: calls fail with "null"
               ELSE /\ hs' = [hs EXCEPT ![p.new] = [st |-> "live", den |-> k]]
                    /\ pend' = [pend EXCEPT ![t].lin = TRUE, ![t].result = "client"]
            /\ UNCHANGED <<res, open, inbr, shut, weak, created>>
       [] p.op = "Release" ->
            /\ hs' = [hs EXCEPT ![p.h].st = IF hs[p.h].st = "live" THEN "released" ELSE hs[p.h].st]
            /\ pend' = [pend EXCEPT ![t].lin = TRUE, ![t].result = "ok"]
            /\ UNCHANGED <<res, open, inbr, shut, weak, created>>
       [] p.op = "Call" ->
            /\ IF hs[p.h].st = "nil" THEN pend' = [pend EXCEPT ![t].lin = TRUE, ![t].result = "err:null"] /\ UNCHANGED inbr
               \* a released client whose capability had resolved to null answers with either error: which one depends on whether the
               \* resolution had been noticed (by an earlier operation on that client) before the Release - both are error answers
               ELSE IF hs[p.h].st # "live" THEN /\ \E r \in (IF hs[p.h].st = "released" /\ Target(hs[p.h].den) = "NULL" THEN {"err:released", "err:null"} ELSE {"err:released"}) :
                                                     pend' = [pend EXCEPT ![t].lin = TRUE, ![t].result = r]
                                                /\ UNCHANGED inbr
               ELSE LET k == Target(hs[p.h].den) IN
                    IF k = "NULL" THEN pend' = [pend EXCEPT ![t].lin = TRUE, ![t].result = "err:null"] /\ UNCHANGED inbr
                    ELSE /\ shut[k] = 0                      \* a call never enters a hook that was shut down
                         /\ pend' = [pend EXCEPT ![t].lin = TRUE, ![t].result = "sent", ![t].k = k]
                         /\ inbr' = [inbr EXCEPT ![k] = @ + 1]
            /\ UNCHANGED <<hs, res, open, shut, weak, created>>
       [] p.op = "IsValid" ->
            /\ pend' = [pend EXCEPT ![t].lin = TRUE,
                           ![t].result = IF hs[p.h].st = "live" /\ Target(hs[p.h].den) # "NULL" THEN "true" ELSE "false"]
            /\ UNCHANGED <<hs, res, open, inbr, shut, weak, created>>
       [] p.op = "WeakRef" ->
            /\ hs[p.h].st = "live"
            /\ LET k == Target(hs[p.h].den) IN
               /\ weak' = [weak EXCEPT ![p.w] = k]
               /\ pend' = [pend EXCEPT ![t].lin = TRUE, ![t].result = IF k = "NULL" THEN "nil" ELSE "weak"]
            /\ UNCHANGED <<hs, res, open, inbr, shut, created>>
       [] p.op = "WeakAddRef" ->
            /\ LET k == IF weak[p.w] = "NONE" THEN "NULL" ELSE Target(weak[p.w]) IN
               IF k = "NULL" THEN pend' = [pend EXCEPT ![t].lin = TRUE, ![t].result = "nil"] /\ hs' = [hs EXCEPT ![p.new] = [st |-> "nil", den |-> "NULL"]]
               ELSE IF Refs(k) = 0 THEN pend' = [pend EXCEPT ![t].lin = TRUE, ![t].result = "dead"] /\ hs' = [hs EXCEPT ![p.new] = [st |-> "nil", den |-> "NULL"]]
               ELSE /\ hs' = [hs EXCEPT ![p.new] = [st |-> "live", den |-> k]]
                    /\ pend' = [pend EXCEPT ![t].lin = TRUE, ![t].result = "client"]
            /\ UNCHANGED <<res, open, inbr, shut, weak, created>>
       [] p.op = "Fulfill" ->    \* resolve promise p1 (or the promise named in w) to what handle h denotes right now (or to null)
            /\ LET pr == IF p.w \in Promises THEN p.w ELSE "p1" IN
               /\ res[pr] = "UNRES"
               /\ res' = [res EXCEPT ![pr] = IF p.h = "nil" THEN "NULL" ELSE hs[p.h].den]
            /\ pend' = [pend EXCEPT ![t].lin = TRUE, ![t].result = "ok"]
            /\ UNCHANGED <<hs, open, inbr, shut, weak, created>>
  /\ UNCHANGED l

\* ---- API call end: result must be what the linearisation produced ----
End == /\ Ev("end") /\ Consume
       /\ LET e == Tr[l]  p == pend[e.t] IN
          /\ p # NoOp /\ p.lin /\ p.op = e.op
          /\ e.res = p.result
          /\ (p.op = "Call" /\ p.result = "sent" => p.sent)            \* a delivered call went through the hook
          /\ inbr' = IF p.op = "Call" /\ p.result = "sent" THEN [inbr EXCEPT ![p.k] = @ - 1] ELSE inbr
          \* (the promise's hook is shut down by Fulfill or, if its clients ran out of references first, by the
          \*  last Release - which may still be in progress when Fulfill returns: checked at quiescence only)
          /\ pend' = [pend EXCEPT ![e.t] = NoOp]
       /\ UNCHANGED <<hs, res, open, shut, weak, created>>

\* ---- instrumented hook callbacks ----
SendEnter == /\ Ev("send-enter") /\ Consume
             /\ LET e == Tr[l]  p == pend[e.t] IN
                /\ p # NoOp /\ p.op = "Call" /\ p.lin /\ p.result = "sent" /\ ~p.sent
                /\ p.k = e.k                                         \* delivered to the capability the handle denoted
                /\ shut[e.k] = 0                                     \* never after Shutdown
                /\ pend' = [pend EXCEPT ![e.t].sent = TRUE]
                /\ open' = [open EXCEPT ![e.k] = @ + 1]
             /\ UNCHANGED <<hs, res, inbr, shut, weak, created>>
SendExit == /\ Ev("send-exit") /\ Consume
            /\ open' = [open EXCEPT ![Tr[l].k] = @ - 1] /\ open[Tr[l].k] > 0
            /\ UNCHANGED <<hs, res, inbr, shut, weak, pend, created>>

\* Shutdown of hook k: at most once, no call inside, and either no live reference denotes it or
\* (for a promise) it has been resolved
Shutdown == /\ Ev("shutdown") /\ Consume
            /\ LET k == Tr[l].k IN
               /\ shut[k] = 0
               /\ open[k] = 0                 \* no call is inside the hook (send-exit is logged before the call bracket closes)
               /\ (IF k \in Promises THEN res[k] # "UNRES" \/ Refs(k) = 0 ELSE Refs(k) = 0)
               /\ shut' = [shut EXCEPT ![k] = 1]
            /\ UNCHANGED <<hs, res, open, inbr, weak, pend, created>>

\* all threads are done: what had to be shut down has been, what is still referenced has not
Quiesce == /\ Ev("quiesce") /\ Consume
           /\ \A t \in Threads : pend[t] = NoOp
           /\ \A k \in created :
                /\ ((Refs(k) = 0 \/ (k \in Promises /\ res[k] # "UNRES")) => shut[k] = 1)
                /\ ((Refs(k) > 0 /\ k \notin Promises) => shut[k] = 0)
           /\ UNCHANGED <<hs, res, open, inbr, shut, weak, pend, created>>

Next == Reset \/ Start \/ End \/ SendEnter \/ SendExit \/ Shutdown \/ Quiesce \/ (\E t \in Threads : Lin(t))
Spec == Init /\ [][Next]_vars

\* ---- acceptance: highest line reached (silent steps make the diameter useless) ----
ASSUME TLCSet(1, 0)
HighWater == TLCSet(1, IF l > TLCGet(1) THEN l ELSE TLCGet(1))
Accepted == IF TLCGet(1) = Len(Tr) + 1 THEN TRUE ELSE Print(<<"REJECTED_AT_LINE", TLCGet(1)>>, FALSE)
=============================================================================
