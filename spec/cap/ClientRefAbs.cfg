SPECIFICATION Spec
CONSTANTS
  Handles = {"c0", "c1", "c2", "c3", "c4", "c5", "c6", "c7", "c8", "c9"}
  Hooks = {"k1", "p1", "p2"}
  Promises = {"p1", "p2"}
  Weaks = {"w1", "w2"}
  Threads = {1, 2, 3}
CONSTRAINT HighWater
POSTCONDITION Accepted
CHECK_DEADLOCK FALSE
