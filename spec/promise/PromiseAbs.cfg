SPECIFICATION Spec
CONSTANTS
  Threads = {1, 2, 3}
  Handles = {"x1", "x2", "x3", "x4"}
CONSTRAINT HighWater
POSTCONDITION Accepted
CHECK_DEADLOCK FALSE
