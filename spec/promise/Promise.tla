------------------------------ MODULE Promise ------------------------------
(* Impl-layer model of answer.go for one promise and one pipeline path,     *)
(* composed with the clientHook machinery of capability.go for the proxy    *)
(* client created by Future.Client() (hook X, client c) and the capability  *)
(* found in the result (hook R).  One action per lock acquisition,          *)
(* critical section or channel wait.                                        *)
EXTENDS Integers, Sequences, FiniteSets, TLC

CONSTANTS Threads, MaxOps,
          FixD1,     \* TRUE: Future.Client unlocks before returning an existing proxy
          ResultHasCap,
          AvoidD17   \* TRUE: exploration aid - a proxy call is not started while a Fulfill is between FF1 and FFFinish

FREE == <<"free">>
Own(t) == <<"t", t>>

VARIABLES
  \* promise
  pmu, caller, resolvedCh, ongoing, callsStopped, hasProxy, proxyFulfilled, releasedClients,
  \* proxy client c and its hook X
  xcmu, xch, xcrel, xhmu, xrefs, xcalls, xdone, xresolved, xrhook, xshut,
  \* result hook R
  rhmu, rrefs, rcalls, rdone, rshut,
  \* deliveries
  toCaller, toResult, toError,
  \* threads
  pc, loc, nops, didFulfill, started

PV == <<pmu, caller, resolvedCh, ongoing, callsStopped, hasProxy, proxyFulfilled, releasedClients>>
XV == <<xcmu, xch, xcrel, xhmu, xrefs, xcalls, xdone, xresolved, xrhook, xshut>>
RV == <<rhmu, rrefs, rcalls, rdone, rshut>>
DV == <<toCaller, toResult, toError>>
TV == <<pc, loc>>
MV == <<nops, didFulfill, started>>
vars == <<PV, XV, RV, DV, TV, MV>>

NoLoc == [op |-> "none", h |-> "none", n |-> 0, via |-> "none"]

Init ==
  /\ pmu = FREE /\ caller = TRUE /\ resolvedCh = "open" /\ ongoing = 0 /\ callsStopped = "nil"
  /\ hasProxy = FALSE /\ proxyFulfilled = FALSE /\ releasedClients = FALSE
  /\ xcmu = FREE /\ xch = "NIL" /\ xcrel = FALSE /\ xhmu = FREE /\ xrefs = 0 /\ xcalls = 0 /\ xdone = FALSE
  /\ xresolved = FALSE /\ xrhook = "NIL" /\ xshut = 0
  /\ rhmu = FREE /\ rrefs = 1 /\ rcalls = 0 /\ rdone = FALSE /\ rshut = 0
  /\ toCaller = 0 /\ toResult = 0 /\ toError = 0
  /\ pc = [t \in Threads |-> "idle"] /\ loc = [t \in Threads |-> NoLoc]
  /\ nops = 0 /\ didFulfill = FALSE /\ started = 0

Goto(t, l) == pc' = [pc EXCEPT ![t] = l]
GotoL(t, l, r) == pc' = [pc EXCEPT ![t] = l] /\ loc' = [loc EXCEPT ![t] = r]

\* ---------------- op selection ----------------
StartOp(t) ==
  /\ pc[t] = "idle" /\ nops < MaxOps
  /\ nops' = nops + 1
  /\ \/ GotoL(t, "ps1", [NoLoc EXCEPT !.op = "PS", !.via = "ans"]) /\ started' = started + 1 /\ UNCHANGED didFulfill
     \/ hasProxy /\ ~xcrel /\ (AvoidD17 => (caller \/ resolvedCh = "closed")) /\ (AvoidD17 => \A u \in Threads : pc[u] # "ff1")
        /\ GotoL(t, "pcall1", [NoLoc EXCEPT !.op = "PC"]) /\ started' = started + 1 /\ UNCHANGED didFulfill
     \/ GotoL(t, "gc1", [NoLoc EXCEPT !.op = "GC"]) /\ UNCHANGED <<started, didFulfill>>
     \/ ~didFulfill /\ didFulfill' = TRUE /\ GotoL(t, "ff1", [NoLoc EXCEPT !.op = "FF"]) /\ UNCHANGED started
     \/ GotoL(t, "rc1", [NoLoc EXCEPT !.op = "RC"]) /\ UNCHANGED <<started, didFulfill>>
  /\ UNCHANGED <<PV, XV, RV, DV>>

Done(t) == GotoL(t, "idle", NoLoc)

\* ---------------- Answer.PipelineSend (also reached through the proxy's pipelineClient.Send) ----------------
PS1(t) ==   \* p.mu.Lock(); classify
  /\ pc[t] = "ps1" /\ pmu = FREE
  /\ IF caller THEN                       \* unresolved: admit the call
        /\ ongoing' = ongoing + 1 /\ Goto(t, "inCaller") /\ UNCHANGED <<pmu, loc>>
     ELSE IF resolvedCh = "open" THEN     \* pending resolution: block until resolved
        /\ Goto(t, "psWaitRes") /\ UNCHANGED <<ongoing, pmu, loc>>
     ELSE                                  \* resolved
        /\ Goto(t, "deliverR") /\ UNCHANGED <<ongoing, pmu, loc>>
  /\ UNCHANGED <<caller, resolvedCh, callsStopped, hasProxy, proxyFulfilled, releasedClients, XV, RV, DV, MV>>

InCaller(t) ==   \* caller.PipelineSend(...) runs (application code), then p.mu.Lock()
  /\ pc[t] = "inCaller" /\ toCaller' = toCaller + 1 /\ Goto(t, "psRelock")
  /\ UNCHANGED <<PV, XV, RV, toResult, toError, loc, MV>>

PSRelock(t) ==
  /\ pc[t] = "psRelock" /\ pmu = FREE
  /\ ongoing' = ongoing - 1
  /\ callsStopped' = IF ongoing - 1 = 0 /\ callsStopped = "open" THEN "closed" ELSE callsStopped
  /\ Goto(t, "afterSend")
  /\ UNCHANGED <<pmu, caller, resolvedCh, hasProxy, proxyFulfilled, releasedClients, XV, RV, DV, loc, MV>>

PSWaitRes(t) ==  \* <-p.resolved ; p.mu.Lock() ; resolution ; Unlock
  /\ pc[t] = "psWaitRes" /\ resolvedCh = "closed" /\ pmu = FREE
  /\ Goto(t, "deliverR") /\ UNCHANGED <<PV, XV, RV, DV, loc, MV>>

DeliverR(t) ==   \* r.client(transform).SendCall: delivered to the capability in the result (or error client)
  /\ pc[t] = "deliverR"
  /\ IF ResultHasCap THEN toResult' = toResult + 1 /\ UNCHANGED toError
     ELSE toError' = toError + 1 /\ UNCHANGED toResult
  /\ Goto(t, "afterSend") /\ UNCHANGED <<PV, XV, RV, toCaller, loc, MV>>

AfterSend(t) ==  \* direct call: done; call through the proxy: finish() on the hook whose bracket is open
  /\ pc[t] = "afterSend"
  /\ IF loc[t].op = "PC" THEN Goto(t, "finish") /\ UNCHANGED loc ELSE Done(t)
  /\ UNCHANGED <<PV, XV, RV, DV, MV>>

\* ---------------- call through the proxy client c: Client.startCall / finish ----------------
PCall1(t) ==  \* c.mu.Lock()
  /\ pc[t] = "pcall1" /\ xcmu = FREE /\ xcmu' = Own(t)
  /\ IF xch = "NIL" THEN Goto(t, "pcallNil") /\ UNCHANGED loc
     ELSE GotoL(t, "pcallLockH", [loc[t] EXCEPT !.h = xch])
  /\ UNCHANGED <<PV, xch, xcrel, xhmu, xrefs, xcalls, xdone, xresolved, xrhook, xshut, RV, DV, MV>>

PCallNil(t) ==  \* call on a null / released client: error answer
  /\ pc[t] = "pcallNil" /\ xcmu' = FREE /\ toError' = toError + 1 /\ Done(t)
  /\ UNCHANGED <<PV, xch, xcrel, xhmu, xrefs, xcalls, xdone, xresolved, xrhook, xshut, RV, toCaller, toResult, MV>>

PCallLockH(t) ==  \* c.h.mu.Lock() / next hook in resolveHook
  /\ pc[t] = "pcallLockH"
  /\ IF loc[t].h = "X" THEN xhmu = FREE /\ xhmu' = Own(t) /\ UNCHANGED rhmu
                       ELSE rhmu = FREE /\ rhmu' = Own(t) /\ UNCHANGED xhmu
  /\ Goto(t, "pcallResolve")
  /\ UNCHANGED <<PV, xcmu, xch, xcrel, xrefs, xcalls, xdone, xresolved, xrhook, xshut, rrefs, rcalls, rdone, rshut, DV, loc, MV>>

PCallResolve(t) ==  \* resolveHook step, then calls++ and unlock both
  /\ pc[t] = "pcallResolve"
  /\ IF loc[t].h = "X" /\ xresolved THEN
        /\ xhmu' = FREE
        /\ IF xrhook = "NIL" THEN xch' = "NIL" /\ Goto(t, "pcallNil") /\ UNCHANGED loc
           ELSE GotoL(t, "pcallLockH", [loc[t] EXCEPT !.h = "R"]) /\ UNCHANGED xch
        /\ UNCHANGED <<xcmu, xcalls, rhmu, rcalls>>
     ELSE IF loc[t].h = "X" THEN
        /\ xcalls' = xcalls + 1 /\ xhmu' = FREE /\ xcmu' = FREE /\ xch' = "X"
        /\ GotoL(t, "ps1", [loc[t] EXCEPT !.via = "proxy"])   \* pipelineClient.Send -> ans.PipelineSend
        /\ UNCHANGED <<rhmu, rcalls>>
     ELSE
        /\ rcalls' = rcalls + 1 /\ rhmu' = FREE /\ xcmu' = FREE /\ xch' = "R"
        /\ Goto(t, "pcallSendR") /\ UNCHANGED <<loc, xhmu, xcalls>>
  /\ UNCHANGED <<PV, xcrel, xrefs, xdone, xresolved, xrhook, xshut, rrefs, rdone, rshut, DV, MV>>

PCallSendR(t) ==  \* R's own Send
  /\ pc[t] = "pcallSendR" /\ toResult' = toResult + 1 /\ Goto(t, "finish")
  /\ UNCHANGED <<PV, XV, RV, toCaller, toError, loc, MV>>

Finish(t) ==   \* finish(): savedHook.mu.Lock(); calls--; maybe close(done); Unlock
  /\ pc[t] = "finish"
  /\ IF loc[t].h = "X" THEN
        /\ xhmu = FREE /\ xcalls' = xcalls - 1
        /\ xdone' = IF xrefs = 0 /\ xcalls - 1 = 0 THEN TRUE ELSE xdone
        /\ UNCHANGED <<rcalls, rdone>>
     ELSE
        /\ rhmu = FREE /\ rcalls' = rcalls - 1
        /\ rdone' = IF rrefs = 0 /\ rcalls - 1 = 0 THEN TRUE ELSE rdone
        /\ UNCHANGED <<xcalls, xdone>>
  /\ Done(t)
  /\ UNCHANGED <<PV, xcmu, xch, xcrel, xhmu, xrefs, xresolved, xrhook, xshut, rhmu, rrefs, rshut, DV, MV>>

\* ---------------- Future.Client ----------------
GC1(t) ==
  /\ pc[t] = "gc1" /\ pmu = FREE
  /\ IF caller THEN
        IF hasProxy THEN
           \* return row[0].client  -- the code returns here WITHOUT p.mu.Unlock()
           /\ pmu' = IF FixD1 THEN FREE ELSE Own(t)
           /\ Done(t) /\ UNCHANGED <<hasProxy, XV>>
        ELSE
           /\ hasProxy' = TRUE /\ xch' = "X" /\ xrefs' = 1 /\ pmu' = FREE /\ Done(t)
           /\ UNCHANGED <<xcmu, xcrel, xhmu, xcalls, xdone, xresolved, xrhook, xshut>>
     ELSE IF resolvedCh = "open" THEN Goto(t, "gcWait") /\ UNCHANGED <<pmu, hasProxy, XV, loc>>
     ELSE Done(t) /\ UNCHANGED <<pmu, hasProxy, XV>>
  /\ UNCHANGED <<caller, resolvedCh, ongoing, callsStopped, proxyFulfilled, releasedClients, RV, DV, MV>>

GCWait(t) == /\ pc[t] = "gcWait" /\ resolvedCh = "closed" /\ pmu = FREE /\ Done(t)
             /\ UNCHANGED <<PV, XV, RV, DV, MV>>

\* ---------------- Promise.Fulfill -> resolve ----------------
FF1(t) ==   \* lock (held until the deferred unlock unless resolve releases it)
  /\ pc[t] = "ff1" /\ pmu = FREE /\ caller
  /\ (AvoidD17 => \A u \in Threads : loc[u].op # "PC")
  /\ caller' = FALSE
  /\ IF hasProxy \/ ongoing > 0 THEN
        /\ callsStopped' = IF ongoing > 0 THEN "open" ELSE callsStopped
        /\ pmu' = FREE /\ Goto(t, IF hasProxy THEN "cf1" ELSE "ffWaitCalls")
     ELSE pmu' = Own(t) /\ Goto(t, "ffFinish") /\ UNCHANGED callsStopped
  /\ UNCHANGED <<resolvedCh, ongoing, hasProxy, proxyFulfilled, releasedClients, XV, RV, DV, loc, MV>>

\* ClientPromise.Fulfill on the proxy
CF1(t) ==   \* cp.h.mu.Lock(); mark resolved; take refs
  /\ pc[t] = "cf1" /\ xhmu = FREE
  /\ xresolved' = TRUE /\ xrhook' = (IF ResultHasCap THEN "R" ELSE "NIL")
  /\ xrefs' = 0 /\ proxyFulfilled' = TRUE
  /\ IF xrefs = 0 THEN Goto(t, "ffWaitCalls") /\ UNCHANGED <<xdone, loc, xhmu>>
     ELSE /\ xdone' = IF xcalls = 0 THEN TRUE ELSE xdone
          /\ GotoL(t, IF ResultHasCap THEN "cfAdd" ELSE "cfWait", [loc[t] EXCEPT !.n = xrefs])
          /\ UNCHANGED xhmu    \* resolveHook unlocks X, then locks R (next step)
  /\ UNCHANGED <<pmu, caller, resolvedCh, ongoing, callsStopped, hasProxy, releasedClients, xcmu, xch, xcrel, xcalls, xshut, RV, DV, MV>>

CFAdd(t) ==  \* rh.mu.Lock(); rh.refs += refs; Unlock
  /\ pc[t] = "cfAdd" /\ rhmu = FREE /\ rrefs' = rrefs + loc[t].n /\ Goto(t, "cfWait")
  /\ UNCHANGED <<PV, XV, rhmu, rcalls, rdone, rshut, DV, loc, MV>>

CFWait(t) == \* <-cp.h.done ; cp.h.Shutdown()
  /\ pc[t] = "cfWait" /\ xdone /\ xshut' = xshut + 1 /\ Goto(t, "ffWaitCalls")
  /\ UNCHANGED <<PV, xcmu, xch, xcrel, xhmu, xrefs, xcalls, xdone, xresolved, xrhook, RV, DV, loc, MV>>

FFWaitCalls(t) ==  \* if p.callsStopped != nil { <-p.callsStopped } ; p.mu.Lock()
  /\ pc[t] = "ffWaitCalls" /\ callsStopped # "open" /\ pmu = FREE
  /\ pmu' = Own(t) /\ Goto(t, "ffFinish")
  /\ UNCHANGED <<caller, resolvedCh, ongoing, callsStopped, hasProxy, proxyFulfilled, releasedClients, XV, RV, DV, loc, MV>>

FFFinish(t) ==   \* publish result, close signals, deferred unlock
  /\ pc[t] = "ffFinish" /\ pmu = Own(t)
  /\ callsStopped' = "nil" /\ resolvedCh' = "closed" /\ pmu' = FREE /\ Done(t)
  /\ UNCHANGED <<caller, ongoing, hasProxy, proxyFulfilled, releasedClients, XV, RV, DV, MV>>

\* ---------------- ReleaseClients -> Client.Release on the proxy client ----------------
RC1(t) ==
  /\ pc[t] = "rc1" /\ resolvedCh = "closed" /\ pmu = FREE
  /\ IF releasedClients THEN Done(t) /\ UNCHANGED releasedClients
     ELSE /\ releasedClients' = TRUE
          /\ IF hasProxy THEN Goto(t, "rel1") /\ UNCHANGED loc ELSE Done(t)
  /\ UNCHANGED <<pmu, caller, resolvedCh, ongoing, callsStopped, hasProxy, proxyFulfilled, XV, RV, DV, MV>>

Rel1(t) ==  \* c.mu.Lock(); released = true
  /\ pc[t] = "rel1" /\ xcmu = FREE
  /\ IF xcrel \/ xch = "NIL" THEN Done(t) /\ UNCHANGED <<xcmu, xcrel>>
     ELSE xcmu' = Own(t) /\ xcrel' = TRUE /\ GotoL(t, "relLockH", [loc[t] EXCEPT !.h = xch])
  /\ UNCHANGED <<PV, xch, xhmu, xrefs, xcalls, xdone, xresolved, xrhook, xshut, RV, DV, MV>>

RelLockH(t) ==
  /\ pc[t] = "relLockH"
  /\ IF loc[t].h = "X" THEN xhmu = FREE /\ xhmu' = Own(t) /\ UNCHANGED rhmu
                       ELSE rhmu = FREE /\ rhmu' = Own(t) /\ UNCHANGED xhmu
  /\ Goto(t, "relCrit")
  /\ UNCHANGED <<PV, xcmu, xch, xcrel, xrefs, xcalls, xdone, xresolved, xrhook, xshut, rrefs, rcalls, rdone, rshut, DV, loc, MV>>

RelCrit(t) ==
  /\ pc[t] = "relCrit"
  /\ IF loc[t].h = "X" /\ xresolved THEN
        /\ xhmu' = FREE
        /\ IF xrhook = "NIL" THEN xch' = "NIL" /\ xcmu' = FREE /\ Done(t)
           ELSE GotoL(t, "relLockH", [loc[t] EXCEPT !.h = "R"]) /\ UNCHANGED <<xch, xcmu>>
        /\ UNCHANGED <<xrefs, xdone, rhmu, rrefs, rdone>>
     ELSE IF loc[t].h = "X" THEN
        /\ xch' = "NIL" /\ xrefs' = xrefs - 1 /\ xhmu' = FREE /\ xcmu' = FREE
        /\ IF xrefs - 1 > 0 THEN Done(t) /\ UNCHANGED xdone
           ELSE xdone' = (IF xcalls = 0 THEN TRUE ELSE xdone) /\ Goto(t, "relWait") /\ UNCHANGED loc
        /\ UNCHANGED <<rhmu, rrefs, rdone>>
     ELSE
        /\ xch' = "NIL" /\ rrefs' = rrefs - 1 /\ rhmu' = FREE /\ xcmu' = FREE
        /\ IF rrefs - 1 > 0 THEN Done(t) /\ UNCHANGED rdone
           ELSE rdone' = (IF rcalls = 0 THEN TRUE ELSE rdone) /\ Goto(t, "relWait") /\ UNCHANGED loc
        /\ UNCHANGED <<xhmu, xrefs, xdone>>
  /\ UNCHANGED <<PV, xcrel, xcalls, xresolved, xrhook, xshut, rcalls, rshut, DV, MV>>

RelWait(t) ==
  /\ pc[t] = "relWait"
  /\ IF loc[t].h = "X" THEN xdone /\ xshut' = xshut + 1 /\ UNCHANGED rshut
                       ELSE rdone /\ rshut' = rshut + 1 /\ UNCHANGED xshut
  /\ Done(t)
  /\ UNCHANGED <<PV, xcmu, xch, xcrel, xhmu, xrefs, xcalls, xdone, xresolved, xrhook, rhmu, rrefs, rcalls, rdone, DV, MV>>

Step(t) == StartOp(t) \/ PS1(t) \/ InCaller(t) \/ PSRelock(t) \/ PSWaitRes(t) \/ DeliverR(t) \/ AfterSend(t)
           \/ PCall1(t) \/ PCallNil(t) \/ PCallLockH(t) \/ PCallResolve(t) \/ PCallSendR(t) \/ Finish(t)
           \/ GC1(t) \/ GCWait(t) \/ FF1(t) \/ CF1(t) \/ CFAdd(t) \/ CFWait(t) \/ FFWaitCalls(t) \/ FFFinish(t)
           \/ RC1(t) \/ Rel1(t) \/ RelLockH(t) \/ RelCrit(t) \/ RelWait(t)

AllIdle == \A t \in Threads : pc[t] = "idle"
Next == (\E t \in Threads : Step(t)) \/ (AllIdle /\ UNCHANGED vars)
Spec == Init /\ [][Next]_vars

\* ---------------- properties ----------------
\* no thread is stuck: either everybody is idle or somebody can move.  A thread that is idle can always
\* start RC/GC (they may block, legitimately, only until resolution), so idleness of all = termination.
NoStuck == didFulfill => AllIdle \/ ENABLED (\E t \in Threads : Step(t))
\* an idle system never leaves the promise mutex held
NoLeakedLock == AllIdle => (pmu = FREE /\ xcmu = FREE /\ xhmu = FREE /\ rhmu = FREE)
\* every started call was delivered exactly once when the system is idle
ExactlyOnce == AllIdle => toCaller + toResult + toError = started
\* nothing is delivered to the pipeline caller after resolution was published
CallerOnlyBeforeResolved == [][resolvedCh = "closed" => toCaller' = toCaller]_vars
ShutOnce == xshut <= 1 /\ rshut <= 1
\* the result capability (still referenced by the result message) is never shut down
ResultAlive == rshut = 0
\* the proxy hook is shut down once it was resolved / released and its calls finished
ProxyShut == (AllIdle /\ proxyFulfilled /\ hasProxy) => xshut = 1
=============================================================================
