----------------------------- MODULE PromiseAbs -----------------------------
(* Property-level specification of promise pipelining (answer.go) and its     *)
(* trace specification (C11).                                                  *)
(*                                                                             *)
(* World of one execution: promises "p", "q", "r" (Join links one onto         *)
(* another), each created with its own instrumented pipeline caller; a result  *)
(* whose pointer field 0 is the instrumented capability "R" (kind "cap") or    *)
(* null (kind "nocap").  Paths: "f0" = field 0 of the result, "root" = the     *)
(* result itself (never a capability).                                         *)
(*                                                                             *)
(* Every pipelined call - direct (PSend) or through a client obtained earlier  *)
(* with Future.Client (CCall) - is delivered exactly once, decided at its      *)
(* linearisation point: to the pipeline caller of the promise at the end of    *)
(* the join chain if that promise is unresolved, else to R when the result     *)
(* holds it at that path, else it fails.  Fulfill / Reject / Join return only  *)
(* after every call that went to the pipeline caller has yielded its answer.   *)
(* Waiters (Struct, ReleaseClients) return only after resolution.  R, still    *)
(* referenced by the result, is never shut down.                               *)
EXTENDS Integers, Sequences, FiniteSets, TLC, Json

CONSTANTS Threads, Handles

Tr == ndJsonDeserialize("promtrace.ndjson")
Promises == {"p", "q", "r"}

VARIABLES l, pst, pcin, hd, pend, relc, par
vars == <<l, pst, pcin, hd, pend, relc, par>>

NoOp == [op |-> "none"]
InitState == /\ pst = [x \in Promises |-> "unres"]
             /\ pcin = [x \in Promises |-> 0]
             /\ hd = [h \in Handles |-> [p |-> "none", path |-> "", pre |-> FALSE]]
             /\ pend = [t \in Threads |-> NoOp]
             /\ relc = {}          \* promises on which ReleaseClients has been called
             /\ par = [x \in Promises |-> "none"]    \* the promise x was joined onto (while that one was unresolved)
Init == l = 1 /\ InitState

RECURSIVE Rep(_)
Rep(x) == IF pst[x] = "joined" THEN Rep(par[x]) ELSE x     \* programs build no cycles
\* the promises that share one outcome and one set of pipelined clients: those are released when every one of them has been asked to
Comp(x) == { y \in Promises : Rep(y) = Rep(x) }
Resolved(x) == pst[Rep(x)] \in {"cap", "nocap", "err"}

\* where a call on (promise x, path) goes right now
Dest(x, path) == LET r == Rep(x) IN
                 IF pst[r] = "unres" THEN "pcaller:" \o r
                 ELSE IF pst[r] = "cap" /\ path = "f0" THEN "sent:R"
                 ELSE IF pst[r] = "nocap" /\ path = "f0" THEN "err:null"
                 ELSE "err"

Ev(e) == l <= Len(Tr) /\ Tr[l].ev = e
Consume == l' = l + 1

Reset == /\ Ev("reset") /\ Consume
         /\ pst' = [x \in Promises |-> "unres"] /\ pcin' = [x \in Promises |-> 0]
         /\ hd' = [h \in Handles |-> [p |-> "none", path |-> "", pre |-> FALSE]] /\ pend' = [t \in Threads |-> NoOp] /\ relc' = {}
         /\ par' = [x \in Promises |-> "none"]

Start == /\ Ev("start") /\ Consume
         /\ LET e == Tr[l] IN
            /\ pend[e.t] = NoOp
            /\ pend' = [pend EXCEPT ![e.t] = [op |-> e.op, p |-> e.p, path |-> e.path, h |-> e.h, kind |-> e.kind, to |-> e.to,
                                              lin |-> FALSE, result |-> "", dest |-> "", delivered |-> FALSE]]
         /\ UNCHANGED <<pst, pcin, hd, relc, par>>

Lin(t) ==
  /\ pend[t] # NoOp /\ ~pend[t].lin
  /\ LET o == pend[t] IN
     CASE o.op = "PSend" ->
            /\ pend' = [pend EXCEPT ![t].lin = TRUE, ![t].dest = Dest(o.p, o.path),
                                    ![t].result = IF Dest(o.p, o.path) = "err:null" THEN "err" ELSE Dest(o.p, o.path)]
            /\ UNCHANGED <<pst, hd>>
       [] o.op = "Client" ->
            \* pre: the handle is a pipelined client made before resolution (kept in the promise's client table); a
            \* handle asked for after resolution is the capability of the result itself and is not the promise's to release
            /\ hd' = [hd EXCEPT ![o.h] = [p |-> o.p, path |-> o.path, pre |-> ~Resolved(o.p)]]
            /\ pend' = [pend EXCEPT ![t].lin = TRUE,
                           ![t].result = IF pst[Rep(o.p)] = "nocap" /\ o.path = "f0" THEN "nil" ELSE "client"]
            /\ UNCHANGED pst
       [] o.op = "CCall" ->
            /\ hd[o.h].p # "none"
            /\ \/ /\ ~(hd[o.h].pre /\ Comp(hd[o.h].p) \subseteq relc)      \* "are released by ReleaseClients": not usable afterwards
                  /\ pend' = [pend EXCEPT ![t].lin = TRUE, ![t].dest = Dest(hd[o.h].p, hd[o.h].path),
                                       ![t].result = IF Dest(hd[o.h].p, hd[o.h].path) = "err:null" THEN "err" ELSE Dest(hd[o.h].p, hd[o.h].path)]
               \* the client is borrowed from the promise: once ReleaseClients was called on every promise that shares its
               \* outcome the client is released and calls fail
               \/ /\ hd[o.h].pre /\ Comp(hd[o.h].p) \subseteq relc
                  /\ pend' = [pend EXCEPT ![t].lin = TRUE, ![t].dest = "err", ![t].result = "err"]
            /\ UNCHANGED <<pst, hd>>
       [] o.op \in {"Fulfill", "Reject"} ->
            /\ pst[o.p] = "unres"
            /\ pst' = [pst EXCEPT ![o.p] = IF o.op = "Reject" THEN "err" ELSE o.kind]
            /\ pend' = [pend EXCEPT ![t].lin = TRUE, ![t].result = "ok"]
            /\ UNCHANGED hd
       [] o.op = "Join" ->            \* o.p joins o.to: linked to it while it is unresolved, else o.p takes its outcome at once
            /\ pst[o.p] = "unres"
            /\ IF Resolved(o.to) THEN pst' = [pst EXCEPT ![o.p] = pst[Rep(o.to)]] /\ par' = par
                                  ELSE pst' = [pst EXCEPT ![o.p] = "joined"] /\ par' = [par EXCEPT ![o.p] = o.to]
            /\ pend' = [pend EXCEPT ![t].lin = TRUE, ![t].result = "ok"]
            /\ UNCHANGED hd
       [] o.op = "Struct" ->          \* waits for resolution
            /\ Resolved(o.p)
            /\ pend' = [pend EXCEPT ![t].lin = TRUE, ![t].result = IF pst[Rep(o.p)] = "err" THEN "err" ELSE "ok"]
            /\ UNCHANGED <<pst, hd>>
       [] o.op = "ReleaseClients" ->  \* waits for resolution
            /\ Resolved(o.p)
            /\ pend' = [pend EXCEPT ![t].lin = TRUE, ![t].result = "ok"]
            /\ relc' = relc \cup {o.p}
            /\ UNCHANGED <<pst, hd>>
       [] o.op = "Done" ->            \* non-blocking poll of Answer.Done
            /\ pend' = [pend EXCEPT ![t].lin = TRUE, ![t].result = IF Resolved(o.p) THEN "closed" ELSE "open"]
            /\ UNCHANGED <<pst, hd>>
  /\ (pend[t].op # "ReleaseClients" => UNCHANGED relc)
  /\ (pend[t].op # "Join" => UNCHANGED par)
  /\ UNCHANGED <<l, pcin>>

End == /\ Ev("end") /\ Consume
       /\ LET e == Tr[l]  o == pend[e.t] IN
          /\ o # NoOp /\ o.lin /\ o.op = e.op
          /\ e.res = o.result
          \* a call that the spec sends somewhere was really delivered there, exactly once
          /\ (o.op \in {"PSend", "CCall"} /\ o.dest \notin {"err", "err:null"} => o.delivered)
          \* resolution waits for the calls that went to the pipeline caller
          /\ (o.op \in {"Fulfill", "Reject", "Join"} => pcin[o.p] = 0)
          /\ pend' = [pend EXCEPT ![e.t] = NoOp]
       /\ UNCHANGED <<pst, pcin, hd, relc, par>>

\* instrumented pipeline caller of promise x entered by thread t
PcEnter == /\ Ev("pc-enter") /\ Consume
           /\ LET e == Tr[l]  o == pend[e.t] IN
              /\ o # NoOp /\ o.op \in {"PSend", "CCall"} /\ o.lin /\ ~o.delivered
              /\ o.dest = "pcaller:" \o e.k
              /\ pend' = [pend EXCEPT ![e.t].delivered = TRUE]
              /\ pcin' = [pcin EXCEPT ![e.k] = @ + 1]
           /\ UNCHANGED <<pst, hd, relc, par>>
PcExit == /\ Ev("pc-exit") /\ Consume
          /\ pcin[Tr[l].k] > 0 /\ pcin' = [pcin EXCEPT ![Tr[l].k] = @ - 1]
          /\ UNCHANGED <<pst, hd, pend, relc, par>>
\* the capability in the result received a call from thread t
SendEnter == /\ Ev("send-enter") /\ Consume
             /\ LET e == Tr[l]  o == pend[e.t] IN
                /\ o # NoOp /\ o.op \in {"PSend", "CCall"} /\ o.lin /\ ~o.delivered
                /\ o.dest = "sent:R"
                /\ pend' = [pend EXCEPT ![e.t].delivered = TRUE]
             /\ UNCHANGED <<pst, pcin, hd, relc, par>>
SendExit == Ev("send-exit") /\ Consume /\ UNCHANGED <<pst, pcin, hd, pend, relc, par>>
Quiesce == /\ Ev("quiesce") /\ Consume /\ \A t \in Threads : pend[t] = NoOp
           /\ \A x \in Promises : pcin[x] = 0
           /\ UNCHANGED <<pst, pcin, hd, pend, relc, par>>
\* there is deliberately no action for a "shutdown" event of R: the result still references it

Next == Reset \/ Start \/ End \/ PcEnter \/ PcExit \/ SendEnter \/ SendExit \/ Quiesce \/ (\E t \in Threads : Lin(t))
Spec == Init /\ [][Next]_vars

ASSUME TLCSet(1, 0)
HighWater == TLCSet(1, IF l > TLCGet(1) THEN l ELSE TLCGet(1))
Accepted == IF TLCGet(1) = Len(Tr) + 1 THEN TRUE ELSE Print(<<"REJECTED_AT_LINE", TLCGet(1)>>, FALSE)
=============================================================================
