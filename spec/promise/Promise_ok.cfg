SPECIFICATION Spec
CONSTANTS
  Threads = {t1, t2}
  MaxOps = 5
  FixD1 = TRUE
  ResultHasCap = TRUE
  AvoidD17 = TRUE
INVARIANTS NoStuck NoLeakedLock ExactlyOnce ShutOnce ResultAlive ProxyShut
PROPERTY CallerOnlyBeforeResolved
CHECK_DEADLOCK FALSE
