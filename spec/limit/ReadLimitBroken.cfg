SPECIFICATION Spec
CONSTANTS
  Readers = {r1, r2}
  Sizes = {8, 16}
  T = 24
  MaxReads = 2
  Atomic = FALSE
INVARIANTS Bounded Conservation NonNegative
CHECK_DEADLOCK FALSE
