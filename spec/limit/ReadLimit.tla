----------------------------- MODULE ReadLimit -----------------------------
(* Traversal budget of a Message (message.go canRead): lock-free           *)
(* load / compare-and-swap loop, saturating at zero.                       *)
EXTENDS Integers, Sequences, FiniteSets, TLC

CONSTANTS Readers, Sizes, T, MaxReads, Atomic   \* Atomic = FALSE models a plain store instead of CAS

VARIABLES rlimit, pc, cur, want, nreads, granted
vars == <<rlimit, pc, cur, want, nreads, granted>>

Init == /\ rlimit = T /\ pc = [r \in Readers |-> "idle"] /\ cur = [r \in Readers |-> 0]
        /\ want = [r \in Readers |-> 0] /\ nreads = [r \in Readers |-> 0] /\ granted = 0

Begin(r) == /\ pc[r] = "idle" /\ nreads[r] < MaxReads
            /\ \E sz \in Sizes : want' = [want EXCEPT ![r] = sz]
            /\ nreads' = [nreads EXCEPT ![r] = @ + 1] /\ pc' = [pc EXCEPT ![r] = "load"]
            /\ UNCHANGED <<rlimit, cur, granted>>
Load(r)  == /\ pc[r] = "load" /\ cur' = [cur EXCEPT ![r] = rlimit] /\ pc' = [pc EXCEPT ![r] = "cas"]
            /\ UNCHANGED <<rlimit, want, nreads, granted>>
Cas(r)   == /\ pc[r] = "cas"
            /\ LET ok == cur[r] >= want[r]  new == IF ok THEN cur[r] - want[r] ELSE 0 IN
               IF Atomic /\ rlimit # cur[r] THEN pc' = [pc EXCEPT ![r] = "load"] /\ UNCHANGED <<rlimit, granted>>
               ELSE /\ rlimit' = new /\ granted' = IF ok THEN granted + want[r] ELSE granted
                    /\ pc' = [pc EXCEPT ![r] = "idle"]
            /\ UNCHANGED <<cur, want, nreads>>
Next == \E r \in Readers : Begin(r) \/ Load(r) \/ Cas(r)
Spec == Init /\ [][Next]_vars

Bounded      == granted <= T                 \* cumulative size handed out never exceeds the limit
Conservation == granted + rlimit <= T        \* one-step inductive form
NonNegative  == rlimit >= 0
=============================================================================
