--------------------------- MODULE ReadLimitSched ---------------------------
(* The traversal budget at the granularity the real code exposes through the  *)
(* yield point between the atomic load and the compare-and-swap of canRead:   *)
(* "start" = a reader begins a read of some size and has loaded the budget;   *)
(* "cas"   = its compare-and-swap runs; on failure it reloads and is again    *)
(*           between load and CAS.                                            *)
(* Every terminated behaviour is a schedule the driver forces on the real     *)
(* code, with the result each read must have and the final budget.            *)
EXTENDS Integers, Sequences, FiniteSets, TLC, Json

CONSTANTS Readers, Sizes, T, MaxReads

VARIABLES rlimit, pc, cur, want, nreads, granted, hist
vars == <<rlimit, pc, cur, want, nreads, granted, hist>>

Init == /\ rlimit = T /\ pc = [r \in Readers |-> "idle"] /\ cur = [r \in Readers |-> 0]
        /\ want = [r \in Readers |-> 0] /\ nreads = [r \in Readers |-> 0] /\ granted = 0 /\ hist = <<>>

Start(r) == /\ pc[r] = "idle" /\ nreads[r] < MaxReads
            /\ \E sz \in Sizes : /\ want' = [want EXCEPT ![r] = sz]
                                 /\ hist' = Append(hist, [ev |-> "start", r |-> r, sz |-> sz, res |-> "", lim |-> rlimit])
            /\ cur' = [cur EXCEPT ![r] = rlimit]
            /\ nreads' = [nreads EXCEPT ![r] = @ + 1] /\ pc' = [pc EXCEPT ![r] = "cas"]
            /\ UNCHANGED <<rlimit, granted>>
Cas(r) == /\ pc[r] = "cas"
          /\ IF rlimit # cur[r]
             THEN /\ cur' = [cur EXCEPT ![r] = rlimit]
                  /\ hist' = Append(hist, [ev |-> "cas", r |-> r, sz |-> want[r], res |-> "retry", lim |-> rlimit])
                  /\ UNCHANGED <<rlimit, granted, pc>>
             ELSE LET ok == cur[r] >= want[r] IN
                  /\ rlimit' = (IF ok THEN cur[r] - want[r] ELSE 0)
                  /\ granted' = (IF ok THEN granted + want[r] ELSE granted)
                  /\ pc' = [pc EXCEPT ![r] = "idle"]
                  /\ hist' = Append(hist, [ev |-> "cas", r |-> r, sz |-> want[r], res |-> (IF ok THEN "ok" ELSE "fail"), lim |-> rlimit'])
                  /\ UNCHANGED cur
          /\ UNCHANGED <<want, nreads>>
Next == \E r \in Readers : Start(r) \/ Cas(r)
Spec == Init /\ [][Next]_vars

Conservation == granted + rlimit <= T /\ rlimit >= 0
Finished == \A r \in Readers : pc[r] = "idle" /\ nreads[r] = MaxReads
Emit == Finished => PrintT(<<"SCHED", ToJson([t |-> T, hist |-> hist, final |-> rlimit, granted |-> granted])>>)
=============================================================================
