SPECIFICATION Spec
INVARIANT Consumed
CHECK_DEADLOCK FALSE
