SPECIFICATION Spec
CONSTANTS
  Readers = {r1, r2, r3}
  Sizes = {0, 8, 16, 24}
  T = 24
  MaxReads = 2
  Atomic = TRUE
INVARIANTS Bounded Conservation NonNegative
CHECK_DEADLOCK FALSE
