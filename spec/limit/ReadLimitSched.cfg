SPECIFICATION Spec
CONSTANTS
  Readers = {1, 2}
  Sizes = {8, 16, 24}
  T = 32
  MaxReads = 2
INVARIANTS Conservation Emit
CHECK_DEADLOCK FALSE
