--------------------------- MODULE ConsumerBound ---------------------------
(* Work bound of the recursive consumers (C02): with depth limit D no pointer *)
(* is followed more than D levels below the root, so a consumer that visits   *)
(* every object it reaches (once per traversal, at most Passes traversals)    *)
(* can be handed at most                                                      *)
(*     Passes * (1 + W + W^2 + ... + W^D) * 8 * W   bytes                      *)
(* of a message of W words - whatever the pointer graph looks like (cycles    *)
(* included): an object has at most W pointers and at most 8*W bytes.  The    *)
(* trace (consumerwork.ndjson) holds, for every run of a consumer whose       *)
(* bound is below the traversal budget it was given, the budget it used and   *)
(* the size of what it produced.                                              *)
EXTENDS Integers, Sequences, TLC, Json

Tr == ndJsonDeserialize("consumerwork.ndjson")
Passes == 4
RECURSIVE Pow(_, _)
Pow(b, e) == IF e = 0 THEN 1 ELSE b * Pow(b, e - 1)
RECURSIVE Geo(_, _)
Geo(w, d) == IF d = 0 THEN 1 ELSE Pow(w, d) + Geo(w, d - 1)
Bound(w, d) == Passes * Geo(w, d) * 8 * w

VARIABLE l
Init == l = 1
Bad(what) == PrintT(<<"WORKBAD", ToJson([line |-> l, what |-> what])>>)
Step == /\ l <= Len(Tr) /\ l' = l + 1
        /\ LET e == Tr[l] IN
           /\ (e.used <= Bound(e.w, e.d) \/ Bad("a consumer was handed more bytes than its depth limit allows"))
           /\ (e.produced <= Bound(e.w, e.d) + 64 \/ Bad("a consumer produced more bytes than its depth limit allows"))
Spec == Init /\ [][Step]_l
Consumed == l = Len(Tr) + 1 => PrintT(<<"CONSUMED", ToJson([n |-> Len(Tr)])>>)
=============================================================================
