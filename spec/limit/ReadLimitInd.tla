---------------------------- MODULE ReadLimitInd ----------------------------
EXTENDS Integers

CONSTANTS
  \* @type: Set(Str);
  Readers,
  \* @type: Int;
  T

VARIABLES
  \* @type: Int;
  rlimit,
  \* @type: Str -> Str;
  pc,
  \* @type: Str -> Int;
  cur,
  \* @type: Str -> Int;
  want,
  \* @type: Int;
  granted

CInit == Readers = {"r1", "r2", "r3"} /\ T \in Nat

TypeOK == /\ rlimit \in Int /\ granted \in Int
          /\ pc \in [Readers -> {"idle", "load", "cas"}]
          /\ cur \in [Readers -> Nat] /\ want \in [Readers -> Nat]

IndInv == TypeOK /\ rlimit >= 0 /\ granted >= 0 /\ granted + rlimit <= T

IndInit == IndInv

Begin(r) == /\ pc[r] = "idle"
            /\ \E sz \in Nat : want' = [want EXCEPT ![r] = sz]
            /\ pc' = [pc EXCEPT ![r] = "load"]
            /\ UNCHANGED <<rlimit, cur, granted>>
Load(r)  == /\ pc[r] = "load" /\ cur' = [cur EXCEPT ![r] = rlimit] /\ pc' = [pc EXCEPT ![r] = "cas"]
            /\ UNCHANGED <<rlimit, want, granted>>
Cas(r)   == /\ pc[r] = "cas"
            /\ IF rlimit # cur[r] THEN pc' = [pc EXCEPT ![r] = "load"] /\ UNCHANGED <<rlimit, granted>>
               ELSE /\ rlimit' = (IF cur[r] >= want[r] THEN cur[r] - want[r] ELSE 0)
                    /\ granted' = (IF cur[r] >= want[r] THEN granted + want[r] ELSE granted)
                    /\ pc' = [pc EXCEPT ![r] = "idle"]
            /\ UNCHANGED <<cur, want>>
Next == \E r \in Readers : Begin(r) \/ Load(r) \/ Cas(r)
=============================================================================
