SPECIFICATION Spec
CONSTANTS
  Shapes <- ShapesQ
  MaxMsgs = 2
  Limits = {0, 8, 16, 24, 32}
INVARIANT Emit
CHECK_DEADLOCK FALSE
