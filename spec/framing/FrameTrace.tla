----------------------------- MODULE FrameTrace -----------------------------
(* code -> spec: the byte streams the real Encoder wrote for each message     *)
(* sequence are parsed by the framing spec: they must be exactly the frames   *)
(* of the messages' shapes, back to back, with nothing left over.             *)
EXTENDS FrameCore, Integers, Sequences, TLC, Json

Tr == ndJsonDeserialize("streams.ndjson")

RECURSIVE Parse(_, _, _)
\* parse stream b from byte offset pos against the remaining shapes
Parse(b, pos, shapes) ==
  IF shapes = <<>> THEN pos = Len(b)
  ELSE LET rest == SubSeq(b, pos + 1, Len(b))
           f == Unframe(rest) IN
       /\ f.ok /\ f.padzero
       /\ [i \in 1..Len(f.segs) |-> Len(f.segs[i])] = Head(shapes)
       /\ Parse(b, pos + f.used, Tail(shapes))

VARIABLE l
Init == l = 1
Next == /\ l <= Len(Tr) /\ l' = l + 1
        /\ (Parse(Tr[l].stream, 0, Tr[l].shapes) \/ PrintT(<<"STREAMBAD", ToJson([line |-> l, shapes |-> Tr[l].shapes])>>))
Spec == Init /\ [][Next]_l
Consumed == l = Len(Tr) + 1 => PrintT(<<"CONSUMED", ToJson([n |-> Len(Tr)])>>)
=============================================================================
