SPECIFICATION Spec
CONSTANTS
  Shapes <- ShapesT
  MaxMsgs = 3
  Limits = {0, 8, 16, 24, 32, 40, 48}
INVARIANT Emit
CHECK_DEADLOCK FALSE
