------------------------------ MODULE Framing ------------------------------
(* Stream framing (C14).  A stream is the concatenation of frames; a frame   *)
(* is the segment table followed by the segments (FrameCore).  The decoder   *)
(* is specified as a function of the byte stream it is given, the configured *)
(* maximum message size and nothing else (buffer reuse must not matter):     *)
(*   Results(stream, max) = the messages decoded, in order, followed by      *)
(*     "eof"    when the stream ends exactly at a frame boundary,            *)
(*     "error"  when it ends anywhere else, when a frame is larger than max, *)
(*              or when the header is not acceptable.                        *)
(* The generator enumerates message sequences x every cut byte x limits x    *)
(* reuse; every state is one case for the driver.  Hostile headers are a     *)
(* second family of cases (segment-count words x size words, short bodies).  *)
EXTENDS FrameCore, Integers, Sequences, FiniteSets, TLC, Json

CONSTANTS Shapes,      \* set of messages, each a tuple of segment sizes in words
          MaxMsgs,     \* messages per stream
          Limits       \* MaxMessageSize values in bytes (0 = library default)

DefaultLimit == 67108864
HeaderLen(shape) == HeaderBytes(Len(shape))
RECURSIVE SumSeq(_)
SumSeq(s) == IF s = <<>> THEN 0 ELSE Head(s) + SumSeq(Tail(s))
FrameLen(shape) == HeaderLen(shape) + 8 * SumSeq(shape)
RECURSIVE StreamLen(_)
StreamLen(ms) == IF ms = <<>> THEN 0 ELSE FrameLen(Head(ms)) + StreamLen(Tail(ms))

\* what a decoder must return for the first `cut` bytes of the stream of messages ms under limit lim:
\* [n |-> number of messages decoded, end |-> "eof" | "error"]
RECURSIVE Results(_, _, _, _)
Results(ms, cut, lim, n) ==
  IF cut = 0 THEN [n |-> n, end |-> "eof"]
  ELSE IF ms = <<>> THEN [n |-> n, end |-> "eof"]                      \* cannot happen: cut <= stream length
  ELSE LET f == FrameLen(Head(ms)) IN
       IF cut < f THEN [n |-> n, end |-> "error"]                      \* torn frame
       ELSE IF f > lim THEN [n |-> n, end |-> "error"]                 \* frame larger than the configured maximum
       ELSE Results(Tail(ms), cut - f, lim, n + 1)

VARIABLES ms, cut, lim, reuse, phase
vars == <<ms, cut, lim, reuse, phase>>

Init == ms = <<>> /\ cut = 0 /\ lim = 0 /\ reuse = FALSE /\ phase = "build"
AddMsg == phase = "build" /\ Len(ms) < MaxMsgs /\ \E s \in Shapes : ms' = Append(ms, s) /\ UNCHANGED <<cut, lim, reuse, phase>>
Choose == /\ phase = "build" /\ ms # <<>>
          /\ \E c \in 0..StreamLen(ms), l \in Limits, r \in BOOLEAN : cut' = c /\ lim' = l /\ reuse' = r
          /\ phase' = "case" /\ UNCHANGED ms
Next == AddMsg \/ Choose
Spec == Init /\ [][Next]_vars

EffLimit == IF lim = 0 THEN DefaultLimit ELSE lim
Emit == phase = "case" =>
  PrintT(<<"CASE", ToJson([shapes |-> ms, cut |-> cut, lim |-> lim, reuse |-> reuse, exp |-> Results(ms, cut, EffLimit, 0),
                           framelens |-> [i \in 1..Len(ms) |-> FrameLen(ms[i])]])>>)

=============================================================================
