---- MODULE MCFraming ----
EXTENDS Framing
ShapesQ == { <<0>>, <<1>>, <<2>>, <<1, 1>>, <<0, 2>>, <<1, 0, 1>> }
ShapesT == ShapesQ \cup { <<2, 1, 1, 1>>, <<3>>, <<0, 0>> }
====
