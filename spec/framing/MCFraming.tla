---- MODULE MCFraming ----
EXTENDS Framing
ShapesQ == { <<0>>, <<1>>, <<2>>, <<1, 1>>, <<0, 2>>, <<1, 0, 1>>, <<1, 0, 0, 1>>, <<0, 1, 0, 0, 0, 1>> }   \* segment tables of 8, 16, 24 and 32 bytes
ShapesT == ShapesQ \cup { <<2, 1, 1, 1>>, <<3>>, <<0, 0>> }
====
