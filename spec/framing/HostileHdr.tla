----------------------------- MODULE HostileHdr -----------------------------
(* Hostile stream headers (C14): a first word (segment count - 1, size of    *)
(* segment 0), further size words, and a body of zero bytes that is always   *)
(* shorter than any non-empty claim.  Expectation per case:                  *)
(*   "accept"  the header is complete and every claimed size is 0            *)
(*   "reject"  more than 513 segments, or sizes that do not fit the bytes    *)
(*             that follow / the configured maximum                          *)
(*   "either"  exactly 513 segments (the implementation's cap is 512 or 513) *)
(* and the bound on what decoding may allocate.                              *)
EXTENDS FrameCore, Integers, Sequences, FiniteSets, TLC, Json

B4(v) == <<v % 256, (v \div 256) % 256, (v \div 65536) % 256, (v \div 16777216) % 256>>
Counts == { B4(0), B4(1), B4(2), B4(511), B4(512), B4(513), B4(65535), <<255, 255, 255, 127>>, <<255, 255, 255, 255>> }
Sizes  == { B4(0), B4(1), B4(1048576), B4(268435456), B4(536870911), B4(536870912), <<255, 255, 255, 255>> }
Val(b) == IF b[4] >= 128 THEN -1 ELSE b[1] + 256 * b[2] + 65536 * b[3] + 16777216 * b[4]     \* -1: >= 2^31
Limits == {0, 64, 4096}
DefaultLimit == 67108864

\* a case: count bytes, size words supplied (1..3), body bytes supplied
Cases == { [count |-> c, sizes |-> ss, body |-> nb, lim |-> l] :
             c \in Counts, ss \in ({ <<x>> : x \in Sizes } \cup { <<x, y>> : x \in {B4(0), B4(1)}, y \in Sizes } \cup { <<B4(0), B4(0), z>> : z \in {B4(0), B4(1), <<255, 255, 255, 255>>} }),
             nb \in {0, 8, 16}, l \in Limits }

\* complete segment tables with many empty segments (every size word 0, no body): accepted up to the cap only
BigTables == { [count |-> B4(c), nz |-> c + 1, lim |-> l] : c \in {100, 511, 512, 513, 600, 1000}, l \in {0, 8192} }
BigStream(bt) == bt.count \o [i \in 1..(4 * bt.nz) |-> 0] \o (IF bt.nz % 2 = 1 THEN <<>> ELSE <<0, 0, 0, 0>>)
BigExpect(bt) == LET c == Val(bt.count)  lim == IF bt.lim = 0 THEN DefaultLimit ELSE bt.lim IN
                 IF c > 512 THEN "reject" ELSE IF c = 512 THEN "either" ELSE IF HeaderBytes(c + 1) > lim THEN "reject" ELSE "accept"

Stream(cs) == LET hdr == cs.count \o (LET RECURSIVE Cat(_) Cat(q) == IF q = <<>> THEN <<>> ELSE Head(q) \o Cat(Tail(q)) IN Cat(cs.sizes))
                  pad == IF (Len(hdr) % 8) = 0 THEN <<>> ELSE <<0, 0, 0, 0>>
              IN hdr \o pad \o [i \in 1..cs.body |-> 0]

Expect(cs) ==
  LET c == Val(cs.count)
      lim == IF cs.lim = 0 THEN DefaultLimit ELSE cs.lim
      st == Stream(cs) IN
  IF c < 0 \/ c > 512 THEN "reject"                                     \* 514 or more segments
  ELSE LET nseg == c + 1  hb == HeaderBytes(nseg) IN
       IF hb > lim THEN (IF c = 512 THEN "either" ELSE "reject")
       ELSE IF Len(st) < hb THEN "reject"                               \* header itself is cut
       ELSE IF \E i \in 0..(nseg - 1) : U32(st, 4 + 4 * i) < 0 \/ U32(st, 4 + 4 * i) >= 536870912 THEN "reject"
       ELSE LET total == SumSizes(st, nseg, 0) IN
            IF total > 8388608 THEN "reject"                            \* > 64 MiB in words: beyond every limit used here
            ELSE IF hb + 8 * total > lim THEN "reject"
            ELSE IF Len(st) < hb + 8 * total THEN "reject"              \* body shorter than claimed
            ELSE IF c = 512 THEN "either" ELSE "accept"
\* bytes a decoder may allocate while handling the case: the configured maximum plus bookkeeping slack
AllocBound(cs) == (IF cs.lim = 0 THEN DefaultLimit ELSE cs.lim) + 65536

VARIABLE done
Init == done = FALSE
Next == /\ ~done /\ done' = TRUE
        /\ \A cs \in Cases : PrintT(<<"HOSTILE", ToJson([stream |-> Stream(cs), lim |-> cs.lim, exp |-> Expect(cs), bound |-> AllocBound(cs)])>>)
        /\ \A bt \in BigTables : PrintT(<<"HOSTILE", ToJson([stream |-> BigStream(bt), lim |-> bt.lim, exp |-> BigExpect(bt),
                                                              bound |-> (IF bt.lim = 0 THEN DefaultLimit ELSE bt.lim) + 65536])>>)
Spec == Init /\ [][Next]_done
=============================================================================
