---- MODULE MCBuilder ----
EXTENDS BuilderAbs
SizesSmall == { <<1, 1>>, <<0, 2>>, <<2, 0>> }
SizesAll   == { <<0, 0>>, <<1, 0>>, <<0, 1>>, <<1, 1>>, <<2, 1>>, <<1, 2>>, <<0, 3>> }
ShapesSmall == { <<2, 3>>, <<6, 2>>, <<1, 9>> }
ShapesAll   == { <<0, 3>>, <<1, 1>>, <<1, 65>>, <<2, 1>>, <<2, 9>>, <<3, 5>>, <<4, 3>>, <<5, 2>>, <<6, 1>>, <<6, 3>>, <<2, 0>>, <<6, 0>> }
OpsC04 == { "newroot", "newstruct", "setdata", "setptr", "newlist", "newcomp", "setelem", "setplist", "settext" }
OpsAll == OpsC04 \cup { "setstruct", "copyfrom", "setroot" }
====
