---- MODULE MCBuilder ----
EXTENDS BuilderAbs
SizesSmall == { <<1, 1>>, <<0, 2>>, <<2, 0>> }
SizesAll   == { <<0, 0>>, <<1, 0>>, <<0, 1>>, <<1, 1>>, <<2, 1>>, <<1, 2>>, <<0, 3>> }
ShapesSmall == { <<2, 3>>, <<6, 2>>, <<1, 9>> }
ShapesAll   == { <<0, 3>>, <<1, 1>>, <<1, 65>>, <<2, 1>>, <<2, 9>>, <<3, 5>>, <<4, 3>>, <<5, 2>>, <<6, 1>>, <<6, 3>>, <<2, 0>>, <<6, 0>> }
OpsC04 == { "newroot", "newstruct", "setdata", "setptr", "newlist", "newcomp", "setelem", "setplist", "settext" }
OpsAll == OpsC04 \cup { "setstruct", "copyfrom", "setroot" }
SizesTiny == { <<1, 1>> }
ShapesTiny == { <<2, 3>>, <<6, 1>> }
OpsCopy == { "newroot", "newstruct", "setptr", "newlist", "setelem", "setstruct", "copyfrom", "newcomp", "settext" }
NoPlan == <<>>
\* build something with handles, link it, copy it, then mutate either side (C16 independence)
PlanCopy == << {"newroot"}, {"newstruct", "newcomp"}, {"newlist", "newstruct"}, {"setptr", "setplist", "settext"},
               {"setstruct", "copyfrom", "setptr", "setroot"}, {"setelem", "setdata", "settext", "setptr"} >>
PlanCopy2 == << {"newroot"}, {"newroot", "newstruct"}, {"newlist", "newcomp"}, {"setptr", "setplist"}, {"setptr", "setdata", "setelem"},
                {"setstruct", "copyfrom", "setptr", "setroot"}, {"setelem", "setdata", "settext", "setptr"} >>
\* overwrite a populated struct (list element or struct) by a copy of another struct whose fields are partly null / shorter:
\* nothing of the old content may survive
PlanOverwrite == << {"newroot"}, {"newcomp", "newstruct"}, {"settext", "newlist", "setptr"}, {"newstruct", "setdata"}, {"newstruct", "setdata", "settext"},
                    {"setstruct", "copyfrom"}, {"setstruct", "copyfrom", "setptr"} >>
====
