SPECIFICATION Spec
CONSTANTS
  D = 6
  BlockSize = 250
CHECK_DEADLOCK FALSE
