------------------------------ MODULE EncTrace ------------------------------
(* Validation of byte dumps recorded from the real library (code -> spec).   *)
(* Each line of dumps.ndjson: segs (the raw segment words after an API       *)
(* step), exp (the value the abstract builder spec says the message must     *)
(* denote), framed (Marshal output, possibly empty).  TLC is the independent *)
(* decoder: Value(segs) = exp, WellFormed(segs), and the framing describes   *)
(* exactly these segments.  Lines are independent; they are checked in       *)
(* blocks so that several TLC workers share the work.                        *)
EXTENDS CapnpSem, FrameCore, Json

CONSTANTS D, BlockSize

Tr == ndJsonDeserialize("dumps.ndjson")
NB == (Len(Tr) + BlockSize - 1) \div BlockSize

VARIABLES blk, l
vars == <<blk, l>>

Bad(i, what) == PrintT(<<"DUMPBAD", ToJson([line |-> i, what |-> what])>>)

Check(i) ==
  LET r == Tr[i]
      v == Value(r.segs, D)
      f == IF r.framed = <<>> THEN [ok |-> TRUE, segs |-> r.segs, used |-> 0, padzero |-> TRUE] ELSE Unframe(r.framed)
  IN /\ (v = r.exp \/ Bad(i, "value"))
     /\ (Clean(v) \/ Bad(i, "undefined pointer"))
     /\ (Disjoint(r.segs, D) \/ Bad(i, "objects overlap"))
     /\ (PaddingZero(r.segs, D) \/ Bad(i, "list padding not zero"))
     /\ (r.framed = <<>> \/ (f.ok /\ f.segs = r.segs /\ f.used = Len(r.framed) /\ f.padzero) \/ Bad(i, "framing"))

Init == blk = 0 /\ l = 0
Pick == blk = 0 /\ \E b \in 1..NB : blk' = b /\ l' = (b - 1) * BlockSize
Last(b) == IF b * BlockSize < Len(Tr) THEN b * BlockSize ELSE Len(Tr)
Step == /\ blk > 0 /\ l < Last(blk)
        /\ l' = l + 1 /\ UNCHANGED blk
        /\ Check(l + 1)
        /\ (l + 1 = Last(blk) => PrintT(<<"BLOCKDONE", ToJson([b |-> blk, n |-> Last(blk) - (blk - 1) * BlockSize])>>))
Next == Pick \/ Step
Spec == Init /\ [][Next]_vars
=============================================================================
