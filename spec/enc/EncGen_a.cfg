SPECIFICATION Spec
CONSTANTS
  SegLens <- L2
  MaxFill = 2
  RichFills = 1
  D = 6
INVARIANTS FillPreserves Emit
CHECK_DEADLOCK FALSE
