------------------------------- MODULE ValGen -------------------------------
(* Value trees, the documented structural equality on them (ValEq, C17),     *)
(* the canonical encoding (Canon, C18) and a generator of values and of      *)
(* one-edit neighbours.  Values have the shape of CapnpSem.Value:            *)
(*   [t:"null"] | [t:"cap", i] | [t:"struct", d, p] | [t:"list", k, n, e]    *)
(* Composite lists (k = 7) additionally carry the element sizes dw, pc that  *)
(* the builder is to allocate (all elements of a list share them).           *)
EXTENDS CapnpSem, Json

CONSTANTS Depth,        \* nesting depth of generated values
          Mode          \* "eq": emit pairs for Equal; "canon": emit values with their canonical form

Z == ZeroW
A == <<7, 0, 0, 0, 0, 0, 0, 0>>
B == <<7, 0, 0, 0, 0, 0, 0, 9>>
C == <<0, 0, 0, 0, 0, 0, 0, 9>>      \* non-zero only in its upper half
Cap(i) == [t |-> "cap", i |-> <<i, 0, 0, 0>>]
S(d, p) == [t |-> "struct", d |-> d, p |-> p]
Lst(k, e) == [t |-> "list", k |-> k, n |-> Len(e), e |-> e]
Void(n) == [t |-> "list", k |-> 0, n |-> n, e |-> <<>>]
Comp(dw, pc, e) == [t |-> "list", k |-> 7, n |-> Len(e), e |-> e, dw |-> dw, pc |-> pc]

\* ---------------- documented equality ----------------
IsZeroSeq(ws) == \A i \in 1..Len(ws) : ws[i] = Z
WordAt(ws, i) == IF i <= Len(ws) THEN ws[i] ELSE Z
MaxI(a, b) == IF a > b THEN a ELSE b
MinI(a, b) == IF a < b THEN a ELSE b
DataEq(d1, d2) == \A i \in 1..MaxI(Len(d1), Len(d2)) : WordAt(d1, i) = WordAt(d2, i)
\* a primitive list element seen as a struct with that value as sole field
PadWord(bs) == [j \in 1..8 |-> IF j <= Len(bs) THEN bs[j] ELSE 0]
AsStruct(k, x) == CASE k = 0 -> S(<<>>, <<>>)
                    [] k \in 2..5 -> S(<<PadWord(x)>>, <<>>)
                    [] k = 6 -> S(<<>>, <<x>>)

\* "yes" / "no" / "either" (the documentation leaves bit list vs struct list open)
RECURSIVE ValEq(_, _)
And3(s) == IF \E x \in s : x = "no" THEN "no" ELSE IF \E x \in s : x = "either" THEN "either" ELSE "yes"
B3(b) == IF b THEN "yes" ELSE "no"
StructEq(a, b) ==
  And3( { B3(DataEq(a.d, b.d)) }
        \cup { ValEq(a.p[i], b.p[i]) : i \in 1..MinI(Len(a.p), Len(b.p)) }
        \cup { B3(a.p[i].t = "null") : i \in (MinI(Len(a.p), Len(b.p)) + 1)..Len(a.p) }
        \cup { B3(b.p[i].t = "null") : i \in (MinI(Len(a.p), Len(b.p)) + 1)..Len(b.p) } )
ValEq(a, b) ==
  IF a.t = "null" \/ b.t = "null" THEN B3(a.t = b.t)
  ELSE IF a.t # b.t THEN "no"
  ELSE CASE a.t = "cap" -> B3(a.i = b.i)
         [] a.t = "struct" -> StructEq(a, b)
         [] a.t = "list" ->
              IF a.n # b.n THEN "no"
              ELSE IF a.k = 7 /\ b.k = 7 THEN And3({ StructEq(a.e[i], b.e[i]) : i \in 1..a.n })
              ELSE IF a.k = 7 THEN
                   (IF b.k = 1 THEN "either"
                    ELSE IF b.k = 0 THEN And3({ StructEq(a.e[i], S(<<>>, <<>>)) : i \in 1..a.n })
                    ELSE And3({ StructEq(a.e[i], AsStruct(b.k, b.e[i])) : i \in 1..a.n }))
              ELSE IF b.k = 7 THEN ValEq(b, a)
              ELSE IF a.k # b.k THEN "no"
              ELSE IF a.k = 6 THEN And3({ ValEq(a.e[i], b.e[i]) : i \in 1..a.n })
              ELSE B3(a.e = b.e)

\* ---------------- canonical form ----------------
RECURSIVE TrimZ(_), TrimN(_)
TrimZ(ws) == IF Len(ws) > 0 /\ ws[Len(ws)] = Z THEN TrimZ(SubSeq(ws, 1, Len(ws) - 1)) ELSE ws
TrimN(ps) == IF Len(ps) > 0 /\ ps[Len(ps)].t = "null" THEN TrimN(SubSeq(ps, 1, Len(ps) - 1)) ELSE ps

RECURSIVE HasCap(_)
HasCap(v) == CASE v.t = "cap" -> TRUE
               [] v.t = "null" -> FALSE
               [] v.t = "struct" -> \E i \in 1..Len(v.p) : HasCap(v.p[i])
               [] v.t = "list" -> IF v.k = 6 THEN \E i \in 1..v.n : HasCap(v.e[i])
                                  ELSE IF v.k = 7 THEN \E i \in 1..v.n : \E j \in 1..Len(v.e[i].p) : HasCap(v.e[i].p[j])
                                  ELSE FALSE

\* body words of a primitive list
\* Dirty = TRUE: the unused bits / bytes behind the last element carry garbage instead of zero
PackBitsD(e, dirty) == [w \in 1..((Len(e) + 63) \div 64) |->
                  [j \in 1..8 |-> LET base == (w - 1) * 64 + (j - 1) * 8
                                      bit(x) == IF base + x <= Len(e) THEN e[base + x] ELSE (IF dirty THEN 1 ELSE 0) IN
                     bit(1) + 2 * bit(2) + 4 * bit(3) + 8 * bit(4) + 16 * bit(5) + 32 * bit(6) + 64 * bit(7) + 128 * bit(8)]]
PackBytesD(k, e, dirty) == LET eb == ElBytes(k)  total == eb * Len(e) IN
                   [w \in 1..((total + 7) \div 8) |->
                      [j \in 1..8 |-> LET b == (w - 1) * 8 + (j - 1) IN
                         IF b < total THEN e[(b \div eb) + 1][(b % eb) + 1] ELSE (IF dirty THEN 165 ELSE 0)]]
PackBits(e) == [w \in 1..((Len(e) + 63) \div 64) |->
                  [j \in 1..8 |-> LET base == (w - 1) * 64 + (j - 1) * 8 IN
                     (IF base + 1 <= Len(e) THEN e[base + 1] ELSE 0) + 2 * (IF base + 2 <= Len(e) THEN e[base + 2] ELSE 0)
                     + 4 * (IF base + 3 <= Len(e) THEN e[base + 3] ELSE 0) + 8 * (IF base + 4 <= Len(e) THEN e[base + 4] ELSE 0)
                     + 16 * (IF base + 5 <= Len(e) THEN e[base + 5] ELSE 0) + 32 * (IF base + 6 <= Len(e) THEN e[base + 6] ELSE 0)
                     + 64 * (IF base + 7 <= Len(e) THEN e[base + 7] ELSE 0) + 128 * (IF base + 8 <= Len(e) THEN e[base + 8] ELSE 0)]]
PackBytes(k, e) == LET eb == ElBytes(k)  total == eb * Len(e) IN
                   [w \in 1..((total + 7) \div 8) |->
                      [j \in 1..8 |-> LET b == (w - 1) * 8 + (j - 1) IN
                         IF b < total THEN e[(b \div eb) + 1][(b % eb) + 1] ELSE 0]]

\* Lay(v, at): v's body placed at word address at, followed by all its descendants in pre-order.
\* Returns [ptr |-> function from the address of the pointer word to the word, words |-> sequence].
\* PtrTo(v, paddr, at): the pointer word stored at paddr for an object whose body starts at at.
CanonSize(s) == <<Len(TrimZ(s.d)), Len(TrimN(s.p))>>
ElemSize(es) == <<IF es = <<>> THEN 0 ELSE CHOOSE m \in { CanonSize(es[i])[1] : i \in 1..Len(es) } : \A i \in 1..Len(es) : CanonSize(es[i])[1] <= m,
                  IF es = <<>> THEN 0 ELSE CHOOSE m \in { CanonSize(es[i])[2] : i \in 1..Len(es) } : \A i \in 1..Len(es) : CanonSize(es[i])[2] <= m>>
PtrTo(v, paddr, at) ==
  CASE v.t = "null" -> ZeroW
    [] v.t = "struct" -> LET z == CanonSize(v) IN
                         IF z = <<0, 0>> THEN MkStruct(0 - 1, 0, 0) ELSE MkStruct(at - (paddr + 1), z[1], z[2])
    [] v.t = "list" -> IF v.k = 7 THEN LET z == ElemSize(v.e) IN MkList(at - (paddr + 1), 7, v.n * (z[1] + z[2]))
                       ELSE MkList(at - (paddr + 1), v.k, v.n)

FitW(ws, n) == [i \in 1..n |-> IF i <= Len(ws) THEN ws[i] ELSE Z]

RECURSIVE LayG(_, _, _), LayPtrs(_, _, _, _, _, _)
\* lay out the targets of the pointer values ps whose pointer words live at addresses paddrs (parallel sequences);
\* next = first free word.  Returns [pw |-> sequence of pointer words, words |-> descendants' words]
LayPtrs(ps, paddrs, i, next, acc, dirty) ==
  IF i > Len(ps) THEN acc
  ELSE LET v == ps[i]
           child == LayG(v, next, dirty)
           pw == PtrTo(v, paddrs[i], next)
       IN LayPtrs(ps, paddrs, i + 1, next + Len(child), [pw |-> Append(acc.pw, pw), words |-> acc.words \o child], dirty)

LayG(v, at, dirty) ==
  CASE v.t = "null" -> <<>>
    [] v.t = "struct" ->
         LET z == CanonSize(v)
             d == SubSeq(v.d, 1, z[1])
             ps == SubSeq(v.p, 1, z[2])
             r == LayPtrs(ps, [i \in 1..z[2] |-> at + z[1] + i - 1], 1, at + z[1] + z[2], [pw |-> <<>>, words |-> <<>>], dirty)
         IN d \o r.pw \o r.words
    [] v.t = "list" ->
         IF v.k = 0 THEN <<>>
         ELSE IF v.k = 1 THEN PackBitsD(v.e, dirty)
         ELSE IF v.k \in 2..5 THEN PackBytesD(v.k, v.e, dirty)
         ELSE IF v.k = 6 THEN
              LET r == LayPtrs(v.e, [i \in 1..v.n |-> at + i - 1], 1, at + v.n, [pw |-> <<>>, words |-> <<>>], dirty)
              IN r.pw \o r.words
         ELSE \* composite: tag, then elements; the elements' pointer targets follow the whole list
              LET z == ElemSize(v.e)
                  esz == z[1] + z[2]
                  allp == [q \in 1..(v.n * z[2]) |-> LET ei == ((q - 1) \div z[2]) + 1  pj == ((q - 1) % z[2]) + 1 IN
                                                     IF pj <= Len(v.e[ei].p) THEN v.e[ei].p[pj] ELSE Null]
                  addrs == [q \in 1..(v.n * z[2]) |-> LET ei == ((q - 1) \div z[2]) + 1  pj == ((q - 1) % z[2]) + 1 IN
                                                      at + 1 + (ei - 1) * esz + z[1] + pj - 1]
                  r == LayPtrs(allp, addrs, 1, at + 1 + v.n * esz, [pw |-> <<>>, words |-> <<>>], dirty)
                  body == [w \in 1..(v.n * esz) |-> LET ei == ((w - 1) \div esz) + 1  off == (w - 1) % esz IN
                                                    IF off < z[1] THEN WordAt(v.e[ei].d, off + 1)
                                                    ELSE r.pw[(ei - 1) * z[2] + (off - z[1]) + 1]]
              IN <<MkStruct(v.n, z[1], z[2])>> \o body \o r.words

Lay(v, at) == LayG(v, at, FALSE)

\* the canonical single-segment encoding of a struct value (root pointer + pre-order layout)
Canon(v) == IF v.t = "null" THEN <<ZeroW>> ELSE <<PtrTo(v, 0, 1)>> \o Lay(v, 1)
\* the same value in the same layout but with garbage in every list's padding: an input that must canonicalise to Canon(v)
DirtyCanon(v) == IF v.t = "null" THEN <<ZeroW>> ELSE <<PtrTo(v, 0, 1)>> \o LayG(v, 1, TRUE)

\* ---------------- generator ----------------
RECURSIVE Vals(_)
DataSeqs == { <<>>, <<A>>, <<Z>>, <<A, Z>>, <<Z, B>>, <<C>>, <<A, C>> }
Leaves == { Null, Cap(0), S(<<>>, <<>>), S(<<A>>, <<>>), S(<<A, C>>, <<>>), S(<<C>>, <<>>),
            Void(2), Lst(1, <<1, 0, 1>>), Lst(2, <<>>), Lst(2, << <<7>>, <<0>> >>), Lst(3, << <<7, 0>> >>), Lst(5, <<A, B>>),
            Lst(6, <<>>), Comp(1, 0, <<S(<<A>>, <<>>), S(<<B>>, <<>>)>>), Comp(2, 0, <<S(<<A, C>>, <<>>), S(<<Z, Z>>, <<>>)>>), Comp(0, 0, <<S(<<>>, <<>>)>>) }
Vals(d) ==
  IF d = 0 THEN Leaves
  ELSE LET sub == Vals(d - 1) IN
       sub \cup { S(ds, <<x>>) : ds \in {<<>>, <<A>>}, x \in sub }
           \cup { S(<<>>, <<x, y>>) : x \in {Null, S(<<A>>, <<>>)}, y \in {c \in sub : c.t # "cap"} }
           \cup { Lst(6, <<x, y>>) : x \in {Null, Lst(2, << <<7>> >>)}, y \in sub }
           \cup { Comp(1, 1, <<S(<<A>>, <<x>>), S(<<Z>>, <<Null>>)>>) : x \in sub }
           \cup { Comp(0, 1, <<S(<<>>, <<x>>)>>) : x \in sub }

\* one-edit neighbours (plus the value itself): the interesting pairs for equality
RECURSIVE Nbrs(_)
EditData(d) == { d, Append(d, Z), Append(d, B), Append(d, C) } \cup (IF Len(d) > 0 THEN { [d EXCEPT ![1] = IF d[1] = A THEN B ELSE A], SubSeq(d, 1, Len(d) - 1) } ELSE {})
Nbrs(v) ==
  CASE v.t = "null" -> { v, S(<<>>, <<>>), Lst(2, <<>>) }
    [] v.t = "cap" -> { v, Cap(1 - v.i[1]), Null }
    [] v.t = "struct" ->
         { S(d, v.p) : d \in EditData(v.d) }
         \cup { S(v.d, Append(v.p, Null)), S(v.d, Append(v.p, S(<<>>, <<>>))) }
         \cup UNION { { S(v.d, [v.p EXCEPT ![i] = x]) : x \in Nbrs(v.p[i]) } : i \in 1..Len(v.p) }
    [] v.t = "list" ->
         IF v.k = 0 THEN { v, Void(v.n + 1), Lst(1, [i \in 1..v.n |-> 0]), Comp(0, 0, [i \in 1..v.n |-> S(<<>>, <<>>)]), Comp(1, 0, [i \in 1..v.n |-> S(<<Z>>, <<>>)]) }
         ELSE IF v.k = 1 /\ v.n = 0 THEN { v, Void(0), Lst(1, <<0>>) }
         ELSE IF v.k = 1 THEN { v, Lst(1, [v.e EXCEPT ![1] = 1 - v.e[1]]), Lst(1, [v.e EXCEPT ![Len(v.e)] = 1 - v.e[Len(v.e)]]), Void(v.n), Lst(1, Append(v.e, 0)),
                                Comp(1, 0, [i \in 1..v.n |-> S(<<[j \in 1..8 |-> IF j = 1 THEN v.e[i] ELSE 0]>>, <<>>)]) }
         ELSE IF v.k \in 2..5 THEN
              { v, Lst(v.k, Append(v.e, [j \in 1..ElBytes(v.k) |-> 0])),
                Comp(1, 0, [i \in 1..v.n |-> S(<<PadWord(v.e[i])>>, <<>>)]),                \* upgraded to a struct list: equal
                Comp(2, 0, [i \in 1..v.n |-> S(<<PadWord(v.e[i]), Z>>, <<>>)]),
                Comp(1, 1, [i \in 1..v.n |-> S(<<PadWord(v.e[i])>>, <<Null>>)]),
                Comp(1, 0, [i \in 1..v.n |-> S(<<IF i = v.n THEN B ELSE PadWord(v.e[i])>>, <<>>)]) }
              \cup (IF v.n > 0 THEN { Lst(v.k, [v.e EXCEPT ![v.n] = [j \in 1..ElBytes(v.k) |-> 5]]), Lst(v.k, SubSeq(v.e, 1, v.n - 1)) } ELSE {})
              \cup (IF v.k = 2 THEN { Lst(3, [i \in 1..v.n |-> <<v.e[i][1], 0>>]) } ELSE {})
         ELSE IF v.k = 6 THEN
              { v, Lst(6, Append(v.e, Null)), Comp(0, 1, [i \in 1..v.n |-> S(<<>>, <<v.e[i]>>)]), Comp(1, 1, [i \in 1..v.n |-> S(<<Z>>, <<v.e[i]>>)]),
                Comp(1, 1, [i \in 1..v.n |-> S(<<A>>, <<v.e[i]>>)]) }
              \cup UNION { { Lst(6, [v.e EXCEPT ![i] = x]) : x \in Nbrs(v.e[i]) } : i \in 1..v.n }
         ELSE { v, Comp(v.dw + 1, v.pc, v.e), Comp(v.dw, v.pc + 1, v.e), Comp(v.dw, v.pc, Append(v.e, S(<<>>, <<>>))),
                Comp(v.dw + 2, v.pc, v.e), Comp(v.dw + 3, v.pc + 1, v.e) }      \* elements much larger than their canonical size
              \cup UNION { { Comp(MaxI(v.dw, Len(x.d)), MaxI(v.pc, Len(x.p)), [v.e EXCEPT ![i] = x]) : x \in Nbrs(v.e[i]) } : i \in 1..v.n }

VARIABLE cur
Init == cur \in Vals(Depth)
Next == UNCHANGED cur
Spec == Init /\ [][Next]_cur

\* design checks inside the spec
Reflexive == ValEq(cur, cur) = "yes"
Symmetric == \A n \in Nbrs(cur) : ValEq(cur, n) = ValEq(n, cur)
\* the canonical form decodes (by the independent decoder) to a value equal to the input, and is a fixed point
CanonSound == (cur.t = "struct" /\ ~HasCap(cur)) =>
                 LET c == Canon(cur)  back == Value(<<c>>, 8) IN
                 /\ Clean(back) /\ ValEq(back, cur) = "yes" /\ WellFormed(<<c>>, 8)
                 /\ Canon(back) = c
                 /\ ValEq(Value(<<DirtyCanon(cur)>>, 8), cur) = "yes" 
\* equal values have the same canonical form (kind-preserving edits only: list upgrades keep their kind)
RECURSIVE SameKinds(_, _)
SameKinds(a, b) == IF a.t # b.t THEN a.t = "null" \/ b.t = "null"
                   ELSE CASE a.t = "struct" -> \A i \in 1..MinI(Len(a.p), Len(b.p)) : SameKinds(a.p[i], b.p[i])
                          [] a.t = "list" -> a.k = b.k /\ (IF a.k = 6 THEN \A i \in 1..MinI(a.n, b.n) : SameKinds(a.e[i], b.e[i])
                                                           ELSE IF a.k = 7 THEN \A i \in 1..MinI(a.n, b.n) : \A j \in 1..MinI(Len(a.e[i].p), Len(b.e[i].p)) : SameKinds(a.e[i].p[j], b.e[i].p[j])
                                                           ELSE TRUE)
                          [] OTHER -> TRUE
CanonLayoutIndependent == (cur.t = "struct" /\ ~HasCap(cur)) =>
   \A n \in Nbrs(cur) : (n.t = "struct" /\ ~HasCap(n) /\ ValEq(cur, n) = "yes" /\ SameKinds(cur, n)) => Canon(n) = Canon(cur)

\* da: the canonical layout of a with garbage in every padding bit / byte (a layout a foreign encoder may produce): Equal must not
\* see padding
EmitEq == Mode = "eq" => \A n \in Nbrs(cur) : PrintT(<<"PAIR", ToJson([a |-> cur, b |-> n, eq |-> ValEq(cur, n),
                                                                         da |-> IF HasCap(cur) THEN <<>> ELSE DirtyCanon(cur)])>>)
EmitCanon == Mode = "canon" => (cur.t = "struct" =>
               \A n \in { x \in Nbrs(cur) : x.t = "struct" } :
                  PrintT(<<"CANON", ToJson([v |-> n, hascap |-> HasCap(n), canon |-> IF HasCap(n) THEN <<>> ELSE Canon(n),
                                            dirty |-> IF HasCap(n) THEN <<>> ELSE DirtyCanon(n)])>>))
=============================================================================
