SPECIFICATION Spec
CONSTANTS
  NMsgs = 1
  MaxOps = 3
  MaxObjs = 4
  D = 6
  Sizes <- SizesSmall
  ListShapes <- ShapesSmall
  CompLens = {2}
  Ops <- OpsC04
INVARIANTS Acyclic EmitBeh
CHECK_DEADLOCK FALSE
