----------------------------- MODULE BuilderAbs -----------------------------
(* What the builder API means, independent of any layout: a store of        *)
(* objects (structs, lists) in one or more messages, pointer fields holding *)
(* references, and the public operations as actions on that store.          *)
(*   - setting a field changes that field and nothing else;                 *)
(*   - SetPtr of an object of the same message makes the field refer to     *)
(*     that object (no copy), except for struct-list elements, which are    *)
(*     copied;                                                              *)
(*   - SetPtr of an object of another message, list.SetStruct, CopyFrom     *)
(*     perform a deep copy (struct sections truncated / zero-extended to    *)
(*     the destination's sizes; capability pointers get a new entry in the  *)
(*     destination's capability table).                                     *)
(* Every behaviour is an operation sequence together with the value tree    *)
(* (in the shape of CapnpSem.Value) each message must denote after every    *)
(* step.  The driver replays the operations on the real library in many     *)
(* arena configurations and dumps the segment bytes after each step;        *)
(* EncTrace then checks Value(bytes) = expected and WellFormed(bytes).      *)
EXTENDS Integers, Sequences, FiniteSets, TLC, Json

CONSTANTS NMsgs, MaxOps, MaxObjs, D,
          Sizes,        \* struct sizes <<dw, pc>> offered to newstruct / newcomp
          ListShapes,   \* <<k, n>> offered to newlist
          CompLens,     \* element counts offered to newcomp
          Ops,          \* enabled operation names
          Plan          \* <<>> or a sequence of sets of operation names: step i may only use an operation of Plan[i]

VARIABLES objs, roots, captab, hist
vars == <<objs, roots, captab, hist>>

ZeroW == <<0, 0, 0, 0, 0, 0, 0, 0>>
NullRef == [r |-> "null"]
ObjRef(i) == [r |-> "obj", id |-> i]
CapRef(i) == [r |-> "cap", i |-> i]
Msgs == 1..NMsgs

Init == /\ objs = <<>>
        /\ roots = [m \in Msgs |-> NullRef]
        /\ captab = [m \in Msgs |-> << <<m, 0>>, <<m, 1>> >>]   \* every message starts with two capability-table entries; <<m, i>> names the capability
        /\ hist = <<>>

\* ---------------- value trees ----------------
Bytes4(i) == <<i % 256, (i \div 256) % 256, (i \div 65536) % 256, (i \div 16777216) % 256>>
RECURSIVE Tree(_, _, _)
StructTree(os, s, d) == [t |-> "struct", d |-> s.d, p |-> [i \in 1..Len(s.p) |-> Tree(os, s.p[i], d)]]
Tree(os, ref, d) ==
  CASE ref.r = "null" -> [t |-> "null"]
    [] ref.r = "cap"  -> [t |-> "cap", i |-> Bytes4(ref.i)]
    [] ref.r = "obj"  ->
         IF d = 0 THEN [t |-> "err", r |-> "depth"]
         ELSE LET o == os[ref.id] IN
              IF o.t = "struct" THEN StructTree(os, o, d - 1)
              ELSE [t |-> "list", k |-> o.k, n |-> o.n,
                    e |-> CASE o.k = 6 -> [i \in 1..o.n |-> Tree(os, o.e[i], d - 1)]
                            [] o.k = 7 -> [i \in 1..o.n |-> StructTree(os, o.e[i], d - 1)]
                            [] OTHER -> o.e]

\* ---------------- designators ----------------
\* a struct that can be written: a struct object or an element of a composite list
StructTargets == { [k |-> "obj", id |-> i] : i \in { j \in 1..Len(objs) : objs[j].t = "struct" /\ objs[j].h } }
            \cup { [k |-> "elem", id |-> i, idx |-> x] : i \in { j \in 1..Len(objs) : objs[j].t = "list" /\ objs[j].k = 7 /\ objs[j].h },
                                                          x \in 1..3 }
ValidT(ts) == IF ts.k = "obj" THEN TRUE ELSE ts.idx <= objs[ts.id].n
MsgOf(ts) == objs[ts.id].m
GetS(os, ts) == IF ts.k = "obj" THEN [d |-> os[ts.id].d, p |-> os[ts.id].p] ELSE os[ts.id].e[ts.idx]
PutS(os, ts, s) == IF ts.k = "obj" THEN [os EXCEPT ![ts.id].d = s.d, ![ts.id].p = s.p]
                   ELSE [os EXCEPT ![ts.id].e[ts.idx] = s]

\* ids reachable from a reference
RECURSIVE ReachR(_, _, _)
ReachS(os, s, d) == UNION { ReachR(os, s.p[i], d) : i \in 1..Len(s.p) }
ReachR(os, ref, d) ==
  IF ref.r # "obj" \/ d = 0 THEN {}
  ELSE LET o == os[ref.id] IN
       {ref.id} \cup (IF o.t = "struct" THEN ReachS(os, o, d - 1)
                      ELSE IF o.k = 6 THEN UNION { ReachR(os, o.e[i], d - 1) : i \in 1..o.n }
                      ELSE IF o.k = 7 THEN UNION { ReachS(os, o.e[i], d - 1) : i \in 1..o.n }
                      ELSE {})

\* ---------------- deep copy ----------------
\* st = [objs, captab]; sm = message the reference lives in; returns [st, ref]
RECURSIVE CopyR(_, _, _, _), CopyPtrs(_, _, _, _, _, _), CopyElems(_, _, _, _, _, _)
CopyPtrs(st, ps, i, acc, sm, dst) ==
  IF i > Len(ps) THEN [st |-> st, refs |-> acc]
  ELSE LET r == CopyR(st, ps[i], sm, dst) IN CopyPtrs(r.st, ps, i + 1, Append(acc, r.ref), sm, dst)
CopyElems(st, es, i, acc, sm, dst) ==
  IF i > Len(es) THEN [st |-> st, es |-> acc]
  ELSE LET r == CopyPtrs(st, es[i].p, 1, <<>>, sm, dst) IN
       CopyElems(r.st, es, i + 1, Append(acc, [d |-> es[i].d, p |-> r.refs]), sm, dst)
\* the capability a pointer with index i denotes in message sm (NONE if the index is outside the table)
CapOf(st, sm, i) == IF i + 1 <= Len(st.captab[sm]) THEN st.captab[sm][i + 1] ELSE <<0, 0>>
CopyR(st, ref, sm, dst) ==
  CASE ref.r = "null" -> [st |-> st, ref |-> ref]
    [] ref.r = "cap"  -> IF sm = dst THEN [st |-> st, ref |-> ref]      \* same message: the index is kept, no new table entry
                         ELSE [st |-> [st EXCEPT !.captab[dst] = Append(@, CapOf(st, sm, ref.i))], ref |-> CapRef(Len(st.captab[dst]))]
    [] ref.r = "obj"  ->
         LET o == st.objs[ref.id] IN
         IF o.t = "struct" THEN
            LET r == CopyPtrs(st, o.p, 1, <<>>, sm, dst)
                no == [t |-> "struct", h |-> FALSE, m |-> dst, d |-> o.d, p |-> r.refs]
            IN [st |-> [r.st EXCEPT !.objs = Append(@, no)], ref |-> ObjRef(Len(r.st.objs) + 1)]
         ELSE IF o.k = 6 THEN
            LET r == CopyPtrs(st, o.e, 1, <<>>, sm, dst)
                no == [o EXCEPT !.m = dst, !.h = FALSE, !.e = r.refs]
            IN [st |-> [r.st EXCEPT !.objs = Append(@, no)], ref |-> ObjRef(Len(r.st.objs) + 1)]
         ELSE IF o.k = 7 THEN
            LET r == CopyElems(st, o.e, 1, <<>>, sm, dst)
                no == [o EXCEPT !.m = dst, !.h = FALSE, !.e = r.es]
            IN [st |-> [r.st EXCEPT !.objs = Append(@, no)], ref |-> ObjRef(Len(r.st.objs) + 1)]
         ELSE [st |-> [st EXCEPT !.objs = Append(@, [o EXCEPT !.m = dst, !.h = FALSE])], ref |-> ObjRef(Len(st.objs) + 1)]

\* copy struct value s into a struct of sizes (dw, pc): version-skew rule
Fit(seq, n, fill) == [i \in 1..n |-> IF i <= Len(seq) THEN seq[i] ELSE fill]
\* returns [st, s]
CopyStructInto(st, s, dw, pc, sm, dst) ==
  LET keep == SubSeq(s.p, 1, IF Len(s.p) < pc THEN Len(s.p) ELSE pc)
      r == CopyPtrs(st, keep, 1, <<>>, sm, dst)
  IN [st |-> r.st, s |-> [d |-> Fit(s.d, dw, ZeroW), p |-> Fit(r.refs, pc, NullRef)]]

\* ---------------- operations ----------------
Exp(os, rs) == [m \in Msgs |-> Tree(os, rs[m], D)]
Record(op, os, rs) == hist' = Append(hist, [op EXCEPT !.exp = Exp(os, rs), !.captab = captab'])
OpRec(name) == [op |-> name, exp |-> <<>>, captab |-> <<>>]
Allowed(name) == name \in Ops /\ (Plan = <<>> \/ (Len(hist) < Len(Plan) /\ name \in Plan[Len(hist) + 1]))
Room == Len(objs) < MaxObjs /\ Len(hist) < MaxOps
Tick == Len(hist) + 1                       \* used to make every written value distinguishable

NewStructObj(m, z) == [t |-> "struct", h |-> TRUE, m |-> m, d |-> [i \in 1..z[1] |-> ZeroW], p |-> [i \in 1..z[2] |-> NullRef]]

\* the API takes the data size in bytes and rounds it up to whole words
DataBytes(dw) == IF dw = 0 THEN {0} ELSE {8 * dw, 8 * dw - 5}
NewRoot == /\ Allowed("newroot") /\ Room
           /\ \E m \in Msgs, z \in Sizes : \E db \in DataBytes(z[1]) :
                LET os == Append(objs, NewStructObj(m, z))
                    rs == [roots EXCEPT ![m] = ObjRef(Len(os))] IN
                /\ objs' = os /\ roots' = rs /\ UNCHANGED captab
                /\ Record(OpRec("newroot") @@ [m |-> m, dw |-> z[1], db |-> db, pc |-> z[2], id |-> Len(os)], os, rs)

NewStruct == /\ Allowed("newstruct") /\ Room
             /\ \E m \in Msgs, z \in Sizes : \E db \in DataBytes(z[1]) :
                  LET os == Append(objs, NewStructObj(m, z)) IN
                  /\ objs' = os /\ UNCHANGED <<roots, captab>>
                  /\ Record(OpRec("newstruct") @@ [m |-> m, dw |-> z[1], db |-> db, pc |-> z[2], id |-> Len(os)], os, roots)

\* data writes: width in bits; off in units of the width; value derived from the step number
SetByte(w, i, b) == [w EXCEPT ![i] = b]
WriteBytes(d, byteoff, bs) ==
  LET wi == (byteoff \div 8) + 1  bi == byteoff % 8 IN
  [d EXCEPT ![wi] = [j \in 1..8 |-> IF j - 1 >= bi /\ j - 1 < bi + Len(bs) THEN bs[j - bi] ELSE d[wi][j]]]
ValBytes(n, t) == [j \in 1..n |-> ((16 * t + j + 128) % 255) + 1]
GetByte(d, byteoff) == d[(byteoff \div 8) + 1][(byteoff % 8) + 1]
BitOf(b, bit) == (b \div (2 ^ bit)) % 2
FlipBit(b, bit) == IF BitOf(b, bit) = 1 THEN b - (2 ^ bit) ELSE b + (2 ^ bit)
\* new data section after the write of width wd at offset off (in units of wd)
DataAfter(d, wd, off, t) ==
  IF wd = 1 THEN WriteBytes(d, off \div 8, <<FlipBit(GetByte(d, off \div 8), off % 8)>>)
  ELSE WriteBytes(d, off * (wd \div 8), ValBytes(wd \div 8, t))
SetData == /\ Allowed("setdata") /\ Len(hist) < MaxOps
           /\ \E ts \in StructTargets : ValidT(ts) /\ Len(GetS(objs, ts).d) > 0 /\
              \E wd \in {1, 8, 16, 32, 64} :
              \E off \in { 0, ((Len(GetS(objs, ts).d) * 64) \div wd) - 1, 3 } :
                 /\ (off + 1) * wd <= Len(GetS(objs, ts).d) * 64
                 /\ LET s == GetS(objs, ts)
                        nd == DataAfter(s.d, wd, off, Tick)
                        os == PutS(objs, ts, [s EXCEPT !.d = nd])
                        val == IF wd = 1 THEN <<BitOf(GetByte(nd, off \div 8), off % 8)>> ELSE ValBytes(wd \div 8, Tick) IN
                    /\ objs' = os /\ UNCHANGED <<roots, captab>>
                    /\ Record(OpRec("setdata") @@ [tgt |-> ts, width |-> wd, off |-> off, val |-> val], os, roots)

\* sources for pointer assignment
Sources == {NullRef} \cup { CapRef(i) : i \in {0, 1} } \cup { ObjRef(i) : i \in { j \in 1..Len(objs) : objs[j].h } }
SrcElems == { [k |-> "elem", id |-> i, idx |-> x] : i \in { j \in 1..Len(objs) : objs[j].t = "list" /\ objs[j].k = 7 /\ objs[j].h }, x \in 1..2 }

\* assigning reference src (living in message sm) to a pointer slot of message dm: result [st, ref]
Assign(src, dm) ==
  LET st == [objs |-> objs, captab |-> captab] IN
  IF src.r = "null" THEN [st |-> st, ref |-> src]
  ELSE IF src.r = "cap" THEN [st |-> st, ref |-> src]        \* same-message capability pointer: index kept
  ELSE IF objs[src.id].m = dm THEN [st |-> st, ref |-> src] \* same message: refer, no copy
  ELSE CopyR(st, src, objs[src.id].m, dm)

ContainerId(ts) == ts.id
NoCycle(ts, ref) == ref.r # "obj" \/ ContainerId(ts) \notin ReachR(objs, ref, D + 2)

SetPtr == /\ Allowed("setptr") /\ Len(hist) < MaxOps
          /\ \E ts \in StructTargets : ValidT(ts) /\
             LET s == GetS(objs, ts) IN
             \E i \in 1..Len(s.p) :
                \/ \E src \in Sources :
                     /\ NoCycle(ts, src)
                     /\ (IF src.r = "obj" THEN (IF objs[src.id].m = MsgOf(ts) THEN TRUE ELSE Len(objs) + 4 <= MaxObjs) ELSE TRUE)
                     /\ LET r == Assign(src, MsgOf(ts))
                            os == PutS(r.st.objs, ts, [s EXCEPT !.p[i] = r.ref]) IN
                        /\ objs' = os /\ captab' = r.st.captab /\ UNCHANGED roots
                        /\ Record(OpRec("setptr") @@ [tgt |-> ts, i |-> i - 1, src |-> src], os, roots)
                \/ \E se \in SrcElems :         \* a struct-list element as source: always copied
                     /\ se.idx <= objs[se.id].n /\ Len(objs) + 3 <= MaxObjs
                     /\ LET e == objs[se.id].e[se.idx]
                            st0 == [objs |-> objs, captab |-> captab]
                            r == CopyPtrs(st0, e.p, 1, <<>>, objs[se.id].m, MsgOf(ts))
                            no == [t |-> "struct", h |-> FALSE, m |-> MsgOf(ts), d |-> e.d, p |-> r.refs]
                            os1 == Append(r.st.objs, no)
                            os == PutS(os1, ts, [GetS(os1, ts) EXCEPT !.p[i] = ObjRef(Len(os1))]) IN
                        /\ objs' = os /\ captab' = r.st.captab /\ UNCHANGED roots
                        /\ Record(OpRec("setptr") @@ [tgt |-> ts, i |-> i - 1, src |-> se], os, roots)

ElemZero(k) == CASE k = 1 -> 0 [] k = 2 -> <<0>> [] k = 3 -> <<0, 0>> [] k = 4 -> <<0, 0, 0, 0>> [] k = 5 -> ZeroW [] k = 6 -> NullRef
NewList == /\ Allowed("newlist") /\ Room
           /\ \E m \in Msgs, z \in ListShapes :
                LET o == [t |-> "list", h |-> TRUE, m |-> m, k |-> z[1], n |-> z[2], e |-> IF z[1] = 0 THEN <<>> ELSE [i \in 1..z[2] |-> ElemZero(z[1])]]
                    os == Append(objs, o) IN
                /\ objs' = os /\ UNCHANGED <<roots, captab>>
                /\ Record(OpRec("newlist") @@ [m |-> m, k |-> z[1], n |-> z[2], id |-> Len(os)], os, roots)

NewComp == /\ Allowed("newcomp") /\ Room
           /\ \E m \in Msgs, z \in Sizes, n \in CompLens : \E db \in DataBytes(z[1]) :
                LET o == [t |-> "list", h |-> TRUE, m |-> m, k |-> 7, n |-> n,
                          e |-> [i \in 1..n |-> [d |-> [j \in 1..z[1] |-> ZeroW], p |-> [j \in 1..z[2] |-> NullRef]]]]
                    os == Append(objs, o) IN
                /\ objs' = os /\ UNCHANGED <<roots, captab>>
                /\ Record(OpRec("newcomp") @@ [m |-> m, dw |-> z[1], db |-> db, pc |-> z[2], n |-> n, id |-> Len(os)], os, roots)

ElemBytes(k) == CASE k = 2 -> 1 [] k = 3 -> 2 [] k = 4 -> 4 [] k = 5 -> 8
SetElem == /\ Allowed("setelem") /\ Len(hist) < MaxOps
           /\ \E l \in { j \in 1..Len(objs) : objs[j].t = "list" /\ objs[j].k \in 1..5 /\ objs[j].h } :
              \E x \in { 1, objs[l].n } : x >= 1 /\ x <= objs[l].n /\
                LET k == objs[l].k
                    v == IF k = 1 THEN 1 - objs[l].e[x] ELSE ValBytes(ElemBytes(k), Tick)
                    os == [objs EXCEPT ![l].e[x] = v] IN
                /\ objs' = os /\ UNCHANGED <<roots, captab>>
                /\ Record(OpRec("setelem") @@ [list |-> l, idx |-> x - 1, k |-> k, val |-> IF k = 1 THEN <<v>> ELSE v], os, roots)

\* PointerList.Set
SetPList == /\ Allowed("setplist") /\ Len(hist) < MaxOps
            /\ \E l \in { j \in 1..Len(objs) : objs[j].t = "list" /\ objs[j].k = 6 /\ objs[j].h } :
               \E x \in 1..objs[l].n, src \in Sources :
                 /\ (src.r # "obj" \/ l \notin ReachR(objs, src, D + 2))
                 /\ (IF src.r = "obj" THEN (IF objs[src.id].m = objs[l].m THEN TRUE ELSE Len(objs) + 4 <= MaxObjs) ELSE TRUE)
                 /\ LET r == Assign(src, objs[l].m)
                        os == [r.st.objs EXCEPT ![l].e[x] = r.ref] IN
                    /\ objs' = os /\ captab' = r.st.captab /\ UNCHANGED roots
                    /\ Record(OpRec("setplist") @@ [list |-> l, idx |-> x - 1, src |-> src], os, roots)

\* Struct.SetText / SetData with a fresh byte list (text carries the NUL terminator)
TextChoices == { <<>>, <<104>>, <<104, 105, 33>>, <<49, 50, 51, 52, 53, 54, 55>>, <<49, 50, 51, 52, 53, 54, 55, 56>> }
SetText == /\ Allowed("settext") /\ Room
           /\ \E ts \in StructTargets : ValidT(ts) /\
              LET s == GetS(objs, ts) IN
              \E i \in 1..Len(s.p), tx \in TextChoices, kind \in {"text", "newtext", "data"} :
                 LET bytes == IF kind = "data" THEN tx ELSE Append(tx, 0)
                     isnull == kind = "text" /\ tx = <<>>
                     o == [t |-> "list", h |-> FALSE, m |-> MsgOf(ts), k |-> 2, n |-> Len(bytes), e |-> [j \in 1..Len(bytes) |-> <<bytes[j]>>]]
                     os1 == IF isnull THEN objs ELSE Append(objs, o)
                     os == PutS(os1, ts, [GetS(os1, ts) EXCEPT !.p[i] = IF isnull THEN NullRef ELSE ObjRef(Len(os1))]) IN
                 /\ objs' = os /\ UNCHANGED <<roots, captab>>
                 /\ Record(OpRec("settext") @@ [tgt |-> ts, i |-> i - 1, kind |-> kind, bytes |-> tx], os, roots)

\* List.SetStruct(i, s) and Struct.CopyFrom(s): copy with truncation / zero extension
StructSources == { ts \in StructTargets : ValidT(ts) }
SetStruct == /\ (Allowed("setstruct") \/ Allowed("copyfrom")) /\ Len(hist) < MaxOps /\ Len(objs) + 3 <= MaxObjs
             /\ \E dst \in { ts \in StructTargets : ValidT(ts) /\ (IF ts.k = "elem" THEN Allowed("setstruct") ELSE Allowed("copyfrom")) }, src \in StructSources :
                  /\ dst # src
                  /\ (IF dst.k = "elem" /\ src.k = "elem" THEN src.id # dst.id ELSE TRUE)
                  /\ ContainerId(dst) \notin ReachS(objs, GetS(objs, src), D + 2)
                  /\ LET ds == GetS(objs, dst)
                         r == CopyStructInto([objs |-> objs, captab |-> captab], GetS(objs, src), Len(ds.d), Len(ds.p), MsgOf(src), MsgOf(dst))
                         os == PutS(r.st.objs, dst, r.s) IN
                     /\ objs' = os /\ captab' = r.st.captab /\ UNCHANGED roots
                     /\ Record(OpRec(IF dst.k = "elem" THEN "setstruct" ELSE "copyfrom") @@ [tgt |-> dst, src |-> src], os, roots)

SetRoot == /\ Allowed("setroot") /\ Len(hist) < MaxOps /\ Len(objs) + 4 <= MaxObjs
           /\ \E m \in Msgs, src \in Sources :
                /\ src.r # "cap"
                /\ LET r == Assign(src, m)
                       rs == [roots EXCEPT ![m] = r.ref] IN
                   /\ objs' = r.st.objs /\ captab' = r.st.captab /\ roots' = rs
                   /\ Record(OpRec("setroot") @@ [m |-> m, src |-> src], r.st.objs, rs)

Next == NewRoot \/ NewStruct \/ SetData \/ SetPtr \/ NewList \/ NewComp \/ SetElem \/ SetPList \/ SetText \/ SetStruct \/ SetRoot
Spec == Init /\ [][Next]_vars

\* ---------------- output ----------------
\* a behaviour is printed when it is complete (MaxOps operations) - used with -simulate and with exhaustive search
Done == Len(hist) = MaxOps
EmitBeh == Done => PrintT(<<"BEH", ToJson([ops |-> hist, nmsgs |-> NMsgs])>>)
\* sanity: the abstract store never contains a cycle (Tree is total)
Acyclic == \A i \in 1..Len(objs) : i \notin (IF objs[i].t = "struct" THEN ReachS(objs, objs[i], D + 2)
                                             ELSE IF objs[i].k = 6 THEN UNION { ReachR(objs, objs[i].e[j], D + 2) : j \in 1..objs[i].n }
                                             ELSE IF objs[i].k = 7 THEN UNION { ReachS(objs, objs[i].e[j], D + 2) : j \in 1..objs[i].n }
                                             ELSE {})
=============================================================================
