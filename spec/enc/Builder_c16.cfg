SPECIFICATION Spec
CONSTANTS
  NMsgs = 2
  MaxOps = 3
  MaxObjs = 6
  D = 6
  Sizes <- SizesSmall
  ListShapes <- ShapesSmall
  CompLens = {2}
  Ops <- OpsAll
INVARIANTS Acyclic EmitBeh
CHECK_DEADLOCK FALSE
