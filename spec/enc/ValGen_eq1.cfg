SPECIFICATION Spec
CONSTANTS
  Depth = 1
  Mode = "eq"
INVARIANTS Reflexive Symmetric CanonSound CanonLayoutIndependent EmitEq
CHECK_DEADLOCK FALSE
