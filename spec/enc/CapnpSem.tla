---------------------------- MODULE CapnpSem ----------------------------
(* The Cap'n Proto encoding specification (capnproto.org/encoding.html)   *)
(* as TLA+ operators.  A message is a sequence of segments (segment id =  *)
(* index-1), a segment a sequence of words, a word a tuple of 8 bytes     *)
(* (little endian).  All quantities stay below 2^31 (TLC integers):       *)
(* pointer fields are extracted from bytes arithmetically.                *)
(*                                                                        *)
(* Value(m, d) is the STRICT reading: everything the encoding spec does   *)
(* not define (out of bounds, malformed landing pads, composite word      *)
(* count that does not match the tag, unknown pointer types, ...) denotes *)
(* Err, where an implementation is free to reject or to be lenient.       *)
EXTENDS Integers, Sequences, FiniteSets, TLC

MaxEnum == 128     \* lists longer than this are not expanded element by element (modelling bound)

NSeg(m)      == Len(m)
SegLen(m, s) == Len(m[s+1])
W(m, s, a)   == m[s+1][a+1]
SetW(m, s, a, w) == [m EXCEPT ![s+1][a+1] = w]

ZeroW      == <<0, 0, 0, 0, 0, 0, 0, 0>>
IsZeroW(w) == \A i \in 1..8 : w[i] = 0
Kind(w)    == w[1] % 4                       \* 0 struct, 1 list, 2 far, 3 other
OffU(w)    == (w[1] \div 4) + 64*w[2] + 16384*w[3] + 4194304*w[4]
Off(w)     == IF OffU(w) >= 536870912 THEN OffU(w) - 1073741824 ELSE OffU(w)
DW(w)      == w[5] + 256*w[6]
PC(w)      == w[7] + 256*w[8]
ElSz(w)    == w[5] % 8
Cnt(w)     == (w[5] \div 8) + 32*w[6] + 8192*w[7] + 2097152*w[8]
IsDbl(w)   == (w[1] \div 4) % 2 = 1
FarOff(w)  == (w[1] \div 8) + 32*w[2] + 8192*w[3] + 2097152*w[4]
FarSeg(w)  == IF w[8] >= 128 THEN -1 ELSE w[5] + 256*w[6] + 65536*w[7] + 16777216*w[8]
OtherTy(w) == OffU(w)                        \* bits 2..31 of an "other" pointer; 0 = capability
CapIdx(w)  == <<w[5], w[6], w[7], w[8]>>

\* ---- constructors (used by the generators; MkX followed by the extractors is the identity) ----
OffBytes(off, kind) == LET u == IF off < 0 THEN off + 1073741824 ELSE off IN
   <<(u % 64) * 4 + kind, (u \div 64) % 256, (u \div 16384) % 256, (u \div 4194304) % 256>>
MkStruct(off, dw, pc) == OffBytes(off, 0) \o <<dw % 256, dw \div 256, pc % 256, pc \div 256>>
MkList(off, k, cnt)   == OffBytes(off, 1) \o <<(cnt % 32) * 8 + k, (cnt \div 32) % 256, (cnt \div 8192) % 256, (cnt \div 2097152) % 256>>
SegBytes(sg)          == IF sg < 0 THEN <<255, 255, 255, 255>>
                         ELSE <<sg % 256, (sg \div 256) % 256, (sg \div 65536) % 256, (sg \div 16777216) % 256>>
MkFar(dbl, pa, sg)    == <<(pa % 32) * 8 + (IF dbl THEN 4 ELSE 0) + 2, (pa \div 32) % 256, (pa \div 8192) % 256, (pa \div 2097152) % 256>> \o SegBytes(sg)
MkCap(idx)            == <<3, 0, 0, 0>> \o SegBytes(idx)
MkOther(ty)           == OffBytes(ty, 3) \o <<0, 0, 0, 0>>

Null     == [t |-> "null"]
Err(r)   == [t |-> "err", r |-> r]
IsErr(v) == v.t = "err"

\* size in words of a non-composite list body
BodyWords(k, n) ==
  CASE k = 0 -> 0
    [] k = 1 -> (n + 63) \div 64
    [] k = 2 -> (n + 7) \div 8
    [] k = 3 -> (n + 3) \div 4
    [] k = 4 -> (n + 1) \div 2
    [] k = 5 -> n
    [] k = 6 -> n
ElBytes(k) == CASE k = 2 -> 1 [] k = 3 -> 2 [] k = 4 -> 4 [] k = 5 -> 8

\* n * sz = total without overflowing TLC integers
ProductIs(n, sz, total) == IF sz = 0 THEN total = 0 ELSE total % sz = 0 /\ total \div sz = n

\* ---- object location: where a pointer leads (no recursion) ----
\* Result: Null | Err | [t:"cap"] | [t:"sloc", s, a, dw, pc] | [t:"lloc", s, a, k, n, dw, pc]
\* (a = first content word; for composite lists a is the first element, after the tag)
Obj(m, s, start, p) ==
  IF Kind(p) = 0 THEN
     IF start < 0 \/ start + DW(p) + PC(p) > SegLen(m, s) THEN Err("struct out of bounds")
     ELSE [t |-> "sloc", s |-> s, a |-> start, dw |-> DW(p), pc |-> PC(p)]
  ELSE \* list
     LET k == ElSz(p) IN
     IF k < 7 THEN
        IF start < 0 \/ start + BodyWords(k, Cnt(p)) > SegLen(m, s) THEN Err("list out of bounds")
        ELSE [t |-> "lloc", s |-> s, a |-> start, k |-> k, n |-> Cnt(p), dw |-> 0, pc |-> 0, wc |-> BodyWords(k, Cnt(p))]
     ELSE
        IF start < 0 \/ start + 1 + Cnt(p) > SegLen(m, s) THEN Err("composite list out of bounds")
        ELSE LET tag == W(m, s, start) IN
             IF Kind(tag) # 0 THEN Err("composite tag is not a struct")
             ELSE IF OffU(tag) >= 536870912 THEN Err("composite count out of range")
             ELSE IF ~ProductIs(OffU(tag), DW(tag) + PC(tag), Cnt(p)) THEN Err("composite word count does not match tag")
             ELSE [t |-> "lloc", s |-> s, a |-> start + 1, k |-> 7, n |-> OffU(tag),
                   dw |-> DW(tag), pc |-> PC(tag), wc |-> Cnt(p)]

Near(m, s, base, p) ==
  IF IsZeroW(p) THEN Null
  ELSE CASE Kind(p) \in {0, 1} -> Obj(m, s, base + Off(p), p)
         [] Kind(p) = 3 -> IF OtherTy(p) = 0 THEN [t |-> "cap", i |-> CapIdx(p)] ELSE Err("unknown pointer type")
         [] Kind(p) = 2 -> Err("landing pad is a far pointer")

\* classification of the pointer word itself: "near", "far", "dfar"
PtrForm(w) == IF IsZeroW(w) \/ Kind(w) # 2 THEN "near" ELSE IF IsDbl(w) THEN "dfar" ELSE "far"

Locate(m, s, a) ==
  LET w == W(m, s, a) IN
  IF Kind(w) # 2 \/ IsZeroW(w) THEN Near(m, s, a + 1, w)
  ELSE LET ts == FarSeg(w)  pa == FarOff(w) IN
       IF ts < 0 \/ ts >= NSeg(m) THEN Err("far: no such segment")
       ELSE IF ~IsDbl(w) THEN
               IF pa >= SegLen(m, ts) THEN Err("far: pad out of bounds")
               ELSE Near(m, ts, pa + 1, W(m, ts, pa))
            ELSE
               IF pa + 2 > SegLen(m, ts) THEN Err("double-far: pad out of bounds")
               ELSE LET f == W(m, ts, pa)  tag == W(m, ts, pa + 1) IN
                    IF Kind(f) # 2 \/ IsDbl(f) THEN Err("double-far: first pad word is not a far pointer")
                    ELSE IF Kind(tag) \notin {0, 1} \/ OffU(tag) # 0 THEN Err("double-far: bad tag")
                    ELSE IF FarSeg(f) < 0 \/ FarSeg(f) >= NSeg(m) THEN Err("double-far: no such segment")
                    ELSE Obj(m, FarSeg(f), FarOff(f), tag)

\* ---- value tree ----
ByteAt(m, s, a, i) == W(m, s, a + (i \div 8))[(i % 8) + 1]        \* i-th byte from word a
BitAt(m, s, a, i)  == (ByteAt(m, s, a, i \div 8) \div (2 ^ (i % 8))) % 2

RECURSIVE ValueAt(_, _, _, _), StructVal(_, _, _, _, _, _)
StructVal(m, s, a, dw, pc, d) ==
  [t |-> "struct",
   d |-> [i \in 1..dw |-> W(m, s, a + i - 1)],
   p |-> [i \in 1..pc |-> ValueAt(m, s, a + dw + i - 1, d)]]

ValueAt(m, s, a, d) ==
  LET loc == Locate(m, s, a) IN
  IF loc.t \in {"null", "err", "cap"} THEN loc
  ELSE IF d = 0 THEN Err("depth")
  ELSE IF loc.t = "sloc" THEN StructVal(m, loc.s, loc.a, loc.dw, loc.pc, d - 1)
  ELSE \* list
    LET k == loc.k  n == loc.n IN
    IF k # 0 /\ n > MaxEnum THEN Err("list too long to model")
    ELSE
    [t |-> "list", k |-> k, n |-> n,
     e |-> CASE k = 0 -> <<>>
             [] k = 1 -> [i \in 1..n |-> BitAt(m, loc.s, loc.a, i - 1)]
             [] k \in 2..5 -> [i \in 1..n |-> [j \in 1..ElBytes(k) |-> ByteAt(m, loc.s, loc.a, (i-1)*ElBytes(k) + j - 1)]]
             [] k = 6 -> [i \in 1..n |-> ValueAt(m, loc.s, loc.a + i - 1, d - 1)]
             [] k = 7 -> [i \in 1..n |-> StructVal(m, loc.s, loc.a + (i-1)*(loc.dw + loc.pc), loc.dw, loc.pc, d - 1)]]

Value(m, d) == IF NSeg(m) = 0 \/ SegLen(m, 0) = 0 THEN Err("no root") ELSE ValueAt(m, 0, 0, d)

\* TRUE iff the value tree contains no Err node
RECURSIVE Clean(_)
Clean(v) ==
  CASE v.t \in {"null", "cap"} -> TRUE
    [] v.t = "err" -> FALSE
    [] v.t = "struct" -> \A i \in 1..Len(v.p) : Clean(v.p[i])
    [] v.t = "list" -> IF v.k \in {6, 7} THEN \A i \in 1..Len(v.e) : Clean(v.e[i]) ELSE TRUE

\* ---- reachable pointer positions and storage extents ----
\* Slots(m, d): every position holding a pointer word that a reader can reach:
\*   <<"ptr", s, a>>  ordinary pointer (root, struct pointer section, pointer-list element)
\*   <<"pad", s, a>>  far landing pad (one word, an ordinary pointer relative to its own position)
\*   <<"dpad", s, a>> double-far landing pad (two words: far pointer + tag)
RECURSIVE SlotsAt(_, _, _, _, _)
PtrRange(m, s, a, n, d, kind) == UNION { SlotsAt(m, s, a + i, d, kind) : i \in 0..(n - 1) }
SlotsAt(m, s, a, d, kind) ==
  LET w == W(m, s, a)
      self == { <<kind, s, a>> }
      loc == Locate(m, s, a)
      pads == IF PtrForm(w) = "near" THEN {}
              ELSE LET ts == FarSeg(w)  pa == FarOff(w) IN
                   IF ts < 0 \/ ts >= NSeg(m) THEN {}
                   ELSE IF PtrForm(w) = "far" THEN (IF pa < SegLen(m, ts) THEN { <<"pad", ts, pa>> } ELSE {})
                   ELSE (IF pa + 2 <= SegLen(m, ts) THEN { <<"dpad", ts, pa>> } ELSE {})
      below == IF d = 0 \/ loc.t \in {"null", "err", "cap"} THEN {}
               ELSE IF loc.t = "sloc" THEN PtrRange(m, loc.s, loc.a + loc.dw, loc.pc, d - 1, "ptr")
               ELSE IF loc.k = 6 /\ loc.n <= MaxEnum THEN PtrRange(m, loc.s, loc.a, loc.n, d - 1, "ptr")
               ELSE IF loc.k = 7 /\ loc.n <= MaxEnum THEN
                    UNION { PtrRange(m, loc.s, loc.a + i * (loc.dw + loc.pc) + loc.dw, loc.pc, d - 1, "ptr") : i \in 0..(loc.n - 1) }
               ELSE {}
  IN self \cup pads \cup below
Slots(m, d) == IF NSeg(m) = 0 \/ SegLen(m, 0) = 0 THEN {} ELSE SlotsAt(m, 0, 0, d, "ptr")

\* Extents(m, d): storage regions <<s, from, to>> (half open, in words) of everything reachable:
\* the root pointer, landing pads, struct bodies, list bodies (composite: including the tag word)
RECURSIVE ExtAt(_, _, _, _)
ExtRange(m, s, a, n, d) == UNION { ExtAt(m, s, a + i, d) : i \in 0..(n - 1) }
ExtAt(m, s, a, d) ==
  LET w == W(m, s, a)
      loc == Locate(m, s, a)
      pads == IF PtrForm(w) = "near" THEN {}
              ELSE LET ts == FarSeg(w)  pa == FarOff(w) IN
                   IF ts < 0 \/ ts >= NSeg(m) THEN {}
                   ELSE IF PtrForm(w) = "far" THEN { <<ts, pa, pa + 1>> } ELSE { <<ts, pa, pa + 2>> }
      body == IF loc.t \in {"null", "err", "cap"} THEN {}
              ELSE IF loc.t = "sloc" THEN { <<loc.s, loc.a, loc.a + loc.dw + loc.pc>> }
              ELSE IF loc.k = 7 THEN { <<loc.s, loc.a - 1, loc.a + loc.wc>> }
              ELSE { <<loc.s, loc.a, loc.a + loc.wc>> }
      below == IF d = 0 \/ loc.t \in {"null", "err", "cap"} THEN {}
               ELSE IF loc.t = "sloc" THEN ExtRange(m, loc.s, loc.a + loc.dw, loc.pc, d - 1)
               ELSE IF loc.k = 6 /\ loc.n <= MaxEnum THEN ExtRange(m, loc.s, loc.a, loc.n, d - 1)
               ELSE IF loc.k = 7 /\ loc.n <= MaxEnum THEN
                    UNION { ExtRange(m, loc.s, loc.a + i * (loc.dw + loc.pc) + loc.dw, loc.pc, d - 1) : i \in 0..(loc.n - 1) }
               ELSE {}
  IN pads \cup body \cup below
Extents(m, d) == IF NSeg(m) = 0 \/ SegLen(m, 0) = 0 THEN {} ELSE { <<0, 0, 1>> } \cup ExtAt(m, 0, 0, d)

NonEmpty(x) == x[2] < x[3]
Overlap(x, y) == x[1] = y[1] /\ x[2] < y[3] /\ y[2] < x[3]
\* distinct objects occupy disjoint storage (the same object reached twice is one extent)
Disjoint(m, d) == LET E == { x \in Extents(m, d) : NonEmpty(x) } IN
                  \A x, y \in E : x # y => ~Overlap(x, y)

\* padding after the last element of a sub-word list is zero
RECURSIVE PadAt(_, _, _, _)
PadRange(m, s, a, n, d) == \A i \in 0..(n - 1) : PadAt(m, s, a + i, d)
PadAt(m, s, a, d) ==
  LET loc == Locate(m, s, a) IN
  IF d = 0 \/ loc.t \in {"null", "err", "cap"} THEN TRUE
  ELSE IF loc.t = "sloc" THEN PadRange(m, loc.s, loc.a + loc.dw, loc.pc, d - 1)
  ELSE IF loc.k = 1 THEN \A i \in loc.n..(64 * loc.wc - 1) : BitAt(m, loc.s, loc.a, i) = 0
  ELSE IF loc.k \in 2..4 THEN \A i \in (loc.n * ElBytes(loc.k))..(8 * loc.wc - 1) : ByteAt(m, loc.s, loc.a, i) = 0
  ELSE IF loc.k = 6 /\ loc.n <= MaxEnum THEN PadRange(m, loc.s, loc.a, loc.n, d - 1)
  ELSE IF loc.k = 7 /\ loc.n <= MaxEnum THEN
       \A i \in 0..(loc.n - 1) : PadRange(m, loc.s, loc.a + i * (loc.dw + loc.pc) + loc.dw, loc.pc, d - 1)
  ELSE TRUE
PaddingZero(m, d) == IF NSeg(m) = 0 \/ SegLen(m, 0) = 0 THEN TRUE ELSE PadAt(m, 0, 0, d)

\* A message an implementation may emit: every reachable pointer is defined by the spec (no Err),
\* distinct objects are disjoint, padding is zero.
WellFormed(m, d) == Clean(Value(m, d)) /\ Disjoint(m, d) /\ PaddingZero(m, d)
=============================================================================
