------------------------------ MODULE EncGen ------------------------------
(* Slot-driven generator of messages.  The message starts all zero; at     *)
(* every step the lowest reachable pointer position that has not been      *)
(* assigned yet (root, pointer section of a struct already placed,         *)
(* pointer-list element, far landing pad) receives one word (or a small    *)
(* group of words: pointer + composite tag, double-far pad pair) from an   *)
(* alphabet built from the case analysis of CapnpSem.Locate: every pointer *)
(* kind x boundary placement (object starting right after the pointer,     *)
(* ending exactly at the segment end, one word too far, before the         *)
(* segment start) x boundary sizes.  Valid and invalid choices are mixed   *)
(* on purpose: every reachable state is one test message, printed with     *)
(* the value the specification assigns to it (Err where undefined).        *)
EXTENDS CapnpSem, Json

CONSTANTS SegLens,      \* tuple of segment lengths in words, e.g. <<4, 3>>
          MaxFill,      \* number of generator steps
          RichFills,    \* steps 1..RichFills use the rich alphabet, later ones the reduced one
          D             \* depth bound of Value

VARIABLES msg, filled, nfill
vars == <<msg, filled, nfill>>

NS == Len(SegLens)
L(s) == SegLens[s + 1]

Init == /\ msg = [s \in 1..NS |-> [a \in 1..SegLens[s] |-> ZeroW]]
        /\ filled = {}
        /\ nfill = 0

\* ---- alphabets: a choice is a set of writes <<s, a, word>> ----
StructSizesRich == { <<0, 0>>, <<1, 0>>, <<0, 1>>, <<1, 1>>, <<2, 1>>, <<0, 2>> }
StructSizesRed  == { <<1, 0>>, <<0, 1>>, <<1, 1>> }
ListsRich == { <<0, 0>>, <<0, 3>>, <<0, 536870911>>, <<1, 0>>, <<1, 1>>, <<1, 9>>, <<1, 64>>, <<1, 65>>,
               <<2, 0>>, <<2, 1>>, <<2, 8>>, <<2, 9>>, <<3, 1>>, <<3, 5>>, <<4, 1>>, <<4, 3>>,
               <<5, 1>>, <<5, 2>>, <<6, 0>>, <<6, 1>>, <<6, 2>> }
ListsRed  == { <<0, 2>>, <<1, 9>>, <<2, 3>>, <<4, 2>>, <<5, 1>>, <<6, 1>>, <<6, 2>> }
\* composite: <<n, dw, pc, wc>>; wc = n*(dw+pc) is valid
CompRich == { <<0, 0, 0, 0>>, <<2, 0, 0, 0>>, <<1, 1, 0, 1>>, <<1, 0, 1, 1>>, <<1, 1, 1, 2>>, <<2, 1, 0, 2>>, <<2, 0, 1, 2>>, <<1, 1, 2, 3>>,
              <<1, 1, 0, 2>>,             \* word count larger than the elements need: invalid (strict)
              <<2, 1, 0, 1>>,             \* elements exceed the word count: invalid
              <<1073741823, 0, 0, 0>>,    \* "negative" element count with zero-sized elements: invalid
              <<536870912, 0, 0, 0>> }
CompRed  == { <<1, 0, 1, 1>>, <<1, 1, 1, 2>>, <<2, 0, 1, 2>>, <<2, 0, 0, 0>> }

NearChoices(s, a, rich) ==
  LET len == L(s)
      base == a + 1
      st(start, dw, pc) == { <<s, a, MkStruct(start - base, dw, pc)>> }
      li(start, k, n)   == { <<s, a, MkList(start - base, k, n)>> }
      co(start, c)      == { <<s, a, MkList(start - base, 7, c[4])>> } \cup
                           (IF start >= 0 /\ start < len THEN { <<s, start, MkStruct(c[1], c[2], c[3])>> } ELSE {})
      fitsS(start, sz)  == start >= 0 /\ start + sz <= len
      SS == IF rich THEN StructSizesRich ELSE StructSizesRed
      LL == IF rich THEN ListsRich ELSE ListsRed
      CC == IF rich THEN CompRich ELSE CompRed
      structs ==
           { st(base, z[1], z[2]) : z \in { y \in SS : fitsS(base, y[1] + y[2]) } }
        \cup { st(len - (z[1] + z[2]), z[1], z[2]) : z \in { y \in SS : fitsS(len - (y[1] + y[2]), y[1] + y[2]) } }
        \cup { st(a, 0, 0) }                                  \* zero-sized struct, offset -1
        \cup { st(len, 0, 1) }                                \* one word past the end
        \cup (IF rich THEN { st(len, 0, 0), st(len, 1, 0), st(0 - 1, 1, 0), st(base, 65535, 65535), st(len + 1, 0, 0), st(0, 1, 1) } ELSE {})
      lists ==
           { li(len - BodyWords(z[1], z[2]), z[1], z[2]) : z \in { y \in LL : fitsS(len - BodyWords(y[1], y[2]), BodyWords(y[1], y[2])) } }
        \cup { li(base, z[1], z[2]) : z \in { y \in LL : y[1] \in {2, 6} /\ fitsS(base, BodyWords(y[1], y[2])) } }
        \cup { li(len, 6, 1), li(len, 1, 1) }                 \* one word past the end
        \cup (IF rich THEN { li(len - 1, 5, 2), li(0 - 1, 2, 8), li(base, 5, 536870911), li(base, 1, 536870911), li(len + 1, 0, 0) } ELSE {})
      comps ==
           { co(len - (c[4] + 1), c) : c \in { y \in CC : len - (y[4] + 1) >= 0 } }
        \cup (IF rich THEN { co(base, c) : c \in { y \in CC : base + y[4] + 1 <= len /\ y[4] > 0 } } ELSE {})
        \cup (IF rich /\ len >= 2 THEN { { <<s, a, MkList(len - 2 - base, 7, 1)>>, <<s, len - 2, MkList(0, 2, 1)>> } } ELSE {})  \* tag is not a struct
        \cup { { <<s, a, MkList(len - base, 7, 0)>> } }       \* tag word itself past the end
  IN structs \cup lists \cup comps
     \cup { { <<s, a, MkCap(0)>> }, { <<s, a, MkCap(1)>> } }
     \cup (IF rich THEN { { <<s, a, MkCap(0 - 1)>> }, { <<s, a, MkOther(1)>> }, { <<s, a, MkOther(1073741823)>> } } ELSE {})

FarChoices(s, a, rich) ==
  LET one(ts, pa) == { <<s, a, MkFar(FALSE, pa, ts)>> }
      two(ts, pa) == { <<s, a, MkFar(TRUE, pa, ts)>> }
  IN   { one(ts, L(ts) - 1) : ts \in { x \in 0..(NS - 1) : L(x) >= 1 } }
  \cup { two(ts, L(ts) - 2) : ts \in { x \in 0..(NS - 1) : L(x) >= 2 } }
  \cup (IF rich THEN
             { one(ts, 0) : ts \in { x \in 0..(NS - 1) : L(x) >= 1 } }
        \cup { one(ts, 1) : ts \in { x \in 0..(NS - 1) : L(x) >= 2 } }
        \cup { two(ts, 0) : ts \in { x \in 0..(NS - 1) : L(x) >= 2 } }
        \cup { one(ts, L(ts)) : ts \in 0..(NS - 1) }          \* pad past the end
        \cup { two(ts, L(ts) - 1) : ts \in { x \in 0..(NS - 1) : L(x) >= 1 } }   \* second pad word past the end
        \cup { one(NS, 0), two(NS, 0), one(0 - 1, 0) }        \* no such segment
        ELSE {})

\* double-far landing pad at (s, a): far pointer to the content + tag with zero offset (+ composite tag)
DPadChoices(s, a, rich) ==
  LET pad(cs, coff, tag) == { <<s, a, MkFar(FALSE, coff, cs)>>, <<s, a + 1, tag>> }
      segs == 0..(NS - 1)
  IN   { pad(cs, L(cs) - 2, MkStruct(0, 1, 1)) : cs \in { x \in segs : L(x) >= 2 } }
  \cup { pad(cs, L(cs) - 1, MkList(0, 6, 1)) : cs \in { x \in segs : L(x) >= 1 } }
  \cup { pad(cs, L(cs) - 1, MkList(0, 2, 3)) : cs \in { x \in segs : L(x) >= 1 } }
  \cup { pad(cs, L(cs) - 3, MkList(0, 7, 2)) \cup { <<cs, L(cs) - 3, MkStruct(1, 1, 1)>> } : cs \in { x \in segs : L(x) >= 3 } }
  \cup { pad(cs, L(cs), MkStruct(0, 0, 0)) : cs \in segs }
  \cup (IF rich THEN
             { pad(cs, 0, MkStruct(0, 1, 0)) : cs \in { x \in segs : L(x) >= 1 } }
        \cup { pad(cs, L(cs), MkStruct(0, 0, 1)) : cs \in segs }                     \* content past the end
        \cup { pad(cs, L(cs) - 1, MkStruct(1, 1, 0)) : cs \in { x \in segs : L(x) >= 1 } }  \* tag with non-zero offset: invalid
        \cup { pad(NS, 0, MkStruct(0, 0, 0)) }                                         \* no such segment
        \cup { { <<s, a, MkStruct(0, 1, 0)>>, <<s, a + 1, MkStruct(0, 1, 0)>> } }      \* first word is not a far pointer
        \cup { { <<s, a, MkFar(TRUE, 0, 0)>>, <<s, a + 1, MkStruct(0, 0, 0)>> } }      \* first word is a double-far pointer
        \cup { { <<s, a, MkFar(FALSE, 0, 0)>>, <<s, a + 1, MkFar(FALSE, 0, 0)>> } }    \* tag is a far pointer
        \cup { { <<s, a, MkFar(FALSE, 0, 0)>>, <<s, a + 1, MkCap(0)>> } }              \* tag is a capability
        ELSE {})

Choices(kind, s, a, rich) ==
  CASE kind = "ptr"  -> NearChoices(s, a, rich) \cup FarChoices(s, a, rich)
    [] kind = "pad"  -> NearChoices(s, a, rich) \cup (IF rich THEN { { <<s, a, MkFar(FALSE, 0, 0)>> } } ELSE {})   \* far in a pad: invalid
    [] kind = "dpad" -> DPadChoices(s, a, rich)

Unfilled == { x \in Slots(msg, D) : <<x[2], x[3]>> \notin filled }
Key(x) == x[2] * 100000 + x[3]
NextSlot == CHOOSE x \in Unfilled : \A y \in Unfilled : Key(x) <= Key(y)

Apply(m, ws) == [s \in 1..NS |-> [a \in 1..SegLens[s] |->
                   IF \E w \in ws : w[1] = s - 1 /\ w[2] = a - 1
                   THEN (CHOOSE w \in ws : w[1] = s - 1 /\ w[2] = a - 1)[3] ELSE m[s][a]]]

Next == /\ nfill < MaxFill
        /\ Unfilled # {}
        /\ LET x == NextSlot IN
           \E ws \in Choices(x[1], x[2], x[3], nfill < RichFills) :
              \* a choice never overwrites a word that was assigned before
              /\ \A w \in ws : <<w[1], w[2]>> \notin filled
              /\ msg' = Apply(msg, ws)
              /\ filled' = filled \cup { <<w[1], w[2]>> : w \in ws }
        /\ nfill' = nfill + 1
Spec == Init /\ [][Next]_vars

\* ---- the message handed to the implementation: unassigned non-pointer words carry a position-dependent pattern ----
Pat(s, a) == [i \in 1..8 |-> ((37 * s + 11 * a + 3 * i + 65) % 251) + 1]
SlotPos == UNION { IF x[1] = "dpad" THEN { <<x[2], x[3]>>, <<x[2], x[3] + 1>> } ELSE { <<x[2], x[3]>> } : x \in Slots(msg, D) }
Final == [s \in 1..NS |-> [a \in 1..SegLens[s] |->
            IF <<s - 1, a - 1>> \in filled \/ <<s - 1, a - 1>> \in SlotPos THEN msg[s][a] ELSE Pat(s - 1, a - 1)]]

\* the pattern fill never changes what is reachable (sanity check of the generator)
FillPreserves == Slots(Final, D) = Slots(msg, D)
Emit == PrintT(<<"MSG", ToJson([segs |-> Final, val |-> Value(Final, D), nfill |-> nfill, clean |-> Clean(Value(Final, D))])>>)
=============================================================================
