---- MODULE MCEncGen ----
EXTENDS EncGen
L1 == <<4>>
L2 == <<3, 3>>
L3 == <<2, 3, 2>>
L4 == <<5, 4>>
====
