---- MODULE MCEncGen ----
EXTENDS EncGen
L1 == <<4>>
L2 == <<3, 3>>
L3 == <<2, 3, 2>>
L4 == <<5, 4>>
\* degenerate framings: a first segment without a root word (alone / followed by a populated segment), one-word root segments
L0 == <<0>>
L0b == <<0, 2>>
L1b == <<1, 0, 2>>
====
