------------------------------ MODULE FrameCore ------------------------------
(* Stream framing of a message (encoding spec, "Serialization Over a Stream"):  *)
(* (4 bytes) segment count minus one, (N * 4 bytes) segment sizes in words,     *)
(* padding to a word boundary, then the segments.  Pure operators over byte     *)
(* sequences; used by EncTrace (C05) and by spec/framing (C14).                  *)
EXTENDS Integers, Sequences

\* little-endian 32-bit value at byte offset i (0-based); -1 if it does not fit a TLC integer
U32(b, i) == IF b[i + 4] >= 128 THEN -1 ELSE b[i + 1] + 256 * b[i + 2] + 65536 * b[i + 3] + 16777216 * b[i + 4]

HeaderBytes(nseg) == 8 * ((nseg \div 2) + 1)          \* 4 * (nseg + 1) rounded up to a multiple of 8

RECURSIVE SumSizes(_, _, _)
SumSizes(b, nseg, i) == IF i = nseg THEN 0 ELSE U32(b, 4 + 4 * i) + SumSizes(b, nseg, i + 1)

\* segment s (0-based) as a sequence of words, given its starting byte offset
SegWords(b, start, nwords) == [w \in 1..nwords |-> [k \in 1..8 |-> b[start + 8 * (w - 1) + k]]]

RECURSIVE SegStart(_, _, _)
SegStart(b, nseg, s) == IF s = 0 THEN HeaderBytes(nseg) ELSE SegStart(b, nseg, s - 1) + 8 * U32(b, 4 + 4 * (s - 1))

\* [ok |-> TRUE, segs |-> <<...>>, used |-> bytes consumed] or [ok |-> FALSE, why |-> ...]
Unframe(b) ==
  IF Len(b) < 8 THEN [ok |-> FALSE, why |-> "short header"]
  ELSE LET n1 == U32(b, 0) IN
       IF n1 < 0 \/ n1 >= 512 THEN [ok |-> FALSE, why |-> "segment count"]
       ELSE LET nseg == n1 + 1 IN
            IF Len(b) < HeaderBytes(nseg) THEN [ok |-> FALSE, why |-> "short table"]
            ELSE IF \E s \in 0..(nseg - 1) : U32(b, 4 + 4 * s) < 0 \/ U32(b, 4 + 4 * s) > 16777216 THEN [ok |-> FALSE, why |-> "segment size"]
            ELSE IF Len(b) < HeaderBytes(nseg) + 8 * SumSizes(b, nseg, 0) THEN [ok |-> FALSE, why |-> "short body"]
            ELSE [ok |-> TRUE,
                  segs |-> [s \in 1..nseg |-> SegWords(b, SegStart(b, nseg, s - 1), U32(b, 4 + 4 * (s - 1)))],
                  used |-> HeaderBytes(nseg) + 8 * SumSizes(b, nseg, 0),
                  padzero |-> (nseg % 2 = 1) \/ (\A k \in 1..4 : b[4 + 4 * nseg + k] = 0)]
=============================================================================
