SPECIFICATION Spec
CONSTANTS
  Symbols <- MCSymbols
  MaxSteps = 6
INVARIANTS GrowthBound Vector
CHECK_DEADLOCK FALSE
