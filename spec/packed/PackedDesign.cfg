SPECIFICATION DSpec
CONSTANTS
  Bytes = {0, 7}
  MaxWords = 2
INVARIANTS Lossless CutsClassified
CHECK_DEADLOCK FALSE
