---- MODULE MCPacked ----
EXTENDS Packed
MCSymbols == { <<0>>, <<1>>, <<2>>, <<3>>, <<128>>, <<255>>, <<255, 1, 2, 3, 4, 5, 6, 7, 8>>, <<9, 9, 9, 9, 9, 9, 9, 9>>, <<9, 9, 9>> }
\* a second alphabet for the thorough tier: more tag shapes and a partial literal word
MCSymbols2 == MCSymbols \cup { <<127>>, <<254>>, <<85>>, <<9, 9, 9, 9, 9, 9, 9>>, <<0, 0>>, <<255, 0, 0, 0, 0, 0, 0, 0, 7>> }
====
