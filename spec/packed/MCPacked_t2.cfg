SPECIFICATION Spec
CONSTANTS
  Symbols <- MCSymbols2
  MaxSteps = 4
INVARIANTS GrowthBound Vector
CHECK_DEADLOCK FALSE
