---------------------------- MODULE PackedTrace ----------------------------
(* Trace validation for the Pack direction: each line of packtrace.ndjson   *)
(* holds a payload (run-length encoded words) and the bytes the real Pack   *)
(* produced for it.  TLC - the independent implementation of the packing    *)
(* spec - unpacks the bytes with the transducer of module Packed and must   *)
(* end in a complete state with exactly the payload as output.              *)
EXTENDS PackedCore, SequencesExt

Tr == ndJsonDeserialize("packtrace.ndjson")

VARIABLE l
TInit == l = 1
Decoded(i) == FoldLeft(Step, S0, Tr[i].packed)
Good(i) == LET s == Decoded(i) IN Complete(s) /\ s.out = Tr[i].payload
TNext == /\ l <= Len(Tr)
         /\ l' = l + 1
         /\ (Good(l) \/ PrintT(<<"PACKBAD", ToJson([i |-> l, id |-> Tr[l].id])>>))
TSpec == TInit /\ [][TNext]_l
AllConsumed == l = Len(Tr) + 1 => PrintT(<<"CONSUMED", ToJson([n |-> Len(Tr)])>>)
=============================================================================
