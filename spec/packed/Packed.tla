------------------------------ MODULE Packed ------------------------------
(* Generator of packed inputs: every string of symbols up to MaxSteps, with *)
(* the transducer state reached; each reachable state is one test vector.   *)
EXTENDS PackedCore

CONSTANTS Symbols,   \* set of byte sequences the generator may append in one step
          MaxSteps

\* ---- generator: all symbol strings up to MaxSteps ----
VARIABLES inp, st, steps
vars == <<inp, st, steps>>
Init == inp = <<>> /\ st = S0 /\ steps = 0
Next == steps < MaxSteps /\ \E sym \in Symbols : inp' = inp \o sym /\ st' = Run(st, sym) /\ steps' = steps + 1
Spec == Init /\ [][Next]_vars

\* the scheme lets output grow by one word per tag byte and by at most 255 words per count byte
GrowthBound == Words(st.out) <= 256 * Len(inp)
Vector == PrintT(<<"VECTOR", ToJson([inp |-> inp, out |-> st.out, complete |-> Complete(st), where |-> st.mode])>>)
=============================================================================
