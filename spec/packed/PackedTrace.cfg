SPECIFICATION TSpec
INVARIANT AllConsumed
CHECK_DEADLOCK FALSE
