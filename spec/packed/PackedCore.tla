---------------------------- MODULE PackedCore ----------------------------
(* The Cap'n Proto packing scheme (encoding spec, "Packing") as a          *)
(* byte-at-a-time transducer, written as a pure step function so that it   *)
(* can be (a) explored symbol by symbol to enumerate packed inputs and     *)
(* (b) run over a recorded byte string (trace validation of Pack output).  *)
(* Output is run-length encoded: a sequence of <<word, repeat>>.           *)
EXTENDS Integers, Sequences, FiniteSets, TLC, Json

Zero == <<0, 0, 0, 0, 0, 0, 0, 0>>
Bit(t, k) == (t \div (2 ^ k)) % 2
RECURSIVE NextSet(_, _)
NextSet(t, k) == IF k >= 8 THEN 8 ELSE IF Bit(t, k) = 1 THEN k ELSE NextSet(t, k + 1)

Emit(o, w, n) == IF n = 0 THEN o
                 ELSE IF Len(o) > 0 /\ o[Len(o)][1] = w THEN [o EXCEPT ![Len(o)] = <<w, o[Len(o)][2] + n>>]
                 ELSE Append(o, <<w, n>>)

S0 == [mode |-> "tag", tag |-> 0, bit |-> 0, word |-> Zero, litLeft |-> 0, litFill |-> 0, out |-> <<>>]

Step(s, b) ==
  CASE s.mode = "tag" ->
         IF b = 0 THEN [s EXCEPT !.out = Emit(s.out, Zero, 1), !.mode = "zcount", !.tag = 0]
         ELSE [s EXCEPT !.tag = b, !.bit = NextSet(b, 0), !.word = Zero, !.mode = "bytes"]
    [] s.mode = "bytes" ->
         LET w == [s.word EXCEPT ![s.bit + 1] = b]  nb == NextSet(s.tag, s.bit + 1) IN
         IF nb < 8 THEN [s EXCEPT !.word = w, !.bit = nb]
         ELSE [s EXCEPT !.out = Emit(s.out, w, 1), !.word = Zero, !.bit = 0,
                        !.mode = IF s.tag = 255 THEN "lcount" ELSE "tag"]
    [] s.mode = "zcount" -> [s EXCEPT !.out = Emit(s.out, Zero, b), !.mode = "tag"]
    [] s.mode = "lcount" -> [s EXCEPT !.litLeft = 8 * b, !.litFill = 0, !.word = Zero,
                                      !.mode = IF b = 0 THEN "tag" ELSE "lit"]
    [] s.mode = "lit" ->
         LET w == [s.word EXCEPT ![s.litFill + 1] = b] IN
         IF s.litFill = 7
         THEN [s EXCEPT !.out = Emit(s.out, w, 1), !.word = Zero, !.litFill = 0, !.litLeft = s.litLeft - 1,
                        !.mode = IF s.litLeft - 1 = 0 THEN "tag" ELSE "lit"]
         ELSE [s EXCEPT !.word = w, !.litFill = s.litFill + 1, !.litLeft = s.litLeft - 1]

RECURSIVE Run(_, _)
Run(s, bytes) == IF bytes = <<>> THEN s ELSE Run(Step(s, Head(bytes)), Tail(bytes))

Complete(s) == s.mode = "tag"            \* input may end here; anywhere else it is truncated
Words(o) == LET RECURSIVE Sm(_) Sm(i) == IF i = 0 THEN 0 ELSE o[i][2] + Sm(i - 1) IN Sm(Len(o))

=============================================================================
