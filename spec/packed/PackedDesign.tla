---------------------------- MODULE PackedDesign ----------------------------
(* Design-level check of the packing scheme itself: a specification-level   *)
(* packer (the relation "p is a packing of x" restricted to the greedy      *)
(* choices the spec text describes, plus every other legal choice of run    *)
(* lengths) composed with the transducer is the identity on word sequences. *)
EXTENDS PackedCore, SequencesExt

CONSTANTS Bytes, MaxWords      \* byte alphabet and payload length bound

TagOf(w) == LET RECURSIVE T(_) T(k) == IF k = 8 THEN 0 ELSE (IF w[k + 1] # 0 THEN 2 ^ k ELSE 0) + T(k + 1) IN T(0)
NonZero(w) == SelectSeq(w, LAMBDA b : b # 0)
ZeroBytes(w) == Cardinality({k \in 1..8 : w[k] = 0})
Flat(ws) == LET RECURSIVE F(_) F(i) == IF i > Len(ws) THEN <<>> ELSE ws[i] \o F(i + 1) IN F(1)

\* all packings of the word sequence ws (a set of byte strings): after a zero word any
\* number z of the following zero words may be folded into the count; after a 0xff word any
\* number n of following words may be copied literally.
RECURSIVE Packings(_)
Packings(ws) ==
  IF ws = <<>> THEN { <<>> }
  ELSE LET w == Head(ws)  rest == Tail(ws)  hd == <<TagOf(w)>> \o NonZero(w) IN
       IF TagOf(w) = 0 THEN
          LET RECURSIVE LeadZ(_) LeadZ(s) == IF s = <<>> \/ Head(s) # Zero THEN 0 ELSE 1 + LeadZ(Tail(s)) IN
          UNION { { hd \o <<z>> \o p : p \in Packings(SubSeq(rest, z + 1, Len(rest))) } : z \in 0..LeadZ(rest) }
       ELSE IF TagOf(w) = 255 THEN
          UNION { { hd \o <<n>> \o Flat(SubSeq(rest, 1, n)) \o p : p \in Packings(SubSeq(rest, n + 1, Len(rest))) } : n \in 0..Len(rest) }
       ELSE { hd \o p : p \in Packings(rest) }

RleOf(ws) == LET RECURSIVE R(_, _) R(acc, i) == IF i > Len(ws) THEN acc ELSE R(Emit(acc, ws[i], 1), i + 1) IN R(<<>>, 1)

VARIABLE x
DInit == x = <<>>
DNext == Len(x) < MaxWords /\ \E w \in [1..8 -> Bytes] : x' = Append(x, w)
DSpec == DInit /\ [][DNext]_x
\* every packing of every payload unpacks, completely, to the payload
Lossless == \A p \in Packings(x) : LET s == FoldLeft(Step, S0, p) IN Complete(s) /\ s.out = RleOf(x)
\* a packed string cut anywhere but at a tag boundary is Truncated; cut at a tag boundary it is Complete and
\* has produced no more words than the payload holds
CutsClassified == \A p \in Packings(x) : \A k \in 0..Len(p) :
   LET s == FoldLeft(Step, S0, SubSeq(p, 1, k)) IN Words(s.out) <= Len(x) /\ (k = Len(p) => Complete(s))
=============================================================================
