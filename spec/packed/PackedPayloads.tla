-------------------------- MODULE PackedPayloads --------------------------
(* Payload families around the limits of the packing scheme (run lengths   *)
(* 254..257 and 509..512 words, words with 0/1/2/7/8 zero bytes), given as *)
(* run-length encoded word sequences.  TLC prints them; the driver packs   *)
(* them with the real Pack and PackedTrace unpacks the result.             *)
EXTENDS Integers, Sequences, FiniteSets, TLC, Json

Zero  == <<0, 0, 0, 0, 0, 0, 0, 0>>
Full  == <<1, 2, 3, 4, 5, 6, 7, 8>>          \* no zero byte: tag 0xff
Full2 == <<9, 9, 9, 9, 9, 9, 9, 9>>
OneZ  == <<1, 2, 3, 0, 5, 6, 7, 8>>          \* one zero byte: may be carried inside a literal run
TwoZ  == <<1, 0, 3, 0, 5, 6, 7, 8>>          \* two zero bytes: ends a literal run
One   == <<0, 0, 0, 0, 0, 0, 0, 7>>          \* seven zero bytes
Lens  == {0, 1, 2, 253, 254, 255, 256, 257, 509, 510, 511, 512}
Words == {Zero, Full, Full2, OneZ, TwoZ, One}

Run1(w, n) == IF n = 0 THEN <<>> ELSE << <<w, n>> >>
Payloads ==
     { Run1(w, n) : w \in Words, n \in Lens }
  \cup { <<<<a, 1>>>> \o Run1(b, n) : a \in {Zero, Full, One}, b \in {Zero, Full2, OneZ, TwoZ}, n \in Lens \ {0} }
  \cup { <<<<a, 1>>>> \o Run1(b, n) \o <<<<c, 1>>>> : a \in {Zero, Full}, b \in {Zero, Full2, OneZ}, c \in {Full, One, TwoZ}, n \in {254, 255, 256, 510, 511} }
  \cup { <<<<Full, 1>>, <<OneZ, n>>, <<Full2, m>>, <<Zero, k>>>> : n \in {1, 254}, m \in {1, 255}, k \in {1, 256} }

Norm(p) == LET RECURSIVE N(_, _)
               N(acc, i) == IF i > Len(p) THEN acc
                            ELSE IF Len(acc) > 0 /\ acc[Len(acc)][1] = p[i][1]
                                 THEN N([acc EXCEPT ![Len(acc)] = <<p[i][1], acc[Len(acc)][2] + p[i][2]>>], i + 1)
                                 ELSE N(Append(acc, p[i]), i + 1)
           IN N(<<>>, 1)

VARIABLE done
Init == done = FALSE
Next == ~done /\ done' = TRUE /\ \A p \in {Norm(q) : q \in Payloads} : PrintT(<<"PAYLOAD", ToJson(p)>>)
Spec == Init /\ [][Next]_done
=============================================================================
