SPECIFICATION Spec
CONSTANTS
  Symbols <- MCSymbols
  MaxSteps = 5
INVARIANTS GrowthBound Vector
CHECK_DEADLOCK FALSE
