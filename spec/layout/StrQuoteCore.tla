---------------------------- MODULE StrQuoteCore ----------------------------
(* Cap'n Proto text-format string literals (C20).                             *)
(* A literal is a double quote, a body, a double quote.  In the body a byte   *)
(* stands for itself only if it is printable ASCII (0x20..0x7e) and is        *)
(* neither a double quote nor a backslash; everything else is written as an   *)
(* escape: \a \b \f \n \r \t \v \' \" \\ or \xHH.  Unquote is the inverse     *)
(* (the reader of the literal); a literal is well formed iff Unquote accepts  *)
(* it.  The implementation is free to choose among escape spellings.          *)
(*                                                                            *)
(* Design check (generator half): for every byte string s over class          *)
(* representatives, Unquote(SpecQuote(s)) = s.                                *)
(* Trace half: every (string, literal) pair recorded from the real code:      *)
(* the literal is well formed and Unquote(literal) = string.                  *)
EXTENDS Integers, Sequences, FiniteSets, TLC, Json

DQ == 34   BS == 92   SQ == 39
Hex(d) == IF d < 10 THEN 48 + d ELSE 87 + d                  \* '0'..'9', 'a'..'f'
HexVal(c) == IF c >= 48 /\ c <= 57 THEN c - 48 ELSE IF c >= 97 /\ c <= 102 THEN c - 87 ELSE IF c >= 65 /\ c <= 70 THEN c - 55 ELSE 0 - 1
Plain(b) == b >= 32 /\ b <= 126 /\ b # DQ /\ b # BS
Named == << <<7, 97>>, <<8, 98>>, <<12, 102>>, <<10, 110>>, <<13, 114>>, <<9, 116>>, <<11, 118>>, <<SQ, SQ>>, <<DQ, DQ>>, <<BS, BS>> >>
NameOf(b) == IF \E i \in 1..Len(Named) : Named[i][1] = b THEN (CHOOSE x \in {Named[i] : i \in 1..Len(Named)} : x[1] = b)[2] ELSE 0 - 1
ByteOf(c) == IF \E i \in 1..Len(Named) : Named[i][2] = c THEN (CHOOSE x \in {Named[i] : i \in 1..Len(Named)} : x[2] = c)[1] ELSE 0 - 1

\* the specification's own quoting (one of the admissible spellings)
RECURSIVE QuoteBody(_)
QuoteBody(s) == IF s = <<>> THEN <<>>
                ELSE LET b == Head(s) IN
                     (IF Plain(b) THEN <<b>>
                      ELSE IF NameOf(b) >= 0 /\ b # SQ THEN <<BS, NameOf(b)>>
                      ELSE <<BS, 120, Hex(b \div 16), Hex(b % 16)>>) \o QuoteBody(Tail(s))
SpecQuote(s) == <<DQ>> \o QuoteBody(s) \o <<DQ>>

\* reader: [ok |-> BOOLEAN, val |-> bytes]
RECURSIVE ReadBody(_, _, _)
ReadBody(l, i, acc) ==            \* l = literal, i = index of the next body byte, body ends at Len(l) - 1
  IF i > Len(l) - 1 THEN [ok |-> TRUE, val |-> acc]
  ELSE LET b == l[i] IN
       IF Plain(b) THEN ReadBody(l, i + 1, Append(acc, b))
       ELSE IF b # BS THEN [ok |-> FALSE, val |-> acc]                      \* raw quote, control or high byte
       ELSE IF i + 1 > Len(l) - 1 THEN [ok |-> FALSE, val |-> acc]          \* dangling backslash
       ELSE LET c == l[i + 1] IN
            IF c = 120 THEN                                                  \* \xHH
               (IF i + 3 > Len(l) - 1 \/ HexVal(l[i + 2]) < 0 \/ HexVal(l[i + 3]) < 0 THEN [ok |-> FALSE, val |-> acc]
                ELSE ReadBody(l, i + 4, Append(acc, 16 * HexVal(l[i + 2]) + HexVal(l[i + 3]))))
            ELSE IF ByteOf(c) >= 0 THEN ReadBody(l, i + 2, Append(acc, ByteOf(c)))
            ELSE [ok |-> FALSE, val |-> acc]
Unquote(l) == IF Len(l) < 2 \/ l[1] # DQ \/ l[Len(l)] # DQ THEN [ok |-> FALSE, val |-> <<>>] ELSE ReadBody(l, 2, <<>>)

\* ---- generator half ----
=============================================================================
