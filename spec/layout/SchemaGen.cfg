SPECIFICATION Spec
CONSTANTS
  Fillers = {"none", "bool", "uint8", "uint16", "uint32", "uint64", "text"}
  Kinds = {"bool", "int8", "int16", "int32", "int64", "uint8", "uint16", "uint32", "uint64", "float32", "float64", "enum", "void", "text", "data", "struct", "list", "anyptr"}
  Followers = {"bool", "uint64", "text"}
  Members = {"plain", "union", "group", "gunion", "union2"}
  GroupExtra = {0, 3}
INVARIANTS Consistent Emit
CHECK_DEADLOCK FALSE
