SPECIFICATION GSpec
CONSTANTS
  Reps = {97, 34, 92, 39, 10, 0, 127, 128, 255, 32}
  MaxLen = 3
INVARIANTS RoundTrip EmitString
CHECK_DEADLOCK FALSE
