----------------------------- MODULE SchemaGen -----------------------------
(* Generator of struct schemas for C15 / C19 / C20: every struct it emits is  *)
(* a consistent layout declaration (no two simultaneously active fields       *)
(* overlap, every field lies inside the declared sections).  capnpc-go takes  *)
(* offsets from the request, so any consistent layout is a legitimate input;  *)
(* the allocator below is the simple "next aligned slot" rule.                *)
(*                                                                            *)
(* A struct is: an optional filler field f0 (shifts alignment and offsets),   *)
(* the field under test f1 of every kind, default and union/group membership, *)
(* and a follower f2 (a neighbour that must not be touched).                  *)
(*  membership "plain"  : f1 directly in the struct                           *)
(*             "union"  : the struct has a union {alt :Void, f1}              *)
(*             "group"  : f1 inside a plain group g                           *)
(*             "gunion" : the struct has a union {alt :Void, g :group}; the   *)
(*                        group has its own union {galt :Void, f1}            *)
(*             "union2" : the struct has a union {alt, f1} whose two members  *)
(*                        have the same type and share one slot, with         *)
(*                        different defaults (a default belongs to a field,   *)
(*                        not to a slot)                                       *)
(* GroupExtra: number of further data fields (g2 :UInt8 = 77, g3 :Bool,       *)
(* g4 :UInt16) placed in the group behind f1 (groups with several fields,     *)
(* followed by more fields of the parent).                                    *)
(* dv is f1's discriminant value in its union (the Void takes the other one). *)
EXTENDS Integers, Sequences, FiniteSets, TLC, Json

CONSTANTS Fillers, Kinds, Followers, Members, GroupExtra

DataKinds == {"bool", "int8", "int16", "int32", "int64", "uint8", "uint16", "uint32", "uint64", "float32", "float64", "enum"}
PtrKinds == {"text", "data", "struct", "list", "anyptr"}
Bits(k) == CASE k = "bool" -> 1
             [] k \in {"int8", "uint8"} -> 8
             [] k \in {"int16", "uint16", "enum"} -> 16
             [] k \in {"int32", "uint32", "float32"} -> 32
             [] k \in {"int64", "uint64", "float64"} -> 64
             [] OTHER -> 0
\* non-zero default of each kind, as little-endian bytes (the bits XORed into the stored value)
NzDefault(k) == CASE k = "bool" -> <<1>>
                  [] k = "int8" -> <<253>>                       \* -3
                  [] k = "uint8" -> <<129>>
                  [] k = "int16" -> <<52, 237>>                  \* negative
                  [] k = "uint16" -> <<52, 18>>
                  [] k = "enum" -> <<2, 0>>
                  [] k = "int32" -> <<239, 190, 173, 222>>       \* negative
                  [] k = "uint32" -> <<120, 86, 52, 18>>
                  [] k = "float32" -> <<0, 0, 192, 63>>          \* 1.5
                  [] k = "int64" -> <<21, 205, 91, 7, 0, 0, 0, 128>>
                  [] k = "uint64" -> <<240, 222, 188, 154, 120, 86, 52, 18>>
                  [] k = "float64" -> <<0, 0, 0, 0, 0, 0, 4, 64>>  \* 2.5
                  [] k = "text" -> <<100, 102, 108, 116>>        \* "dflt"
                  [] k = "data" -> <<1, 2>>
                  [] k = "struct" -> <<129>>                     \* T(x = 129)
                  [] k = "list" -> <<52, 18>>                    \* [0x1234]
                  [] OTHER -> <<>>
\* a second non-zero default of each kind (for the other member of a "union2")
AltDefault(k) == CASE k = "bool" -> <<1>>
                   [] k \in {"int8", "uint8"} -> <<66>>
                   [] k \in {"int16", "uint16"} -> <<7, 3>>
                   [] k = "enum" -> <<1, 0>>
                   [] k \in {"int32", "uint32"} -> <<1, 2, 3, 4>>
                   [] k = "float32" -> <<0, 0, 32, 64>>          \* 2.5
                   [] k \in {"int64", "uint64"} -> <<8, 7, 6, 5, 4, 3, 2, 1>>
                   [] k = "float64" -> <<0, 0, 0, 0, 0, 0, 248, 63>>  \* 1.5
                   [] k = "text" -> <<97, 108, 116>>             \* "alt"
                   [] k = "data" -> <<9>>
                   [] k = "struct" -> <<17>>
                   [] k = "list" -> <<9, 0>>
                   [] OTHER -> <<>>
ZeroDefault(k) == [i \in 1..(IF Bits(k) = 1 THEN 1 ELSE Bits(k) \div 8) |-> 0]
HasNz(k) == k \in DataKinds \cup {"text", "data", "struct", "list"}
NoDisc == 65535

VARIABLES phase, fields, bitpos, ptrpos, dcount, doff, gdcount, gdoff, gdisc, member
vars == <<phase, fields, bitpos, ptrpos, dcount, doff, gdcount, gdoff, gdisc, member>>

Init == /\ phase = 0 /\ fields = <<>> /\ bitpos = 0 /\ ptrpos = 0
        /\ dcount = 0 /\ doff = 0 /\ gdcount = 0 /\ gdoff = 0 /\ gdisc = NoDisc /\ member = "plain"

\* place a field of kind k at the next aligned slot: <<offset in units of its size, new bitpos, new ptrpos>>
Place(k, bp, pp) == IF k \in PtrKinds THEN <<pp, bp, pp + 1>>
                    ELSE IF Bits(k) = 0 THEN <<0, bp, pp>>
                    ELSE LET b == Bits(k)  o == (bp + b - 1) \div b IN <<o, (o + 1) * b, pp>>
Fld(name, k, off, dflt, disc, grp) == [name |-> name, kind |-> k, off |-> off, dflt |-> dflt, disc |-> disc, grp |-> grp]

AddFiller == /\ phase = 0 /\ phase' = 1
             /\ \E k \in Fillers :
                  IF k = "none" THEN UNCHANGED <<fields, bitpos, ptrpos>>
                  ELSE LET p == Place(k, bitpos, ptrpos) IN
                       /\ fields' = Append(fields, Fld("f0", k, p[1], IF k \in DataKinds THEN ZeroDefault(k) ELSE <<>>, NoDisc, ""))
                       /\ bitpos' = p[2] /\ ptrpos' = p[3]
             /\ UNCHANGED <<dcount, doff, gdcount, gdoff, gdisc, member>>

AddTested ==
  /\ phase = 1 /\ phase' = 2
  /\ \E k \in Kinds, m \in Members, nz \in BOOLEAN, dv \in {0, 1}, gx \in GroupExtra :
       /\ (nz => HasNz(k))
       /\ (m \in {"plain", "group"} => dv = 0)
       /\ (k = "void" => m \in {"union", "gunion"})            \* a Void only has accessors as a union member
       /\ (m = "union2" => nz /\ HasNz(k))                      \* two members of one type with different non-zero defaults
       /\ (gx > 0 => m \in {"group", "gunion"})
       /\ member' = m
       /\ LET d1 == IF m \in {"union", "gunion", "union2"} THEN Place("uint16", bitpos, ptrpos) ELSE <<0, bitpos, ptrpos>>       \* struct union tag
              d2 == IF m = "gunion" THEN Place("uint16", d1[2], d1[3]) ELSE <<0, d1[2], d1[3]>>                       \* group union tag
              p == Place(k, d2[2], d2[3])
              dflt == IF nz THEN NzDefault(k) ELSE IF k \in DataKinds THEN ZeroDefault(k) ELSE <<>>
              g == IF m \in {"group", "gunion"} THEN "g" ELSE ""
              f1 == Fld("f1", k, p[1], dflt, IF m \in {"union", "gunion", "union2"} THEN dv ELSE NoDisc, g)
              \* further fields of the group
              x2 == Place("uint8", p[2], p[3])
              x3 == Place("bool", x2[2], x2[3])
              x4 == Place("uint16", x3[2], x3[3])
              extra == (IF gx >= 1 THEN <<Fld("g2", "uint8", x2[1], <<77>>, NoDisc, "g")>> ELSE <<>>)
                       \o (IF gx >= 2 THEN <<Fld("g3", "bool", x3[1], <<0>>, NoDisc, "g")>> ELSE <<>>)
                       \o (IF gx >= 3 THEN <<Fld("g4", "uint16", x4[1], <<0, 0>>, NoDisc, "g")>> ELSE <<>>)
              last == IF gx >= 3 THEN x4 ELSE IF gx = 2 THEN x3 ELSE IF gx = 1 THEN x2 ELSE p
          IN /\ bitpos' = last[2] /\ ptrpos' = last[3]
             /\ dcount' = (IF m \in {"union", "gunion", "union2"} THEN 2 ELSE 0) /\ doff' = d1[1]
             /\ gdcount' = (IF m = "gunion" THEN 2 ELSE 0) /\ gdoff' = d2[1]
             /\ gdisc' = (IF m = "gunion" THEN dv ELSE NoDisc)
             /\ fields' = fields \o
                   (IF m = "union" THEN <<Fld("alt", "void", 0, <<>>, 1 - dv, "")>>
                    ELSE IF m = "union2" THEN <<Fld("alt", k, p[1], AltDefault(k), 1 - dv, "")>>
                    ELSE IF m = "gunion" THEN <<Fld("alt", "void", 0, <<>>, 1 - dv, ""), Fld("galt", "void", 0, <<>>, 1 - dv, "g")>>
                    ELSE <<>>) \o <<f1>> \o extra

AddFollower == /\ phase = 2 /\ phase' = 3
               /\ \E k \in Followers :
                    LET p == Place(k, bitpos, ptrpos) IN
                    /\ fields' = Append(fields, Fld("f2", k, p[1], IF k \in DataKinds THEN ZeroDefault(k) ELSE <<>>, NoDisc, ""))
                    /\ bitpos' = p[2] /\ ptrpos' = p[3]
               /\ UNCHANGED <<dcount, doff, gdcount, gdoff, gdisc, member>>

Next == AddFiller \/ AddTested \/ AddFollower
Spec == Init /\ [][Next]_vars

\* ---- the declared layout is consistent (design check of the generator itself)
Extent(f) == IF f.kind \in DataKinds THEN {f.off * Bits(f.kind) + i : i \in 0..(Bits(f.kind) - 1)} ELSE {}
TagExtents == (IF dcount > 0 THEN {doff * 16 + i : i \in 0..15} ELSE {}) \cup (IF gdcount > 0 THEN {gdoff * 16 + i : i \in 0..15} ELSE {})
\* members of one union are never active together: they may share storage
SameUnion(f, g) == f.disc # NoDisc /\ g.disc # NoDisc /\ f.grp = g.grp /\ f.disc # g.disc
Consistent ==
  /\ \A i, j \in 1..Len(fields) : (i # j /\ ~SameUnion(fields[i], fields[j])) => Extent(fields[i]) \cap Extent(fields[j]) = {}
  /\ \A i \in 1..Len(fields) : Extent(fields[i]) \cap TagExtents = {}
  /\ \A i \in 1..Len(fields) : \A x \in Extent(fields[i]) : x < bitpos
  /\ \A i, j \in 1..Len(fields) : (i # j /\ fields[i].kind \in PtrKinds /\ fields[j].kind \in PtrKinds /\ ~SameUnion(fields[i], fields[j])) => fields[i].off # fields[j].off
  /\ \A i \in 1..Len(fields) : fields[i].kind \in PtrKinds => fields[i].off < ptrpos

Emit == phase = 3 => PrintT(<<"STRUCT", ToJson([fields |-> fields, dataWords |-> (bitpos + 63) \div 64, ptrs |-> ptrpos,
                                                dcount |-> dcount, doff |-> doff, gdcount |-> gdcount, gdoff |-> gdoff, gdisc |-> gdisc, member |-> member])>>)
=============================================================================
