----------------------------- MODULE SchemaGen -----------------------------
(* Generator of struct schemas for C15 / C19 / C20: every struct it emits is  *)
(* a consistent layout declaration (no two simultaneously active fields       *)
(* overlap, every field lies inside the declared sections).  capnpc-go takes  *)
(* offsets from the request, so any consistent layout is a legitimate input;  *)
(* the allocator below is the simple "next aligned slot" rule.                *)
(*                                                                            *)
(* A struct is: an optional filler field f0 (shifts alignment and offsets),   *)
(* the field under test f1 of every kind, default and union/group membership, *)
(* and a follower f2 (a neighbour that must not be touched).                  *)
(*  membership "plain"  : f1 directly in the struct                           *)
(*             "union"  : the struct has a union {alt :Void, f1}              *)
(*             "group"  : f1 inside a plain group g                           *)
(*             "gunion" : the struct has a union {alt :Void, g :group}; the   *)
(*                        group has its own union {galt :Void, f1}            *)
(* dv is f1's discriminant value in its union (the Void takes the other one). *)
EXTENDS Integers, Sequences, FiniteSets, TLC, Json

CONSTANTS Fillers, Kinds, Followers, Members

DataKinds == {"bool", "int8", "int16", "int32", "int64", "uint8", "uint16", "uint32", "uint64", "float32", "float64", "enum"}
PtrKinds == {"text", "data", "struct", "list", "anyptr"}
Bits(k) == CASE k = "bool" -> 1
             [] k \in {"int8", "uint8"} -> 8
             [] k \in {"int16", "uint16", "enum"} -> 16
             [] k \in {"int32", "uint32", "float32"} -> 32
             [] k \in {"int64", "uint64", "float64"} -> 64
             [] OTHER -> 0
\* non-zero default of each kind, as little-endian bytes (the bits XORed into the stored value)
NzDefault(k) == CASE k = "bool" -> <<1>>
                  [] k = "int8" -> <<253>>                       \* -3
                  [] k = "uint8" -> <<129>>
                  [] k = "int16" -> <<52, 237>>                  \* negative
                  [] k = "uint16" -> <<52, 18>>
                  [] k = "enum" -> <<2, 0>>
                  [] k = "int32" -> <<239, 190, 173, 222>>       \* negative
                  [] k = "uint32" -> <<120, 86, 52, 18>>
                  [] k = "float32" -> <<0, 0, 192, 63>>          \* 1.5
                  [] k = "int64" -> <<21, 205, 91, 7, 0, 0, 0, 128>>
                  [] k = "uint64" -> <<240, 222, 188, 154, 120, 86, 52, 18>>
                  [] k = "float64" -> <<0, 0, 0, 0, 0, 0, 4, 64>>  \* 2.5
                  [] k = "text" -> <<100, 102, 108, 116>>        \* "dflt"
                  [] k = "data" -> <<1, 2>>
                  [] OTHER -> <<>>
ZeroDefault(k) == [i \in 1..(IF Bits(k) = 1 THEN 1 ELSE Bits(k) \div 8) |-> 0]
HasNz(k) == k \in DataKinds \cup {"text", "data"}
NoDisc == 65535

VARIABLES phase, fields, bitpos, ptrpos, dcount, doff, gdcount, gdoff, gdisc, member
vars == <<phase, fields, bitpos, ptrpos, dcount, doff, gdcount, gdoff, gdisc, member>>

Init == /\ phase = 0 /\ fields = <<>> /\ bitpos = 0 /\ ptrpos = 0
        /\ dcount = 0 /\ doff = 0 /\ gdcount = 0 /\ gdoff = 0 /\ gdisc = NoDisc /\ member = "plain"

\* place a field of kind k at the next aligned slot: <<offset in units of its size, new bitpos, new ptrpos>>
Place(k, bp, pp) == IF k \in PtrKinds THEN <<pp, bp, pp + 1>>
                    ELSE IF Bits(k) = 0 THEN <<0, bp, pp>>
                    ELSE LET b == Bits(k)  o == (bp + b - 1) \div b IN <<o, (o + 1) * b, pp>>
Fld(name, k, off, dflt, disc, grp) == [name |-> name, kind |-> k, off |-> off, dflt |-> dflt, disc |-> disc, grp |-> grp]

AddFiller == /\ phase = 0 /\ phase' = 1
             /\ \E k \in Fillers :
                  IF k = "none" THEN UNCHANGED <<fields, bitpos, ptrpos>>
                  ELSE LET p == Place(k, bitpos, ptrpos) IN
                       /\ fields' = Append(fields, Fld("f0", k, p[1], IF k \in DataKinds THEN ZeroDefault(k) ELSE <<>>, NoDisc, ""))
                       /\ bitpos' = p[2] /\ ptrpos' = p[3]
             /\ UNCHANGED <<dcount, doff, gdcount, gdoff, gdisc, member>>

AddTested ==
  /\ phase = 1 /\ phase' = 2
  /\ \E k \in Kinds, m \in Members, nz \in BOOLEAN, dv \in {0, 1} :
       /\ (nz => HasNz(k))
       /\ (m \in {"plain", "group"} => dv = 0)
       /\ (k = "void" => m \in {"union", "gunion"})            \* a Void only has accessors as a union member
       /\ member' = m
       /\ LET d1 == IF m \in {"union", "gunion"} THEN Place("uint16", bitpos, ptrpos) ELSE <<0, bitpos, ptrpos>>       \* struct union tag
              d2 == IF m = "gunion" THEN Place("uint16", d1[2], d1[3]) ELSE <<0, d1[2], d1[3]>>                       \* group union tag
              p == Place(k, d2[2], d2[3])
              dflt == IF nz THEN NzDefault(k) ELSE IF k \in DataKinds THEN ZeroDefault(k) ELSE <<>>
              g == IF m \in {"group", "gunion"} THEN "g" ELSE ""
              f1 == Fld("f1", k, p[1], dflt, IF m \in {"union", "gunion"} THEN dv ELSE NoDisc, g)
          IN /\ bitpos' = p[2] /\ ptrpos' = p[3]
             /\ dcount' = (IF m \in {"union", "gunion"} THEN 2 ELSE 0) /\ doff' = d1[1]
             /\ gdcount' = (IF m = "gunion" THEN 2 ELSE 0) /\ gdoff' = d2[1]
             /\ gdisc' = (IF m = "gunion" THEN dv ELSE NoDisc)
             /\ fields' = fields \o
                   (IF m = "union" THEN <<Fld("alt", "void", 0, <<>>, 1 - dv, "")>>
                    ELSE IF m = "gunion" THEN <<Fld("alt", "void", 0, <<>>, 1 - dv, ""), Fld("galt", "void", 0, <<>>, 1 - dv, "g")>>
                    ELSE <<>>) \o <<f1>>

AddFollower == /\ phase = 2 /\ phase' = 3
               /\ \E k \in Followers :
                    LET p == Place(k, bitpos, ptrpos) IN
                    /\ fields' = Append(fields, Fld("f2", k, p[1], IF k \in DataKinds THEN ZeroDefault(k) ELSE <<>>, NoDisc, ""))
                    /\ bitpos' = p[2] /\ ptrpos' = p[3]
               /\ UNCHANGED <<dcount, doff, gdcount, gdoff, gdisc, member>>

Next == AddFiller \/ AddTested \/ AddFollower
Spec == Init /\ [][Next]_vars

\* ---- the declared layout is consistent (design check of the generator itself)
Extent(f) == IF f.kind \in DataKinds THEN {f.off * Bits(f.kind) + i : i \in 0..(Bits(f.kind) - 1)} ELSE {}
TagExtents == (IF dcount > 0 THEN {doff * 16 + i : i \in 0..15} ELSE {}) \cup (IF gdcount > 0 THEN {gdoff * 16 + i : i \in 0..15} ELSE {})
Consistent ==
  /\ \A i, j \in 1..Len(fields) : i # j => Extent(fields[i]) \cap Extent(fields[j]) = {}
  /\ \A i \in 1..Len(fields) : Extent(fields[i]) \cap TagExtents = {}
  /\ \A i \in 1..Len(fields) : \A x \in Extent(fields[i]) : x < bitpos
  /\ \A i, j \in 1..Len(fields) : (i # j /\ fields[i].kind \in PtrKinds /\ fields[j].kind \in PtrKinds) => fields[i].off # fields[j].off
  /\ \A i \in 1..Len(fields) : fields[i].kind \in PtrKinds => fields[i].off < ptrpos

Emit == phase = 3 => PrintT(<<"STRUCT", ToJson([fields |-> fields, dataWords |-> (bitpos + 63) \div 64, ptrs |-> ptrpos,
                                                dcount |-> dcount, doff |-> doff, gdcount |-> gdcount, gdoff |-> gdoff, gdisc |-> gdisc, member |-> member])>>)
=============================================================================
