------------------------------- MODULE Layout -------------------------------
(* What a schema's field descriptor means on a struct's data section (C15,   *)
(* C19): a field of `bits` bits lives at bit offset off * bits; the stored    *)
(* bits are the value XOR the field's default; writing a member of a union    *)
(* also writes the 16-bit discriminant at disc.off * 16 bits; nothing else    *)
(* changes.  Reading beyond the data section yields the default.              *)
(*                                                                            *)
(* Trace specification over layouttrace.ndjson:                               *)
(*  {"k":"set", who, type, field, bits, off, dflt:[bytes], hasdisc, doff, dval,*)
(*   before:[data bytes], val:[bytes], after:[data bytes]}                    *)
(*       after must equal SetField(before, descriptor, val)                   *)
(*  {"k":"get", ..., before:[data bytes], val:[bytes returned by the getter]} *)
(*       val must equal GetField(before, descriptor)                          *)
(*  {"k":"which", ..., before:[data], dval: discriminant the code reports}    *)
(*  {"k":"pset"/"has"/"size"/...}  pointer slots, Has, allocation sizes; and  *)
(*  harness-level comparisons (round trips) reported as ok flags              *)
(* `who` names the code under test: "gen" (generated accessors), "pogs-insert"*)
(* / "pogs-extract" (struct mapping).                                         *)
EXTENDS Integers, Sequences, FiniteSets, TLC, Json, Bitwise

Tr == ndJsonDeserialize("layouttrace.ndjson")

Xor8(a, b) == a ^^ b
\* bytes of a field value: sequence of bits \div 8 bytes (little endian); a bool is <<0>> or <<1>>
ByteAt(d, i) == IF i + 1 <= Len(d) THEN d[i + 1] ELSE 0
SetByte(d, i, b) == IF i + 1 <= Len(d) THEN [d EXCEPT ![i + 1] = b] ELSE d
RECURSIVE WriteBytes(_, _, _)
WriteBytes(d, at, bs) == IF bs = <<>> THEN d ELSE WriteBytes(SetByte(d, at, Head(bs)), at + 1, Tail(bs))

\* stored representation of value v for a field with default dflt
Stored(v, dflt) == [i \in 1..Len(v) |-> Xor8(v[i], dflt[i])]

SetField(d, bits, off, dflt, hasdisc, doff, dval, v) ==
  LET d1 == IF bits = 1
            THEN LET byte == off \div 8  bit == off % 8
                     old == ByteAt(d, byte)
                     want == Xor8(v[1], dflt[1])
                     cleared == old - ((old \div (2 ^ bit)) % 2) * (2 ^ bit)
                 IN SetByte(d, byte, cleared + want * (2 ^ bit))
            ELSE WriteBytes(d, off * (bits \div 8), Stored(v, dflt))
  IN IF hasdisc THEN WriteBytes(d1, 2 * doff, <<dval % 256, dval \div 256>>) ELSE d1

GetField(d, bits, off, dflt) ==
  IF bits = 1
  THEN LET byte == off \div 8  bit == off % 8 IN <<Xor8((ByteAt(d, byte) \div (2 ^ bit)) % 2, dflt[1])>>
  ELSE [i \in 1..(bits \div 8) |-> Xor8(ByteAt(d, off * (bits \div 8) + i - 1), dflt[i])]

\* discriminants of the enclosing union-member groups (pogs writes them along with the field): <<doff1, dval1, doff2, dval2, ...>>
RECURSIVE Acts(_, _)
Acts(d, a) == IF a = <<>> THEN d ELSE Acts(WriteBytes(d, 2 * a[1], <<a[2] % 256, a[2] \div 256>>), Tail(Tail(a)))

VARIABLE l
Init == l = 1
Bad(what) == PrintT(<<"LAYOUTBAD", ToJson([line |-> l, what |-> what])>>)
Step == /\ l <= Len(Tr) /\ l' = l + 1
        /\ LET e == Tr[l] IN
           CASE e.k = "set" ->
                  /\ (e.after = Acts(SetField(e.before, e.bits, e.off, e.dflt, e.hasdisc, e.doff, e.dval, e.val), e.acts)) \/ Bad("setter wrote other bytes than the schema assigns")
                  /\ (e.pafter = e.pbefore) \/ Bad("data setter changed the pointer section")
             [] e.k = "get" ->
                  (e.val = GetField(e.before, e.bits, e.off, e.dflt)) \/ Bad("getter returned another value than the schema assigns")
             [] e.k = "pset" ->      \* New<F> / Set<F> of a pointer field: slot off becomes non-null, the discriminant is written, nothing else
                  /\ (e.after = SetField(e.before, 0, 0, <<>>, e.hasdisc, e.doff, e.dval, <<>>)) \/ Bad("pointer setter changed the data section beyond the discriminant")
                  /\ (/\ Len(e.pafter) = Len(e.pbefore) /\ e.off + 1 <= Len(e.pafter)
                      /\ e.pafter[e.off + 1] # 0
                      /\ \A j \in 1..Len(e.pafter) : j # e.off + 1 => e.pafter[j] = e.pbefore[j]) \/ Bad("pointer setter wrote another slot than the schema assigns")
             [] e.k = "has" ->
                  (e.res = (e.tagok /\ e.off + 1 <= Len(e.pbefore) /\ e.pbefore[e.off + 1] # 0)) \/ Bad("Has reads another pointer slot than the schema assigns")
             [] e.k = "pval" ->      \* Text / Data: a null slot reads as the field's default, a stored value (also the empty one) as itself
                  (e.got = (IF e.isnull THEN e.dflt ELSE e.val)) \/ Bad("Text/Data field does not read back as the stored value, or as the default when null")
             [] e.k = "pdef" ->      \* struct / list fields: a null slot reads as this field's own default (got, dflt: summaries of the values)
                  (e.got = e.dflt) \/ Bad("struct / list field with a null slot does not read as the field's default")
             [] e.k = "size" ->      \* a = data bytes, b = pointers of a freshly allocated struct; off, bits = what the schema node says
                  (e.a = e.off /\ e.b = e.bits) \/ Bad("allocated struct size differs from the schema node")
             [] e.k \in {"roundtrip", "panic", "error", "missing-accessor", "readback", "inactive-read", "name", "checktag"} ->
                  e.ok \/ Bad(e.k)
             [] e.k = "which" ->
                  (e.dval = ByteAt(e.before, 2 * e.doff) + 256 * ByteAt(e.before, 2 * e.doff + 1)) \/ Bad("discriminant read from the wrong place")
Spec == Init /\ [][Step]_l
Consumed == l = Len(Tr) + 1 => PrintT(<<"CONSUMED", ToJson([n |-> Len(Tr)])>>)
=============================================================================
