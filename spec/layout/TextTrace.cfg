SPECIFICATION TSpec
INVARIANT Consumed
CHECK_DEADLOCK FALSE
