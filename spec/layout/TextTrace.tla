------------------------------ MODULE TextTrace ------------------------------
(* Trace specification for text rendering (C20); lines of texttrace.ndjson:   *)
(*  {"k":"lit", "s":[bytes], "lit":[bytes]}      a Text/Data value and the literal the real code produced for it *)
(*  {"k":"field", "vid":v, "path":p, "kind":c, "tok":[bytes], "acc":[bytes]}                                      *)
(*        a field of a rendered struct: the token shown in the text and the value the generated accessor returns, *)
(*        both as bytes (numbers in decimal, booleans true/false, enumerant names; strings: tok is the literal)    *)
(*  {"k":"render", "vid":v, "n":prior encodes on this encoder, "text":[bytes]}                                    *)
(*        the same value rendered again: the text must not depend on the encoder's history                        *)
EXTENDS StrQuoteCore

Tr == ndJsonDeserialize("texttrace.ndjson")
VARIABLES l, first       \* first[vid] = text of the first rendering seen
tvars == <<l, first>>
TInit == l = 1 /\ first = <<>>
Lookup(f, k) == IF \E i \in 1..Len(f) : f[i][1] = k THEN (CHOOSE x \in {f[i] : i \in 1..Len(f)} : x[1] = k)[2] ELSE <<0 - 1>>
Bad(what) == PrintT(<<"TEXTBAD", ToJson([line |-> l, what |-> what])>>)
Step == /\ l <= Len(Tr) /\ l' = l + 1
        /\ LET e == Tr[l] IN
           CASE e.k = "lit" ->
                  /\ first' = first
                  /\ LET u == Unquote(e.lit) IN
                     (u.ok \/ Bad("literal is not well formed")) /\ (~u.ok \/ u.val = e.s \/ Bad("literal does not denote the value"))
             [] e.k = "field" ->
                  /\ first' = first
                  /\ IF e.kind = "string" THEN LET u == Unquote(e.tok) IN (u.ok /\ u.val = e.acc) \/ Bad("string field differs from the accessor")
                     ELSE e.tok = e.acc \/ Bad("field value differs from the accessor")
             [] e.k = "render" ->
                  IF Lookup(first, e.vid) = <<0 - 1>> THEN first' = Append(first, <<e.vid, e.text>>)
                  ELSE first' = first /\ (Lookup(first, e.vid) = e.text \/ Bad("text depends on the encoder's history"))
TSpec == TInit /\ [][Step]_tvars
Consumed == l = Len(Tr) + 1 => PrintT(<<"CONSUMED", ToJson([n |-> Len(Tr)])>>)
=============================================================================
