------------------------------ MODULE TextTrace ------------------------------
(* Trace specification for text rendering (C20); lines of texttrace.ndjson:   *)
(*  {"k":"lit", "s":[bytes], "lit":[bytes]}      a Text/Data value and the literal the real code produced for it *)
(*  {"k":"field", "vid":v, "path":p, "kind":c, "tok":[bytes], "acc":[bytes]}                                      *)
(*        a field of a rendered struct: the token shown in the text and the value the generated accessor returns, *)
(*        both as bytes (numbers in decimal, booleans true/false, enumerant names; strings: tok is the literal)    *)
(*  {"k":"render", "vid":v, "n":prior encodes on this encoder, "text":[bytes]}                                    *)
(*        the same value rendered again: the text must not depend on the encoder's history                        *)
EXTENDS StrQuoteCore

Tr == ndJsonDeserialize("texttrace.ndjson")
\* words of the text format: identifiers (true, false, void, inf, nan, enumerants) and decimal numbers
Digit(c) == c >= 48 /\ c <= 57
Alpha(c) == (c >= 65 /\ c <= 90) \/ (c >= 97 /\ c <= 122) \/ c = 95
IdentOK(w) == Len(w) > 0 /\ Alpha(w[1]) /\ \A i \in 1..Len(w) : Alpha(w[i]) \/ Digit(w[i])
RECURSIVE Digits(_, _)
Digits(w, i) == IF i <= Len(w) /\ Digit(w[i]) THEN Digits(w, i + 1) ELSE i       \* index after the run of digits starting at i
NumberOK(w) ==
  LET a == IF Len(w) > 0 /\ w[1] = 45 THEN 2 ELSE 1            \* optional '-'
      b == Digits(w, a)                                        \* integer part
      c == IF b <= Len(w) /\ w[b] = 46 THEN Digits(w, b + 1) ELSE b   \* optional fraction
      fracOK == ~(b <= Len(w) /\ w[b] = 46) \/ c > b + 1
      d == IF c <= Len(w) /\ w[c] \in {101, 69} THEN (IF c + 1 <= Len(w) /\ w[c + 1] \in {43, 45} THEN c + 2 ELSE c + 1) ELSE c
      e == IF d > c THEN Digits(w, d) ELSE c
      expOK == d = c \/ e > d
  IN b > a /\ fracOK /\ expOK /\ e = Len(w) + 1
WordOK(w) == IdentOK(w) \/ NumberOK(w) \/ w = <<45, 105, 110, 102>>        \* "-inf"

VARIABLES l, first,      \* first[vid] = text of the first rendering seen (probe values that are rendered again much later)
          prev         \* the latest rendering of a value whose renderings are adjacent in the trace (keep = FALSE): <<vid, text>>
tvars == <<l, first, prev>>
TInit == l = 1 /\ first = <<>> /\ prev = <<"", <<>>>>
Lookup(f, k) == IF \E i \in 1..Len(f) : f[i][1] = k THEN (CHOOSE x \in {f[i] : i \in 1..Len(f)} : x[1] = k)[2] ELSE <<0 - 1>>
Bad(what) == PrintT(<<"TEXTBAD", ToJson([line |-> l, what |-> what])>>)
Step == /\ l <= Len(Tr) /\ l' = l + 1
        /\ LET e == Tr[l] IN
           CASE e.k = "lit" ->
                  /\ first' = first /\ prev' = prev
                  /\ LET u == Unquote(e.lit) IN
                     (u.ok \/ Bad("literal is not well formed")) /\ (~u.ok \/ u.val = e.s \/ Bad("literal does not denote the value"))
             [] e.k = "field" ->
                  /\ first' = first /\ prev' = prev
                  /\ IF e.kind = "string" THEN LET u == Unquote(e.tok) IN (u.ok /\ u.val = e.acc) \/ Bad("string field differs from the accessor")
                     ELSE IF e.kind = "float" THEN      \* tokp = the value the token denotes by the grammar of the format, acc = the accessor's, both as bit patterns
                          /\ (WordOK(e.tok) \/ Bad("field value is not a well-formed word of the text format"))
                          /\ (e.tokp = e.acc \/ Bad("float field does not denote the accessor's value"))
                     ELSE /\ (WordOK(e.tok) \/ Bad("field value is not a well-formed word of the text format"))
                          /\ (e.tok = e.acc \/ Bad("field value differs from the accessor"))
             [] e.k = "render" /\ e.keep ->
                  /\ prev' = prev
                  /\ IF Lookup(first, e.vid) = <<0 - 1>> THEN first' = Append(first, <<e.vid, e.text>>)
                     ELSE first' = first /\ (Lookup(first, e.vid) = e.text \/ Bad("text depends on the encoder's history"))
             [] e.k = "render" /\ ~e.keep ->
                  /\ first' = first
                  /\ IF prev[1] = e.vid THEN prev' = prev /\ (prev[2] = e.text \/ Bad("text depends on the encoder's history"))
                     ELSE prev' = <<e.vid, e.text>>
TSpec == TInit /\ [][Step]_tvars
Consumed == l = Len(Tr) + 1 => PrintT(<<"CONSUMED", ToJson([n |-> Len(Tr)])>>)
=============================================================================
