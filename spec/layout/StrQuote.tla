------------------------------ MODULE StrQuote ------------------------------
(* Design check and generator for the string literals of the text format:     *)
(* the operators are in StrQuoteCore (shared with the trace specification).    *)
EXTENDS StrQuoteCore

CONSTANTS Reps, MaxLen
VARIABLE s
GInit == s = <<>>
GNext == Len(s) < MaxLen /\ \E b \in Reps : s' = Append(s, b)
GSpec == GInit /\ [][GNext]_s
RoundTrip == LET u == Unquote(SpecQuote(s)) IN u.ok /\ u.val = s
EmitString == PrintT(<<"STR", ToJson(s)>>)
=============================================================================
