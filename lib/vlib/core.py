"""Shared plumbing for all property checks.

A property module (lib/props/cXX.py) exposes

    LEVEL  = "model_checking" | ...
    def run(ctx) -> None

and reports through ctx:  ctx.violation(...), ctx.cover(...), ctx.sample(...),
ctx.note(...).  core.main() turns that into the exit code, VIOLATION /
KNOWN-FINDING lines, replay files and the evidence JSON.

Exit codes: 0 held (possibly KNOWN-FINDING lines), 1 violation, 2 inconclusive
(infrastructure: harness build failure, TLC crash, spec bug, timeout).
"""
import json
import os
import shutil
import subprocess
import sys
import tempfile
import time
import traceback

VERIF = os.path.dirname(os.path.dirname(os.path.dirname(os.path.abspath(__file__))))
REPO = os.environ.get("REPO", "/repo")
GOENV = {
    "GOFLAGS": "-mod=mod",
    "GOPROXY": "off",
    "GOSUMDB": "off",
    "GOTOOLCHAIN": "local",
}


class Inconclusive(Exception):
    """Infrastructure failure: never a verdict about the code."""


class Ctx:
    def __init__(self, pid, tier, seed, level, replay=None):
        self.pid = pid
        self.tier = tier
        self.seed = seed
        self.level = level
        self.replay = replay
        self.repo = REPO
        self.t0 = time.time()
        self.work = tempfile.mkdtemp(prefix="verif-%s-" % pid, dir=os.environ.get("VERIF_TMP", "/tmp"))
        self.violations = []   # dicts: sig, what, replay(obj)
        self.coverage = {}
        self.samples = []
        self.assumptions = []
        self.notes = []
        self.drift = []
        self.quick = tier == "quick"

    # ---- reporting -------------------------------------------------------
    def violation(self, sig, what, replay_obj):
        """sig: stable signature used to match known findings (class of failing
        input/history); what: human text; replay_obj: JSON-able reproduction."""
        self.violations.append({"sig": sig, "what": what, "replay": replay_obj})

    def cover(self, **kw):
        for k, v in kw.items():
            if isinstance(v, int) and isinstance(self.coverage.get(k), int) and k not in ("exhaustive",):
                self.coverage[k] += v
            else:
                self.coverage[k] = v

    def sample(self, obj, limit=6):
        if len(self.samples) < limit:
            self.samples.append(obj)

    def note(self, s):
        self.notes.append(s)
        print("note: " + s, flush=True)

    def assume(self, s):
        if s not in self.assumptions:
            self.assumptions.append(s)

    def log(self, s):
        print("[%s %6.1fs] %s" % (self.pid, time.time() - self.t0, s), flush=True)

    def path(self, *p):
        return os.path.join(self.work, *p)

    def cleanup(self):
        if os.environ.get("VERIF_KEEP"):
            print("kept work dir", self.work)
            return
        shutil.rmtree(self.work, ignore_errors=True)


def load_known():
    p = os.path.join(VERIF, "known_findings.json")
    if not os.path.exists(p):
        return {"findings": [], "fixed": []}
    with open(p) as f:
        return json.load(f)


def sh(cmd, cwd=None, env=None, timeout=None, inp=None, check=False):
    e = dict(os.environ)
    e.update(GOENV)
    if env:
        e.update(env)
    try:
        r = subprocess.run(cmd, cwd=cwd, env=e, timeout=timeout, input=inp,
                           stdout=subprocess.PIPE, stderr=subprocess.PIPE, text=True)
    except subprocess.TimeoutExpired as ex:
        raise Inconclusive("timeout after %ss: %s" % (timeout, cmd if isinstance(cmd, str) else " ".join(cmd)))
    if check and r.returncode != 0:
        raise Inconclusive("command failed (%d): %s\n%s\n%s" % (r.returncode, cmd, r.stdout[-4000:], r.stderr[-4000:]))
    return r


def write_evidence(ctx, nviol, wall):
    cov = dict(ctx.coverage)
    cov["samples"] = ctx.samples if ctx.samples else [{"note": "no sample recorded"}]
    if ctx.notes:
        cov["notes"] = ctx.notes
    if ctx.drift:
        cov["drift"] = ctx.drift[:20]
    ev = {
        "property_id": ctx.pid,
        "tier": ctx.tier,
        "seed": ctx.seed,
        "level": ctx.level,
        "coverage": cov,
        "assumptions": ctx.assumptions,
        "wall_s": round(wall, 2),
        "violations": nviol,
    }
    # evidence describes /repo; a development run against another tree (REPO=..., mutants and seeded changes) or with a
    # restricted script family must not overwrite it
    evdir = os.path.join(VERIF, "evidence")
    if os.path.realpath(REPO) != "/repo" or os.environ.get("VERIF_RPC_ONLY") or os.environ.get("VERIF_NO_EVIDENCE"):
        evdir = os.path.join(os.environ.get("VERIF_TMP", "/tmp"), "verif-evidence-other-tree")
    os.makedirs(evdir, exist_ok=True)
    p = os.path.join(evdir, ctx.pid + ".json")
    tmp = p + ".tmp%d" % os.getpid()
    with open(tmp, "w") as f:
        json.dump(ev, f, indent=1, sort_keys=True)
        f.write("\n")
    os.replace(tmp, p)


def main(pid, mod, argv):
    tier = os.environ.get("VERIF_TIER", "quick")
    replay = None
    i = 0
    while i < len(argv):
        if argv[i] == "--tier":
            tier = argv[i + 1]
            i += 2
        elif argv[i] == "--replay":
            replay = argv[i + 1]
            i += 2
        else:
            print("unknown argument", argv[i])
            return 2
    if tier not in ("quick", "thorough"):
        print("bad tier", tier)
        return 2
    try:
        seed = int(os.environ.get("VERIF_SEED", "1"))
    except ValueError:
        seed = 1
    ctx = Ctx(pid, tier, seed, mod.LEVEL, replay)
    rc = 2
    try:
        if replay:
            with open(replay) as f:
                robj = json.load(f)
            mod.replay(ctx, robj)
        else:
            mod.run(ctx)
        known = load_known()
        ksigs = {}
        for k in known.get("findings", []):
            if k["property"] == pid:
                ksigs[k["signature"]] = k
        new = []
        seen_known = {}
        for v in ctx.violations:
            if v["sig"] in ksigs:
                seen_known.setdefault(v["sig"], v)
            else:
                new.append(v)
        for sig, v in sorted(seen_known.items()):
            print("KNOWN-FINDING: property=%s %s [%s]" % (pid, ksigs[sig]["what"], sig), flush=True)
        os.makedirs(os.path.join(VERIF, "replay"), exist_ok=True)
        shown = set()
        n = 0
        for v in new:
            if v["sig"] in shown:
                continue
            shown.add(v["sig"])
            n += 1
            rp = os.path.join(VERIF, "replay", "%s-%s-%d.json" % (pid, tier, n))
            with open(rp, "w") as f:
                json.dump({"property": pid, "sig": v["sig"], "what": v["what"], "seed": seed,
                           "tier": tier, "case": v["replay"]}, f, indent=1)
            print("violation detail: %s" % v["what"][:2000], flush=True)
            print("VIOLATION property=%s replay=%s" % (pid, rp), flush=True)
            if n >= 10:
                break
        ctx.cover(known_findings_seen=len(seen_known))
        if not replay:
            write_evidence(ctx, len(new), time.time() - ctx.t0)
        rc = 1 if new else 0
    except Inconclusive as ex:
        print("INCONCLUSIVE property=%s: %s" % (pid, ex), flush=True)
        rc = 2
    except Exception:
        traceback.print_exc()
        print("INCONCLUSIVE property=%s: internal error in checker" % pid, flush=True)
        rc = 2
    finally:
        ctx.cleanup()
    print("[%s] done rc=%d wall=%.1fs" % (pid, rc, time.time() - ctx.t0), flush=True)
    return rc
