"""Running TLC and reading its output."""
import json
import os
import re
import shutil
import subprocess

from .core import VERIF, Inconclusive

JAR = "/opt/veriftools/tla/tla2tools.jar:/opt/veriftools/tla/CommunityModules-deps.jar"


class TlcResult:
    def __init__(self):
        self.generated = 0
        self.distinct = 0
        self.depth = 0
        self.ok = False            # finished without error
        self.invariant = None      # name of violated invariant/property
        self.deadlock = False
        self.error_text = ""
        self.printed = []          # values printed by PrintT(<<"TAG", ...>>) as raw strings
        self.out = ""
        self.coverage = {}         # action -> (distinct, total) when -coverage used
        self.rc = 0
        self.trace_states = []     # raw text of counterexample states

    def tagged(self, tag):
        """JSON payloads printed as PrintT(<<"tag", ToJson(x)>>)."""
        res = []
        pre = '<<"%s", "' % tag
        for ln in self.printed:
            if ln.startswith(pre) and ln.endswith('">>'):
                body = ln[len(pre):-3]
                body = body.replace('\\"', '"').replace("\\\\", "\\")
                res.append(json.loads(body))
        return res


_re_states = re.compile(r"^(\d+) states generated, (\d+) distinct states found")
_re_depth = re.compile(r"^The depth of the complete state graph search is (\d+)")
_re_inv = re.compile(r"^Error: Invariant (\S+) is violated")
_re_prop = re.compile(r"^Error: (?:Action|Temporal) propert(?:y|ies) (\S+)? ?(?:is|were) violated")
_re_cov = re.compile(r"^<(\w+) line (\d+), col (\d+) to line (\d+), col (\d+) of module (\w+)>: (\d+):(\d+)")


def stage(ctx, family, extra_files=None):
    """Copy spec/<family> into the work dir (TLC litters states/ etc.)."""
    src = os.path.join(VERIF, "spec", family)
    dst = ctx.path("spec-" + family.replace("/", "-"))
    if os.path.exists(dst):
        shutil.rmtree(dst)
    shutil.copytree(src, dst)
    for name, content in (extra_files or {}).items():
        with open(os.path.join(dst, name), "w") as f:
            f.write(content)
    return dst


def run(ctx, specdir, module, cfg=None, workers=None, simulate=None, depth=None, seed=None,
        timeout=1800, coverage=False, extra=None, heap=None, stack=False, dfs_queue=False,
        allow_violation=False):
    """Run TLC; return TlcResult.  Raises Inconclusive on crash/timeout."""
    meta = ctx.path("tlcmeta-%d" % len(os.listdir(ctx.work)))
    cmd = ["java", "-XX:+UseParallelGC"]
    if heap:
        cmd.append("-Xmx" + heap)
    if stack:
        cmd.append("-Xss512m")
    if dfs_queue:
        cmd.append("-Dtlc2.tool.queue.IStateQueue=StateDeque")
    cmd += ["-cp", JAR, "tlc2.TLC", "-metadir", meta, "-noGenerateSpecTE"]
    if cfg:
        cmd += ["-config", cfg]
    if workers is None:
        workers = "auto"
    cmd += ["-workers", str(workers)]
    if simulate is not None:
        cmd += ["-simulate", simulate]
        if depth:
            cmd += ["-depth", str(depth)]
    if seed is not None:
        cmd += ["-seed", str(seed)]
    if coverage:
        cmd += ["-coverage", "1"]
    if extra:
        cmd += extra
    cmd.append(module)
    try:
        p = subprocess.run(cmd, cwd=specdir, stdout=subprocess.PIPE, stderr=subprocess.STDOUT,
                           text=True, timeout=timeout)
    except subprocess.TimeoutExpired:
        subprocess.run(["pkill", "-f", meta], check=False)
        raise Inconclusive("TLC timeout (%ss) on %s/%s" % (timeout, module, cfg))
    finally:
        shutil.rmtree(meta, ignore_errors=True)
    r = TlcResult()
    r.out = p.stdout
    r.rc = p.returncode
    in_err = False
    for ln in p.stdout.splitlines():
        m = _re_states.match(ln)
        if m:
            r.generated, r.distinct = int(m.group(1)), int(m.group(2))
            continue
        m = _re_depth.match(ln)
        if m:
            r.depth = int(m.group(1))
            continue
        m = _re_inv.match(ln)
        if m:
            r.invariant = m.group(1)
            continue
        if ln.startswith("Error: Action property") or ln.startswith("Error: Temporal propert"):
            r.invariant = r.invariant or ln
            continue
        if ln.startswith("Error: Deadlock reached"):
            r.deadlock = True
            continue
        if ln.startswith("<<\""):
            r.printed.append(ln)
            continue
        m = _re_cov.match(ln)
        if m:
            r.coverage["%s@%s:%s" % (m.group(1), m.group(6), m.group(2))] = (int(m.group(7)), int(m.group(8)))
            continue
        if ln.startswith("Error:"):
            r.error_text += ln + "\n"
    r.ok = ("Model checking completed. No error has been found." in p.stdout
            or (simulate is not None and p.returncode == 0 and not r.error_text and not r.invariant))
    if simulate is not None:
        m = re.search(r"(\d+) states checked", p.stdout)
        if m:
            r.generated = int(m.group(1))
    if not r.ok and not allow_violation:
        raise Inconclusive("TLC failed on %s (%s): rc=%d invariant=%s deadlock=%s\n%s" % (
            module, cfg, p.returncode, r.invariant, r.deadlock, p.stdout[-3000:]))
    if not r.ok and allow_violation and not (r.invariant or r.deadlock):
        # error that is not a property violation: always infrastructure
        # (except POSTCONDITION false, reported as "Error: ... postcondition")
        if "ostcondition" not in p.stdout:
            raise Inconclusive("TLC error on %s (%s): rc=%d\n%s" % (module, cfg, p.returncode, p.stdout[-3000:]))
    return r


def uncovered_actions(r):
    return sorted(k for k, (d, t) in r.coverage.items() if t == 0)
