"""Build Go drivers against /repo's current working tree (never a copy).

Driver sources live in /verif/harness/<name>/*.go and are added *virtually* to
the repository's module at $REPO/internal/verifh/<name>/ with `go build
-overlay`, so they may import internal packages; no existing file is replaced,
so every line of the working tree is what gets compiled.
"""
import json
import os
import subprocess
import time

from .core import VERIF, GOENV, Inconclusive, sh


def overlay_for(ctx, names, extra=None):
    repl = {}
    for name in names:
        src = os.path.join(VERIF, "harness", name)
        for fn in sorted(os.listdir(src)):
            if fn.endswith(".go"):
                repl[os.path.join(ctx.repo, "internal", "verifh", name, fn)] = os.path.join(src, fn)
    for k, v in (extra or {}).items():
        repl[k] = v
    p = ctx.path("overlay-%s.json" % "-".join(names))
    with open(p, "w") as f:
        json.dump({"Replace": repl}, f)
    return p


def build(ctx, name, tags="verif", race=False, extra_overlay=None, also=()):
    """Build driver <name>; returns path of the binary."""
    ov = overlay_for(ctx, [name] + list(also), extra_overlay)
    out = ctx.path("drv-" + name + ("-race" if race else ""))
    cmd = ["go", "build", "-tags", tags, "-overlay", ov, "-o", out]
    if race:
        cmd.append("-race")
    cmd.append("./internal/verifh/" + name)
    t0 = time.time()
    r = sh(cmd, cwd=ctx.repo, timeout=3000)
    if r.returncode != 0:
        raise Inconclusive("harness build failed for %s:\n%s\n%s" % (name, r.stdout[-3000:], r.stderr[-6000:]))
    ctx.log("built driver %s in %.1fs" % (name, time.time() - t0))
    return out


def run_driver(ctx, binary, args, inp=None, timeout=1800, env=None, ok_codes=(0,)):
    """Run a driver; returns (rc, stdout, stderr).  Non-listed rc is not an
    error here: callers decide (a crash of a child may be the finding)."""
    e = dict(os.environ)
    e.update(GOENV)
    e["VERIF_SEED"] = str(ctx.seed)
    if env:
        e.update(env)
    try:
        p = subprocess.run([binary] + list(args), input=inp, stdout=subprocess.PIPE,
                           stderr=subprocess.PIPE, text=True, timeout=timeout, env=e, cwd=ctx.work)
    except subprocess.TimeoutExpired:
        raise Inconclusive("driver timeout (%ss): %s %s" % (timeout, os.path.basename(binary), " ".join(args)))
    return p.returncode, p.stdout, p.stderr
