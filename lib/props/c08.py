"""C08 - a hostile or buggy peer cannot crash or wedge an RPC connection.

spec/rpc/RpcHostile.tla enumerates (well-formed prefix) x (one hostile message of
each kind rpc.capnp's unions and id spaces allow) x probe x Close (once, twice);
the driver plays them against a real Conn; spec/rpc/RpcEndState.tla validates the
event log: allowed reaction, nothing sent after the transport closed, every
local call resolves, Close returns, Done closes, locks free, capabilities
released.  A dying driver (panic in a library goroutine) is attributed to the
script that was running."""
import json
import os

from vlib import tlc, gobuild
from vlib.core import Inconclusive
from props import rpcpipe, rpcsync

LEVEL = "model_checking"
MODULE = "RpcHostile"


def pipeline(ctx, module, limit=None):
    sd = tlc.stage(ctx, "rpc")
    r = tlc.run(ctx, sd, module, cfg=module + ".cfg", workers=1, timeout=900)
    scripts = r.tagged("SCRIPT")
    if not scripts:
        raise Inconclusive("%s produced no scripts" % module)
    if limit and len(scripts) > limit:
        import random
        random.Random(ctx.seed).shuffle(scripts)
        scripts = scripts[:limit]
    drv = gobuild.build(ctx, "rpcdrv")
    tf = os.path.join(sd, "rpctrace.ndjson")
    wire = ctx.path("wire-%s.ndjson" % module)
    if os.path.exists(wire):
        os.remove(wire)
    found, summ = rpcpipe.run_scripts(ctx, drv, scripts, tf, wire=wire)
    with open(tf) as f:
        lines = f.readlines()
    rej = []
    states = 0
    import re
    while lines:
        with open(tf, "w") as f:
            f.writelines(lines)
        rt = tlc.run(ctx, sd, "RpcEndState", cfg="RpcEndState.cfg", workers=1, timeout=3400, heap="8g", allow_violation=True, dfs_queue=True)
        states += rt.distinct
        bad = [ln for ln in rt.out.splitlines() if "REJECTED_AT_LINE" in ln]
        if rt.ok and not bad:
            break
        if not bad:
            raise Inconclusive("RpcEndState failed without naming a line:\n%s" % rt.out[-2500:])
        at = int(re.search(r"REJECTED_AT_LINE\"?,\s*(\d+)", bad[0]).group(1))
        idx = min(at, len(lines)) - 1
        start = max(i for i in range(idx + 1) if '"ev":"reset"' in lines[i])
        end = next((i for i in range(start + 1, len(lines)) if '"ev":"reset"' in lines[i]), len(lines))
        ex = [json.loads(x) for x in lines[start:end]]
        off = ex[min(idx - start, len(ex) - 1)]
        if off["ev"] not in rpcpipe.ENDSTATE_EVENTS:
            raise Inconclusive("the trace contains an event the end-state specification does not know: %s" % json.dumps(off))
        rej.append((off, ex, idx - start))
        del lines[start:end]
        if len(rej) >= 40:
            ctx.note("validation stopped after %d rejected executions" % len(rej))
            break
    # the synchronisation skeleton of every connection of these runs (sender lock, tasks, shutdown phases) against RpcSync
    states += rpcsync.from_file(ctx, sd, wire)
    return scripts, found, summ, rej, states + r.distinct


def report(ctx, scripts, found, summ, rej, states, rule):
    def hk(script):
        h = [a for a in script if a["a"] == "p-raw"]
        f = [a for a in script if a["a"] == "fault"]
        return (h[0]["kind"] if h else "") + ("fault:%s@%d" % (f[0]["kind"], f[0]["k"]) if f else "")
    for kind, m in found:
        if kind == "hang":
            ctx.violation("hang:" + hk(m["script"]) + ":" + ">".join(a["a"] for a in m["script"] if a["a"] not in ("p-raw", "fault"))[:80],
                          "the connection wedged: script %s\n%s" % (json.dumps([rpcpipe.brief(a) for a in m["script"]]), m["dump"][:2500]), m)
        else:
            ctx.violation("death:%s:%s" % (m["head"][:70], m["frame"]),
                          "the process died (%s) in %s while running script %s" % (m["head"], m["frame"], json.dumps([rpcpipe.brief(a) for a in m["script"]])), m)
    for off, ex, pos in rej:
        sid = ex[0].get("h")
        script = scripts[int(sid[1:])] if sid and sid[1:].isdigit() and int(sid[1:]) < len(scripts) else []
        ctx.violation("end-state:%s:%s:%s" % (off["ev"], off.get("kind", "")[:20], hk(script)),
                      "execution %s violates the end-state obligations at event #%d %s; script=%s trace=%s" % (
                          sid, pos, json.dumps(rpcpipe.brief(off)), json.dumps([rpcpipe.brief(a) for a in script]),
                          json.dumps([rpcpipe.brief(e) for e in ex])[:3000]), {"script": script, "trace": ex, "rejected_at": pos})
    ctx.cover(states=states, transitions=states, traces_validated_against_impl=summ["scripts"], evaluations=summ["events"],
              distinct_nontrivial=summ["scripts"], scripts=summ["scripts"], rejected=len(rej), hangs_or_deaths=len(found), rule=rule, exhaustive=True)
    ctx.sample({"script": [rpcpipe.brief(a) for a in scripts[len(scripts) // 3]]})
    ctx.assume("a script action not enabled at run time is skipped; reactions are judged per rpc.capnp (Unimplemented for unsupported messages, Abort or an exception Return for protocol violations)")


def run(ctx):
    scripts, found, summ, rej, states = pipeline(ctx, MODULE)
    report(ctx, scripts, found, summ, rej, states,
           "scripts = 8 well-formed prefixes x 35 hostile messages (unknown / reused ids in Call, Bootstrap, Finish, Release, Return, Disembargo; "
           "capability descriptors naming nothing or using receiverAnswer / thirdPartyHosted / unknown members; unknown union members of Message, "
           "MessageTarget, Return, Disembargo.context, PromisedAnswer.Op; sendResultsTo.yourself; null params / target; Resolve, Provide, Accept, "
           "Join; Abort; empty message) x probe x Close once / twice")


def replay(ctx, robj):
    raise Inconclusive("re-run bin/check C08; the script and trace are recorded in the replay file")
