"""Trace validation of the synchronisation skeleton of real connections (C08 / C09; also run on the traces of C06 / C07).

The verif build records, per Conn, sender-lock acquisitions / releases, task adds / dones and the phases of shutdown in the
same sequence as the wire messages (hook verifSync).  spec/rpc/RpcSync.tla - the projection of the implementation-shaped
lock model spec/rpc/RpcLocks.tla onto those variables - validates every execution."""
import json
import os
import re

from vlib import tlc
from vlib.core import Inconclusive
from props import rpcwire

SYNC_KINDS = {"snd-acq", "snd-rel", "task-add", "task-done", "bg-cancel", "tasks-waited", "tclose"}


def project(ex):
    out = []
    for i, e in enumerate(ex):
        d = e.get("dir")
        if d == "reset":
            out.append({"k": "reset", "i": i})
        elif d == "send":
            out.append({"k": "send", "i": i})
        elif d == "sync":
            if e.get("m") not in SYNC_KINDS:
                raise Inconclusive("unknown synchronisation event in the trace: %s" % json.dumps(e))
            out.append({"k": e["m"], "i": i})
    return out


def design(ctx, sd):
    """The implementation-shaped model behind the trace specification: RpcLocks must satisfy its invariants and terminate,
    and each variant that re-introduces a repaired defect must fail (non-vacuity)."""
    st = 0
    r = tlc.run(ctx, sd, "RpcLocks", cfg="RpcLocks_ok.cfg" if ctx.quick else "RpcLocks_t.cfg", workers=8, timeout=3000, heap="8g")
    if not r.ok:
        raise Inconclusive("RpcLocks (as implemented) does not pass its own design check: %s" % (r.invariant or r.error_text[:500]))
    st += r.distinct
    controls = {}
    for v in ("closelocked", "nmleak", "dupfinish", "selfwait"):
        c = tlc.run(ctx, sd, "RpcLocks", cfg="RpcLocks_%s.cfg" % v, workers=8, timeout=1500, heap="8g", allow_violation=True)
        if c.ok:
            raise Inconclusive("RpcLocks control variant %s passes: the model is vacuous" % v)
        controls[v] = c.invariant or ("deadlock" if c.deadlock else "violated")
        st += c.distinct
    # the trace specification itself must reject what the controls stand for: a synthetic history in which the sender lock is
    # still held when the transport is closed (and the same history with the release in place must be accepted)
    good = ["reset", "task-add", "snd-acq", "send", "snd-rel", "bg-cancel", "task-done", "tasks-waited", "send", "tclose"]
    for name, kinds, want_reject in (("complete", good, False), ("lock-held-at-close", [k for k in good if k != "snd-rel"], True)):
        with open(os.path.join(sd, "rpcsync.ndjson"), "w") as f:
            for i, k in enumerate(kinds):
                f.write(json.dumps({"k": k, "i": i}) + "\n")
        rt = tlc.run(ctx, sd, "RpcSync", cfg="RpcSync.cfg", workers=1, timeout=600, allow_violation=True, dfs_queue=True)
        rejected = any("REJECTED_AT_LINE" in ln for ln in rt.out.splitlines())
        if rejected != want_reject:
            raise Inconclusive("RpcSync %s the synthetic history '%s': the trace specification is %s" % (
                "rejects" if rejected else "accepts", name, "too strict" if rejected else "vacuous"))
        st += rt.distinct
    ctx.cover(lock_model_states=r.distinct, lock_model_controls=controls, sync_spec_controls={"complete": "accepted", "lock-held-at-close": "rejected"})
    return st


def validate(ctx, sd, execs):
    """execs: executions as produced by rpcwire.split.  Returns ([(event, execution, position)], states, counts)."""
    tf = os.path.join(sd, "rpcsync.ndjson")
    proj = [project(ex) for ex in execs]
    pairs = [(p, ex) for p, ex in zip(proj, execs) if len(p) > 1]
    kinds = {}
    for p, _ in pairs:
        for e in p:
            kinds[e["k"]] = kinds.get(e["k"], 0) + 1
    rej, states = [], 0
    while pairs:
        with open(tf, "w") as f:
            for p, _ in pairs:
                for e in p:
                    f.write(json.dumps(e) + "\n")
        rt = tlc.run(ctx, sd, "RpcSync", cfg="RpcSync.cfg", workers=1, timeout=3000, heap="8g", allow_violation=True, dfs_queue=True)
        states += rt.distinct
        bad = [ln for ln in rt.out.splitlines() if "REJECTED_AT_LINE" in ln]
        if rt.ok and not bad:
            break
        if not bad:
            raise Inconclusive("RpcSync failed without naming a line:\n%s" % rt.out[-2500:])
        at = int(re.search(r"REJECTED_AT_LINE\"?,\s*(\d+)", bad[0]).group(1))
        n = 0
        for j, (p, ex) in enumerate(pairs):
            if at <= n + len(p):
                pos = p[at - n - 1]["i"]
                rej.append((dict(ex[pos], k=p[at - n - 1]["k"]), ex, pos))
                del pairs[j]
                break
            n += len(p)
        else:
            raise Inconclusive("RpcSync rejected line %d beyond the trace" % at)
        if len(rej) >= 20:
            break
    return rej, states, kinds


def report(ctx, rej, kinds, nexec):
    for off, ex, pos in rej:
        hist = [("%s:%s" % (e.get("dir"), e.get("m"))) for e in ex[max(1, pos - 40):pos + 1]]
        ctx.violation("sync:%s" % off["k"],
                      "the synchronisation history of connection end %s/%s is not a behaviour of RpcSync (projection of RpcLocks): event #%d %s is not "
                      "enabled (S1 sender lock exclusive, S2 sends under the lock, S3 task counter, S4 shutdown once and in order, S5 lock free and no task "
                      "left at transport close); history=%s" % (ex[0].get("pid"), ex[0].get("conn"), pos, off["k"], json.dumps(hist)),
                      {"trace": ex[:pos + 1], "rejected_at": pos})
    ctx.cover(sync_connection_ends=nexec, sync_events=kinds, sync_rejected=len(rej))


def from_file(ctx, sd, tracefile):
    if not os.path.exists(tracefile):
        raise Inconclusive("no wire / synchronisation trace was written (%s)" % tracefile)
    execs = rpcwire.split(tracefile, sync=True)
    rej, states, kinds = validate(ctx, sd, execs)
    if not kinds.get("snd-acq") or not kinds.get("tclose"):
        raise Inconclusive("the synchronisation trace has no sender-lock / shutdown events: hooks not compiled in?")
    report(ctx, rej, kinds, len(execs))
    return states
