"""C11 - promise pipelining delivers each call exactly once and never deadlocks.

spec/promise/Promise.tla: implementation-shaped model of answer.go composed with
the proxy client's hook (design check; the variants without the repairs
reproduce defects D1 and D17 and are kept as non-vacuity controls).
spec/promise/PromiseAbs.tla: property-level specification + trace spec.
The driver runs small multi-threaded programs on real Promises under the gate
scheduler (yield points in answer.go and capability.go, the instrumented
pipeline caller and result capability); traces are validated by TLC; executions
that cannot make progress are reported with the library frames they are stuck
in."""
import json
import os
import random

from vlib import tlc, gobuild
from vlib.core import Inconclusive

LEVEL = "model_checking"


def O(op, p="", path="", h="", kind="", to=""):
    return dict(op=op, p=p, path=path, h=h, kind=kind, to=to)


def seqs(ctx):
    """thread programs: a 'resolver' thread, 'caller' threads"""
    resolvers = [
        [O("Fulfill", "p", kind="cap")],
        [O("Fulfill", "p", kind="nocap")],
        [O("Reject", "p")],
        [O("Join", "p"), O("Fulfill", "q", kind="cap")],
        [O("Fulfill", "q", kind="cap"), O("Join", "p")],
        [O("Join", "p"), O("Reject", "q")],
        [O("PSend", "p", "f0"), O("Fulfill", "p", kind="cap"), O("ReleaseClients", "p")],
        [O("Client", "p", "f0", "x3"), O("Fulfill", "p", kind="cap"), O("CCall", h="x3")],
        [O("Client", "p", "f0", "x3"), O("Join", "p"), O("Fulfill", "q", kind="cap"), O("CCall", h="x3")],
        [O("Client", "p", "f0", "x3"), O("Join", "p"), O("Reject", "q"), O("ReleaseClients", "p")],
    ]
    callers = [
        [O("PSend", "p", "f0")],
        [O("PSend", "p", "root")],
        [O("PSend", "p", "f0"), O("PSend", "p", "f0")],
        [O("Client", "p", "f0", "x1"), O("CCall", h="x1")],
        [O("Client", "p", "f0", "x1"), O("Client", "p", "f0", "x2"), O("CCall", h="x2")],
        [O("Client", "p", "f0", "x1"), O("CCall", h="x1"), O("CCall", h="x1")],
        [O("Client", "p", "root", "x1"), O("CCall", h="x1")],
        [O("Struct", "p"), O("PSend", "p", "f0")],
        [O("Done", "p"), O("Client", "p", "f0", "x1"), O("Struct", "p"), O("CCall", h="x1")],
        [O("PSend", "p", "f0"), O("Struct", "p"), O("ReleaseClients", "p")],
        [O("Client", "p", "f0", "x1"), O("Struct", "p"), O("ReleaseClients", "p"), O("ReleaseClients", "p")],
        [O("PSend", "q", "f0"), O("PSend", "p", "f0")],
    ]
    return resolvers, callers


def programs(ctx):
    rng = random.Random(ctx.seed)
    resolvers, callers = seqs(ctx)
    progs = []
    # sequential single-thread programs first (D1, D18 are sequential)
    singles = [
        [O("Client", "p", "f0", "x1"), O("Client", "p", "f0", "x2"), O("Fulfill", "p", kind="cap"), O("CCall", h="x2")],
        [O("Client", "p", "f0", "x1"), O("Join", "p"), O("Fulfill", "q", kind="cap"), O("CCall", h="x1"), O("ReleaseClients", "p")],
        [O("PSend", "p", "f0"), O("Join", "p"), O("PSend", "p", "f0"), O("Fulfill", "q", kind="nocap"), O("PSend", "p", "f0")],
        [O("Fulfill", "p", kind="cap"), O("Client", "p", "f0", "x1"), O("CCall", h="x1"), O("ReleaseClients", "p"), O("Struct", "p")],
    ]
    # join chains of three promises, built leaf first and root first; the pipelined clients stay usable until every
    # promise of the chain has been asked to release them
    singles += [
        [O("Join", "r", to="p"), O("Join", "p", to="q"), O("Client", "q", "f0", "x1"), O("Fulfill", "q", kind="cap"),
         O("ReleaseClients", "p"), O("ReleaseClients", "r"), O("CCall", h="x1"), O("ReleaseClients", "q")],
        [O("Join", "p", to="q"), O("Join", "r", to="p"), O("Client", "r", "f0", "x1"), O("Fulfill", "q", kind="cap"),
         O("ReleaseClients", "q"), O("ReleaseClients", "p"), O("CCall", h="x1"), O("ReleaseClients", "r"), O("CCall", h="x1")],
        [O("Client", "r", "f0", "x1"), O("Join", "r", to="p"), O("Client", "p", "f0", "x2"), O("Join", "p", to="q"), O("Fulfill", "q", kind="cap"),
         O("ReleaseClients", "r"), O("CCall", h="x1"), O("ReleaseClients", "q"), O("CCall", h="x2"), O("ReleaseClients", "p")],
        [O("Fulfill", "q", kind="cap"), O("Client", "p", "f0", "x1"), O("Join", "p", to="q"), O("ReleaseClients", "p"), O("CCall", h="x1"), O("ReleaseClients", "q")],
    ]
    # "pipelined clients handed out earlier ... are released by ReleaseClients": usable until every promise of the chain was asked
    # (asking one promise twice counts once), unusable afterwards - whatever the order in which the chain is released
    singles += [
        [O("Join", "p", to="q"), O("Client", "q", "f0", "x1"), O("Fulfill", "q", kind="cap"), O("ReleaseClients", "p"), O("ReleaseClients", "p"),
         O("CCall", h="x1"), O("ReleaseClients", "q"), O("CCall", h="x1")],
        [O("Join", "p", to="q"), O("Client", "p", "f0", "x1"), O("Fulfill", "q", kind="cap"), O("ReleaseClients", "p"), O("CCall", h="x1"),
         O("ReleaseClients", "q"), O("CCall", h="x1")],
        [O("Client", "p", "f0", "x1"), O("Join", "p", to="q"), O("Fulfill", "q", kind="cap"), O("ReleaseClients", "q"), O("CCall", h="x1"),
         O("ReleaseClients", "p"), O("CCall", h="x1")],
        [O("Join", "r", to="p"), O("Join", "p", to="q"), O("Client", "r", "f0", "x1"), O("Fulfill", "q", kind="cap"), O("ReleaseClients", "p"),
         O("ReleaseClients", "p"), O("ReleaseClients", "r"), O("CCall", h="x1"), O("ReleaseClients", "q"), O("CCall", h="x1")],
        [O("Client", "p", "f0", "x1"), O("Fulfill", "p", kind="cap"), O("Client", "p", "f0", "x2"), O("ReleaseClients", "p"), O("CCall", h="x1"), O("CCall", h="x2")],
    ]
    for i, s in enumerate(singles):
        progs.append({"id": "seq-%d" % i, "threads": [s]})
    chains = [
        [[O("Join", "r", to="p"), O("Join", "p", to="q"), O("Fulfill", "q", kind="cap"), O("ReleaseClients", "r")],
         [O("Client", "q", "f0", "x1"), O("ReleaseClients", "p"), O("CCall", h="x1"), O("ReleaseClients", "q")]],
        [[O("Join", "p", to="q"), O("Fulfill", "q", kind="cap")],
         [O("Join", "r", to="p"), O("Client", "r", "f0", "x1"), O("ReleaseClients", "r"), O("CCall", h="x1")]],
    ]
    chains += [
        # joining onto a promise that is itself waiting to complete its Join (a pipelined call is still inside its pipeline caller)
        [[O("PSend", "p", "f0")], [O("Join", "p", to="q")], [O("Join", "r", to="p"), O("Fulfill", "q", kind="cap"), O("PSend", "r", "f0")]],
        [[O("PSend", "p", "f0"), O("PSend", "p", "f0")], [O("Join", "p", to="q"), O("Reject", "q")], [O("Join", "r", to="p"), O("Struct", "r")]],
        # joining onto a promise whose resolution is pending (Fulfill waits for a pipelined call)
        [[O("PSend", "p", "f0")], [O("Fulfill", "p", kind="cap")], [O("Join", "r", to="p"), O("PSend", "r", "f0")]],
    ]
    chains += [
        # the target of a Join is resolved while the Join waits for the joined promise's in-flight pipelined calls
        [[O("PSend", "p", "f0")], [O("Join", "p", to="q"), O("Struct", "p")], [O("Fulfill", "q", kind="cap")]],
        [[O("PSend", "p", "f0")], [O("Join", "p", to="q"), O("PSend", "p", "f0")], [O("Reject", "q")]],
        [[O("PSend", "p", "f0")], [O("Join", "p", to="q"), O("Client", "q", "f0", "x1"), O("CCall", h="x1")], [O("Join", "q", to="r"), O("Fulfill", "r", kind="cap")]],
    ]
    # three-thread race programs: depth-first enumeration changes late decisions first; random schedules reach early switches
    cb = 400 if ctx.quick else 3000
    for i, c in enumerate(chains):
        progs.append({"id": "chain-%d" % i, "threads": c, "budget": cb})
        progs.append({"id": "chain-%d-rnd" % i, "threads": c, "budget": cb, "mode": "rnd"})
    pairs = [(r, c) for r in resolvers for c in callers]
    rng.shuffle(pairs)
    for i, (r, c) in enumerate(pairs[: (60 if ctx.quick else len(pairs))]):
        progs.append({"id": "rc-%d" % i, "threads": [r, c]})
    if not ctx.quick:
        triples = [(r, c1, c2) for r in resolvers[:6] for c1 in callers[:6] for c2 in callers[:6]]
        rng.shuffle(triples)
        for i, (r, c1, c2) in enumerate(triples[:150]):
            # handles of the second caller must not clash with the first
            c2 = [dict(o, h={"x1": "x4", "x2": "x4"}.get(o["h"], o["h"])) for o in c2]
            progs.append({"id": "rcc-%d" % i, "threads": [r, c1, c2]})
    return progs


def run(ctx):
    sd = tlc.stage(ctx, "promise")
    r = tlc.run(ctx, sd, "Promise", cfg="Promise_ok.cfg", workers=12, timeout=1800)
    for cfg, want in (("Promise_d1.cfg", "NoLeakedLock"), ("Promise_d17.cfg", "NoStuck")):
        rb = tlc.run(ctx, sd, "Promise", cfg=cfg, workers=4, timeout=900, allow_violation=True)
        if not rb.invariant:
            raise Inconclusive("non-vacuity control %s found no violation" % cfg)
    ctx.log("Promise design model: %d states; unrepaired variants violate NoLeakedLock / NoStuck (controls)" % r.distinct)
    progs = programs(ctx)
    pf = ctx.path("programs.ndjson")
    with open(pf, "w") as f:
        for p in progs:
            f.write(json.dumps(p) + "\n")
    drv = gobuild.build(ctx, "promdrv", also=["vsched"])
    tf = os.path.join(sd, "promtrace.ndjson")
    budget = "60" if ctx.quick else "500"
    skip = 0
    alltrace = []
    tot = {"executions": 0, "events": 0, "programs_fully_explored": 0}
    sites = {}
    nhang = 0
    summ = None
    while True:
        part = ctx.path("promtrace-part.ndjson")
        rc, out, err = gobuild.run_driver(ctx, drv, ["run", pf, part, "dfs", budget, str(skip)], timeout=3400)
        if rc != 0:
            head = [ln for ln in err.splitlines() if ln.startswith("panic:") or ln.startswith("fatal error:")]
            first = "\n".join(err.split("\n\n")[0:2])
            if "capnproto.org/go/capnp/v3." not in first.replace("capnproto.org/go/capnp/v3/internal/verifh", ""):
                raise Inconclusive("the driver crashed in harness code: %s" % err[:2000])
            ctx.violation("driver-death:" + (head[0][:80] if head else "rc%d" % rc),
                          "the driver died while running promise programs: %s" % err[:3000], {"stderr": err[:6000]})
            return
        summ = None
        for ln in out.splitlines():
            if ln.startswith("{"):
                m = json.loads(ln)
                if m.get("summary"):
                    summ = m
                elif m.get("what") == "hang":
                    nhang += 1
                    # goroutines that merely wait for the resolution (which the deadlock prevents) do not identify the defect
                    waiters = {"(*Future).Struct", "(*Promise).ReleaseClients", "(*Future).Client"}
                    core = [x for x in m["sig"].split("+") if x not in waiters] or m["sig"].split("+")
                    m["sig"] = "+".join(core)
                    ctx.violation("hang:" + m["sig"],
                                  "execution cannot make progress (stuck in %s): program %s schedule %s" % (m["sig"], json.dumps(m["prog"]), m["schedule"]),
                                  {k: m[k] for k in ("prog", "schedule", "sig", "dump")})
        if not summ:
            raise Inconclusive("promdrv: no summary")
        with open(part) as f:
            alltrace += f.readlines()
        for k in tot:
            tot[k] += summ["stats"].get(k, 0)
        for k, v in summ.get("sites", {}).items():
            sites[k] = sites.get(k, 0) + v
        if "resume_at" in summ and nhang < 25:
            skip = summ["resume_at"]
            continue
        break
    with open(tf, "w") as f:
        f.writelines(alltrace)
    summ = {"programs": len(progs), "stats": tot, "hangs": nhang, "sites": sites}
    ctx.log("promdrv: %s" % {k: v for k, v in summ.items() if k != "sites"})
    from props.c10 import validate_traces
    rejected, vstates = validate_traces(ctx, sd, tf, "PromiseAbs", "PromiseAbs.cfg")
    st = summ["stats"]
    ctx.cover(states=r.distinct + vstates, transitions=r.generated, traces_validated_against_impl=st.get("executions", 0),
              evaluations=st.get("events", 0), distinct_nontrivial=st.get("executions", 0), programs=len(progs),
              programs_fully_explored=st.get("programs_fully_explored", 0), executions=st.get("executions", 0), rejected=rejected,
              yield_sites_hit=summ.get("sites", {}),
              rule="programs = a resolver thread (Fulfill/Reject/Join chains) x caller threads (pipelined calls on paths f0/root, Future.Client repeated, "
                   "calls through pipelined clients, Struct/Done/ReleaseClients waiters) + sequential programs; schedules enumerated depth-first at the "
                   "yield points of answer.go and capability.go and inside the instrumented pipeline caller / result capability; each trace validated by TLC",
              exhaustive=False)
    ctx.sample({"program": progs[0]})
    ctx.sample({"program": progs[len(progs) // 2]})
    ctx.assume("a goroutine that does not reach a yield point within 3 ms is treated as blocked; a hang is reported only when no worker is parked and nothing moves for 1 s")


def replay(ctx, robj):
    raise Inconclusive("re-run bin/check C11; the program, schedule and dump are recorded in the replay file")
