"""C12 - a local server sees calls in order, within its concurrency cap, until shutdown.

spec/server/Server.tla: implementation-shaped model of server.go (design check:
one unacknowledged call at a time, cap, slot lookup, shutdown, no thread stuck).
spec/server/ServerEnv.tla: generator of environment scripts.
spec/server/ServerTrace.tla: trace specification of the event log.
The driver needs no hook: the method implementation, the callers, the result
capability and the Shutdowner are harness code."""
import json
import os
import random

from vlib import tlc, gobuild
from vlib.core import Inconclusive
from props.c10 import validate_traces

LEVEL = "model_checking"


def scripts(ctx, sd, ncalls, npipes, maxlen, cancel, tag, shutdown=True):
    cfg = "Env_%s.cfg" % tag
    with open(os.path.join(sd, cfg), "w") as f:
        f.write("SPECIFICATION Spec\nCONSTANTS\n  NCalls = %d\n  NPipes = %d\n  MaxLen = %d\n  WithShutdown = %s\n  WithCancel = %s\nINVARIANT Emit\nCHECK_DEADLOCK FALSE\n"
                % (ncalls, npipes, maxlen, "TRUE" if shutdown else "FALSE", "TRUE" if cancel else "FALSE"))
    r = tlc.run(ctx, sd, "ServerEnv", cfg=cfg, workers=8, timeout=1800, heap="8g")
    return r.tagged("SCRIPT"), r


def run(ctx):
    sd = tlc.stage(ctx, "server")
    states = trans = 0
    for cfg in (["Server_q.cfg", "Server_q2.cfg"] if ctx.quick else ["Server_q.cfg", "Server_q2.cfg", "Server_t.cfg"]):
        r = tlc.run(ctx, sd, "Server", cfg=cfg, workers=12, timeout=3000, heap="16g")
        states += r.distinct
        trans += r.generated
    # the answer queue (server/answer.go): queued / late / direct calls; the variants "basis 0 ready as soon as the drain starts"
    # and "an entry's return delivered right after the entry" must violate the ordering invariants (controls)
    ra = tlc.run(ctx, sd, "MCAnswerQueue", cfg="AnswerQueue_ok.cfg", workers=4, timeout=900)
    states += ra.distinct
    trans += ra.generated
    for cfg, want in (("AnswerQueue_readyearly.cfg", "OrderOnResult"), ("AnswerQueue_returnearly.cfg", "OrderOnEntry")):
        rb = tlc.run(ctx, sd, "MCAnswerQueue", cfg=cfg, workers=1, timeout=600, allow_violation=True)
        if rb.invariant != want:
            raise Inconclusive("non-vacuity control %s: expected a violation of %s, got %s" % (cfg, want, rb.invariant))
    ctx.log("Server design model: %d states (incl. AnswerQueue: %d; its two variants violate OrderOnResult / OrderOnEntry)" % (states, ra.distinct))
    rng = random.Random(ctx.seed)
    all_scripts, r1 = scripts(ctx, sd, 3, 1, 6, False, "a")
    s2, r2 = scripts(ctx, sd, 3, 2, 7 if not ctx.quick else 6, True, "b")
    states += r1.distinct + r2.distinct
    rng.shuffle(all_scripts)
    rng.shuffle(s2)
    n = 500 if ctx.quick else 6000
    chosen = all_scripts[:n] + s2[:n]
    # waiting callers: a call that waits for a slot (or at the gate behind such a call) is cancelled while later calls wait behind it
    s3, r3 = scripts(ctx, sd, 3 if ctx.quick else 4, 0, 6 if ctx.quick else 7, True, "c", shutdown=False)
    states += r3.distinct

    def waiting_cancel(sc):
        seen, touched = set(), set()
        for a in sc:
            if a["a"] == "invoke":
                seen.add(a["i"])
            elif a["a"] in ("ack", "return"):
                touched.add(a["i"])
            elif a["a"] == "cancel":
                if a["i"] >= 2 and a["i"] not in touched and (a["i"] + 1) in seen and (a["i"] - 1) in touched:
                    return True
        return False
    s3 = [x for x in s3 if waiting_cancel(x)]
    rng.shuffle(s3)
    s3 = s3[:(250 if ctx.quick else 4000)]
    # more pipelined calls on one unreturned answer than its queue holds (AnswerQueueSize 2): the extra ones wait for the queue
    # to drain and must still be delivered behind the queued ones
    s4, r4 = scripts(ctx, sd, 1, 4, 7, False, "d", shutdown=False)
    states += r4.distinct
    s4 = [x for x in s4 if sum(1 for a in x if a["a"] == "pipe") >= 3]
    rng.shuffle(s4)
    s4 = s4[:(150 if ctx.quick else 2000)]
    # second-level pipelines: calls pipelined on the answers of queued pipelined calls, and direct calls on their results as soon
    # as those are visible (hand-written scenarios; the orders of the first-level calls vary)
    A = lambda a, i=0, on=0, res="": dict(a=a, i=i, on=on, res=res)
    s5 = []
    for first in ([101, 102], [101, 102, 103], [102, 101]):
        for ret in ("ok", "err"):
            sc = [A("invoke", 1), A("ack", 1)] + [A("pipe", j, 1) for j in first] + [A("pipe2", 201, 101), A("return", 1, 0, ret)]
            s5.append(sc)
            s5.append([A("invoke", 1), A("ack", 1), A("pipe", 101, 1), A("pipe2", 201, 101), A("pipe", 102, 1), A("pipe2", 202, 102), A("return", 1, 0, ret)])
    s5 = s5 * (3 if ctx.quick else 20)
    ctx.log("ServerEnv: %d + %d sampled scripts, %d scripts that cancel a waiting caller, %d scripts that overfill an answer queue, %d with second-level pipelines" % (
        min(n, len(all_scripts)), min(n, len(s2)), len(s3), len(s4), len(s5)))
    drv = gobuild.build(ctx, "srvdrv")
    total = rejected = hangs = events = 0
    kinds = {}
    for maxc in (1, 2):
        sf = ctx.path("scripts-%d.ndjson" % maxc)
        part = chosen[(maxc - 1)::2] + (s3 if maxc == 1 else s4 + s5)
        with open(sf, "w") as f:
            for s in part:
                f.write(json.dumps(s) + "\n")
        tf = os.path.join(sd, "srvtrace.ndjson")
        rc, out, err = gobuild.run_driver(ctx, drv, ["run", sf, tf, str(maxc), "2"], timeout=3400)
        if rc != 0:
            head = [ln for ln in err.splitlines() if ln.startswith("panic:") or ln.startswith("fatal error:")]
            first = "\n".join(err.split("\n\n")[0:2])
            if "verifh" in first.split("capnproto.org/go/capnp/v3.")[0] and "capnproto.org/go/capnp/v3." not in first.replace("capnproto.org/go/capnp/v3/internal/verifh", ""):
                raise Inconclusive("the driver crashed in harness code: %s" % err[:2000])
            ctx.violation("driver-death:" + (head[0][:80] if head else "rc%d" % rc), "the driver died: %s" % err[:3000], {"stderr": err[:6000]})
            return
        summ = None
        for ln in out.splitlines():
            if ln.startswith("{"):
                m = json.loads(ln)
                if m.get("summary"):
                    summ = m
                elif m.get("what") == "hang":
                    hangs += 1
                    ctx.violation("hang:" + ">".join(a["a"] for a in m["script"]),
                                  "execution did not wind down (Max=%d): script %s\n%s" % (maxc, json.dumps(m["script"]), m["dump"][:2500]), m)
        if not summ:
            raise Inconclusive("srvdrv: no summary")
        total += summ["scripts"]
        events += summ["events"]
        with open(tf) as f:
            for ln in f:
                k = json.loads(ln)["ev"]
                kinds[k] = kinds.get(k, 0) + 1
        rj, st = validate_traces(ctx, sd, tf, "ServerTrace", "ServerTrace_%d.cfg" % maxc)
        rejected += rj
        states += st
        ctx.log("srvdrv Max=%d: %s rejected=%d" % (maxc, summ, rj))
    ctx.cover(states=states, transitions=trans, traces_validated_against_impl=total, evaluations=events, distinct_nontrivial=total,
              scripts=total, rejected=rejected, hangs=hangs, event_kinds=kinds,
              rule="scripts = maximal behaviours of spec/server/ServerEnv.tla (3 calls invoked from separate goroutines, ack / return ok|err / cancel, "
                   "1-2 pipelined calls on acknowledged answers, Shutdown at any point), sampled, each run with MaxConcurrentCalls 1 and 2 and "
                   "seeded timing jitter; the event log of every run is validated by TLC against ServerTrace",
              exhaustive=False)
    ctx.sample({"script": chosen[0]})
    ctx.sample({"script": chosen[len(chosen) // 2]})
    ctx.assume("script actions that are not enabled at run time (acknowledging a call the server has not started within 15 ms) are skipped; timing jitter only changes which interleaving is observed")


def replay(ctx, robj):
    raise Inconclusive("re-run bin/check C12; the script and trace are recorded in the replay file")
