"""C18 - canonical form is valid, value-preserving and layout-independent.

spec/enc/ValGen.tla: Canon(v) defines the canonical word sequence of a struct
value (single segment, pre-order, per-struct trailing-zero truncation, struct
lists sized to the largest truncated element).  Inside TLC the design is
checked: Value(Canon(v)) is clean, well formed and ValEq to v, Canon is a fixed
point, and equal kind-preserving variants have the same Canon.  The driver
builds each value in 4 arena/build-order layouts and requires
Canonicalize(bytes) = Canon(v) byte for byte, idempotence, and an error for
values containing capabilities."""
import json

from vlib import tlc, gobuild
from vlib.core import Inconclusive
from props import c17

LEVEL = "model_checking"


def run(ctx):
    sd = tlc.stage(ctx, "enc")
    depth = 2 if ctx.quick else 3
    vals, r = c17.gen(ctx, sd, depth, "canon", "CANON")
    if not vals:
        raise Inconclusive("ValGen produced no values")
    seen = set()
    vf = ctx.path("vals.ndjson")
    n = ncap = 0
    with open(vf, "w") as f:
        for v in vals:
            k = json.dumps(v["v"], sort_keys=True)
            if k in seen:
                continue
            seen.add(k)
            n += 1
            ncap += 1 if v["hascap"] else 0
            f.write(json.dumps(v) + "\n")
    ctx.log("ValGen depth %d: %d struct values (%d with capabilities)" % (depth, n, ncap))
    drv = gobuild.build(ctx, "encval")
    rc, out, err = gobuild.run_driver(ctx, drv, ["canon", vf], timeout=3400)
    if rc != 0:
        raise Inconclusive("encval died rc=%d: %s" % (rc, err[-3000:]))
    summ = None
    for ln in out.splitlines():
        if ln.startswith("{"):
            m = json.loads(ln)
            if m.get("summary"):
                summ = m
                continue
            ctx.violation("canon:%s" % m["what"], "Canonicalize %s (%s): got %s want %s v=%s" % (
                m["what"], m.get("arena"), m.get("got"), m.get("want"), json.dumps(m["v"])), m)
    if not summ:
        raise Inconclusive("encval: no summary")
    ctx.log("encval canon: %s" % summ)
    ctx.cover(states=r.distinct, transitions=r.generated, traces_validated_against_impl=n,
              evaluations=summ["stats"].get("canonicalize_calls", 0), distinct_nontrivial=n, values=n, with_capabilities=ncap,
              rule="struct values = Vals(Depth) and their one-edit neighbours (padded / versioned / upgraded variants) from spec/enc/ValGen.tla; "
                   "each built in 4 arena/build-order layouts; Canonicalize output compared byte for byte with Canon(v) computed by TLC; "
                   "idempotence on the canonical bytes; values containing capabilities must be rejected",
              exhaustive=True, depth=depth)
    for v in vals[:1] + vals[len(vals) // 2: len(vals) // 2 + 2]:
        ctx.sample(v)
    ctx.assume("the builder constructs the value it is asked for (C04/C05); list-kind upgrades are not claimed to canonicalise identically")


def replay(ctx, robj):
    case = robj["case"]
    sd = tlc.stage(ctx, "enc")
    raise Inconclusive("re-run bin/check C18; the failing value is in the replay file")
