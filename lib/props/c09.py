"""C09 - transport faults, cancellation and Close always terminate cleanly.

spec/rpc/RpcFault.tla enumerates base scenarios x (fault kind x operation index)
x Close once / twice, and Close injected at every step; spec/rpc/RpcEndState.tla
validates the event log (every local call resolves, Close returns - also the
second time -, Done closes, nothing is sent after the transport closed, the
connection mutex and sender lock are free afterwards)."""
from props import c08

LEVEL = "fault_enumeration"


def run(ctx):
    scripts, found, summ, rej, states = c08.pipeline(ctx, "RpcFault")
    c08.report(ctx, scripts, found, summ, rej, states,
               "scripts = 4 base scenarios (incoming calls with capabilities, pipelined call on an unreturned answer, local Bootstrap + calls "
               "on the import + release, mixed) x {NewMessage error, send error, receive error} x operation index 1..7 x Close once / twice, "
               "plus Close injected at every step of every base scenario")


replay = c08.replay
