"""C09 - transport faults, cancellation and Close always terminate cleanly.

spec/rpc/RpcFault.tla enumerates base scenarios x (fault kind x operation index)
x Close once / twice, and Close injected at every step; spec/rpc/RpcEndState.tla
validates the event log (every local call resolves, Close returns - also the
second time -, Done closes, nothing is sent after the transport closed, the
connection mutex and sender lock are free afterwards)."""
import json
import os

from props import c08, rpcsync
from vlib import tlc, gobuild
from vlib.core import Inconclusive

LEVEL = "model_checking"


def torn_writes(ctx):
    """Torn-write clause on the byte-stream transport (spec/rpc/StreamTornGen.tla -> harness/streamdrv -> StreamTornTrace.tla)."""
    sd = tlc.stage(ctx, "rpc")
    g = tlc.run(ctx, sd, "StreamTornGen", cfg="StreamTornGen.cfg", workers=2, timeout=600)
    scripts = g.tagged("SCRIPT")
    if not scripts:
        raise Inconclusive("StreamTornGen produced no scripts")
    scripts.sort(key=lambda s: json.dumps(s, sort_keys=True))
    sf = ctx.path("tornscripts.ndjson")
    with open(sf, "w") as f:
        for s in scripts:
            f.write(json.dumps(s) + "\n")
    drv = gobuild.build(ctx, "streamdrv")
    tf = os.path.join(sd, "torntrace.ndjson")
    rc, out, err = gobuild.run_driver(ctx, drv, [sf, tf], timeout=1500)
    if rc != 0:
        raise Inconclusive("streamdrv died rc=%d: %s" % (rc, err[-2000:]))
    summ = [json.loads(ln) for ln in out.splitlines() if ln.startswith("{")][-1]
    rt = tlc.run(ctx, sd, "StreamTornTrace", cfg="StreamTornTrace.cfg", workers=1, timeout=1500, stack=True)
    cons = rt.tagged("CONSUMED")
    if not cons or cons[0]["n"] != summ["lines"]:
        raise Inconclusive("StreamTornTrace consumed %s of %d lines" % (cons, summ["lines"]))
    bad = rt.tagged("TORNBAD")
    if bad:
        with open(tf) as f:
            lines = [json.loads(x) for x in f]
        for b in bad:
            i = b["line"] - 1
            j = i
            while j > 0 and lines[j]["ev"] != "reset":
                j -= 1
            n = sum(1 for x in lines[:j + 1] if x["ev"] == "reset") - 1
            sc = scripts[n] if n < len(scripts) else {}
            ctx.violation("torn:%s:%s:%s" % (b["what"][:40], sc.get("level"), sc.get("enc")),
                          "%s: script %s, event #%d %s" % (b["what"], json.dumps(sc), i - j, json.dumps(lines[i])),
                          {"script": sc, "trace": lines[j:i + 1]})
    ctx.cover(torn_write_scripts=len(scripts), torn_write_events=summ["lines"])
    return len(scripts), summ["lines"], g.distinct + rt.distinct


def run(ctx):
    nt, ne, st = torn_writes(ctx)
    # design check of the implementation-shaped lock model (no deadlock, invariants, termination) + its four controls
    st += rpcsync.design(ctx, tlc.stage(ctx, "rpc"))
    scripts, found, summ, rej, states = c08.pipeline(ctx, "RpcFault")
    states += st
    c08.report(ctx, scripts, found, summ, rej, states,
               "scripts = 4 base scenarios (incoming calls with capabilities, pipelined call on an unreturned answer, local Bootstrap + calls "
               "on the import + release, mixed) x {NewMessage error, send error, receive error} x operation index 1..7 x Close once / twice, "
               "plus Close injected at every step of every base scenario; torn writes: {basic, packed} stream transport x {4 messages sent directly, 3 Bootstraps under a Conn} "
               "x fault at write call 0..7 accepting 0, 1, 3, 7 or all-but-one bytes")


replay = c08.replay
