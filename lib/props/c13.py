"""C13 - packed encoding is a lossless, spec-conformant, truncation-safe codec.

Deciding spec: spec/packed (PackedCore transducer; Packed generator;
PackedDesign lossless check of the scheme; PackedTrace independent unpacker of
real Pack output)."""
import json
import os

from vlib import tlc, gobuild
from vlib.core import Inconclusive

LEVEL = "model_checking"


def _vectors(ctx, sd, cfg):
    r = tlc.run(ctx, sd, "MCPacked", cfg=cfg, workers=8, timeout=3000, heap="8g")
    vs = r.tagged("VECTOR")
    if not vs:
        raise Inconclusive("TLC produced no vectors")
    ctx.cover(states=r.distinct, transitions=r.generated)
    return vs


def sig_of(m):
    # class of failing input: decoder + failure kind + spec state where the input stops
    w = m.get("where", "")
    if w.startswith("roundtrip:"):
        w = "roundtrip"
    return "%s@%s" % (m["kind"], w)


def _collect(ctx, out, what):
    summ = None
    n = 0
    for ln in out.splitlines():
        if not ln.startswith("{"):
            continue
        m = json.loads(ln)
        if m.get("summary"):
            summ = m
            continue
        n += 1
        ctx.violation(sig_of(m), "%s: %s mode=%s input=%s got=%s want=%s" % (
            what, m["kind"], m.get("mode"), m.get("inp"), m.get("got"), m.get("want")), m)
    if summ is None:
        raise Inconclusive("driver produced no summary (%s)" % what)
    return summ, n


def run(ctx):
    sd = tlc.stage(ctx, "packed")
    # 1. design check of the scheme: every legal packing of every small payload unpacks to it
    d = tlc.run(ctx, sd, "PackedDesign", cfg="PackedDesign.cfg", workers=8, timeout=900)
    ctx.log("design: %d states" % d.distinct)
    ctx.cover(design_states=d.distinct)
    # 2. vectors: every packed string over the symbol alphabet (spec -> code)
    cfgs = ["MCPacked_q.cfg"] if ctx.quick else ["MCPacked_t.cfg", "MCPacked_t2.cfg"]
    vectors = []
    for c in cfgs:
        vectors += _vectors(ctx, sd, c)
    vf = ctx.path("vectors.ndjson")
    seen = set()
    with open(vf, "w") as f:
        for v in vectors:
            k = (tuple(v["inp"]))
            if k in seen:
                continue
            seen.add(k)
            f.write(json.dumps(v) + "\n")
    ctx.log("vectors: %d distinct" % len(seen))
    drv = gobuild.build(ctx, "packedrv")
    rc, out, err = gobuild.run_driver(ctx, drv, ["vectors", vf], timeout=3000)
    if rc != 0:
        raise Inconclusive("packedrv vectors rc=%d: %s" % (rc, err[-2000:]))
    summ, nmis = _collect(ctx, out, "vector")
    ctx.log("vectors replayed: %s mismatches=%d" % (summ, nmis))
    # 3. Pack direction: payload families from TLC + seeded random payloads; TLC unpacks the real output
    pr = tlc.run(ctx, sd, "PackedPayloads", cfg="PackedPayloads.cfg", workers=1, timeout=600)
    pls = pr.tagged("PAYLOAD")
    pf = ctx.path("payloads.ndjson")
    with open(pf, "w") as f:
        for i, p in enumerate(pls):
            f.write(json.dumps({"id": "fam-%d" % i, "payload": p}) + "\n")
    nrand = 150 if ctx.quick else 3000
    tf = os.path.join(sd, "packtrace.ndjson")
    rc, out, err = gobuild.run_driver(ctx, drv, ["pack", pf, tf, str(nrand), str(ctx.seed)], timeout=3000)
    if rc != 0:
        raise Inconclusive("packedrv pack rc=%d: %s" % (rc, err[-2000:]))
    summ2, nmis2 = _collect(ctx, out, "pack")
    ctx.log("pack payloads: %s mismatches=%d" % (summ2, nmis2))
    tr = tlc.run(ctx, sd, "PackedTrace", cfg="PackedTrace.cfg", workers=1, timeout=3000, heap="8g", stack=True)
    cons = tr.tagged("CONSUMED")
    if not cons or cons[0]["n"] != summ2["payloads"]:
        raise Inconclusive("PackedTrace did not consume the whole trace: %s" % cons)
    bad = tr.tagged("PACKBAD")
    with open(tf) as f:
        lines = f.readlines()
    for b in bad:
        rec = json.loads(lines[b["i"] - 1])
        ctx.violation("pack:not-spec-decodable", "TLC's unpacker does not recover payload %s from Pack output" % rec["id"],
                      {"kind": "pack:not-spec-decodable", "rec": rec if len(lines[b["i"] - 1]) < 20000 else rec["id"]})
    ctx.cover(traces_validated_against_impl=summ2["payloads"],
              evaluations=summ["unpack_runs"] + summ["stream_runs"] + summ2["unpack_runs"] + summ2["stream_runs"] + summ2["msg_runs"],
              distinct_nontrivial=len(seen) + summ2["payloads"],
              vectors=len(seen), truncated_vectors=summ["truncated"], vector_end_states=summ["where"],
              reader_modes=summ["modes"], payload_families=len(pls), random_payloads=nrand,
              rule="vectors: every string of <= MaxSteps symbols over the spec alphabet (one per reachable state of spec/packed/Packed.tla), "
                   "distinct by input bytes; each run through Unpack and the streaming Reader in every (chunk, bufio size, read size) mode. "
                   "payloads: TLC-defined run-length families + seeded random payloads, packed by the real Pack, unpacked by TLC (PackedTrace)",
              exhaustive=True,
              checker_cmd="tlc MCPacked (%s); tlc PackedDesign; tlc PackedTrace" % ",".join(cfgs))
    for v in vectors[:2] + vectors[len(vectors) // 2: len(vectors) // 2 + 2]:
        ctx.sample({"vector": v})
    ctx.sample({"payload_family": pls[len(pls) // 2]})
    ctx.assume("TLC evaluates the TLA+ transducer correctly; the driver's run-length expansion of vectors is correct")


def replay(ctx, robj):
    """Re-run a single recorded input through the driver."""
    case = robj["case"]
    drv = gobuild.build(ctx, "packedrv")
    if "inp" in case and case["inp"] is not None:
        sd = tlc.stage(ctx, "packed")
        # recompute the spec verdict for this input with TLC
        mod = "---- MODULE One ----\nEXTENDS PackedCore, SequencesExt\nInp == %s\nVARIABLE d\nInit == d = FALSE\nNext == ~d /\\ d' = TRUE /\\ LET s == FoldLeft(Step, S0, Inp) IN PrintT(<<\"VECTOR\", ToJson([inp |-> Inp, out |-> s.out, complete |-> Complete(s), where |-> s.mode])>>)\nSpec == Init /\\ [][Next]_d\n====\n" % (
            "<<" + ",".join(str(x) for x in case["inp"]) + ">>")
        with open(os.path.join(sd, "One.tla"), "w") as f:
            f.write(mod)
        with open(os.path.join(sd, "One.cfg"), "w") as f:
            f.write("SPECIFICATION Spec\nCHECK_DEADLOCK FALSE\n")
        r = tlc.run(ctx, sd, "One", cfg="One.cfg", workers=1, timeout=600, stack=True)
        vs = r.tagged("VECTOR")
        vf = ctx.path("one.ndjson")
        with open(vf, "w") as f:
            f.write(json.dumps(vs[0]) + "\n")
        rc, out, err = gobuild.run_driver(ctx, drv, ["vectors", vf], timeout=600)
        _collect(ctx, out, "replay")
    else:
        raise Inconclusive("replay of this case kind is not supported; re-run the check")
