"""C14 - stream framing is exact and decoding is bounded by the configured limits.

spec/framing: Framing (decoder results as a function of the bytes and the
limit; generator of message sequences x every cut byte x limits x reuse),
HostileHdr (hostile header words with reaction class and allocation bound),
FrameTrace (TLC parses the real Encoder output)."""
import json
import os
import shutil

from vlib import tlc, gobuild
from vlib.core import Inconclusive, VERIF

LEVEL = "model_checking"


def run(ctx):
    sd = tlc.stage(ctx, "framing")
    shutil.copy(os.path.join(VERIF, "spec", "enc", "FrameCore.tla"), sd)
    r = tlc.run(ctx, sd, "MCFraming", cfg="Framing_q.cfg" if ctx.quick else "Framing_t.cfg", workers=12, timeout=3400, heap="12g")
    cases = r.tagged("CASE")
    if not cases:
        raise Inconclusive("Framing produced no cases")
    cf = ctx.path("cases.ndjson")
    with open(cf, "w") as f:
        for c in cases:
            f.write(json.dumps(c) + "\n")
    ctx.log("Framing: %d cases" % len(cases))
    rh = tlc.run(ctx, sd, "HostileHdr", cfg="HostileHdr.cfg", workers=1, timeout=900)
    hostile = rh.tagged("HOSTILE")
    hf = ctx.path("hostile.ndjson")
    with open(hf, "w") as f:
        for c in hostile:
            f.write(json.dumps(c) + "\n")
    drv = gobuild.build(ctx, "framedrv")
    sf = os.path.join(sd, "streams.ndjson")
    viol = 0
    summs = []
    for args, what in ((["cases", cf, sf], "cases"), (["hostile", hf], "hostile")):
        rc, out, err = gobuild.run_driver(ctx, drv, args, timeout=3400)
        if rc != 0:
            raise Inconclusive("framedrv %s died rc=%d: %s" % (what, rc, err[-2000:]))
        summ = None
        for ln in out.splitlines():
            if ln.startswith("{"):
                m = json.loads(ln)
                if m.get("summary"):
                    summ = m
                    continue
                case = m.get("case") or {}
                sig = "%s:%s" % (m["what"], (case.get("exp") or {}).get("end", "") if isinstance(case.get("exp"), dict) else case.get("exp", ""))
                ctx.violation(sig, "%s: got %s want %s %s case=%s" % (m["what"], m.get("got"), m.get("want"), m.get("complaint", ""),
                                                                     json.dumps({k: v for k, v in case.items() if k != "stream"})[:500]), m)
        if not summ:
            raise Inconclusive("framedrv %s: no summary" % what)
        summs.append(summ)
        ctx.log("framedrv %s: %s" % (what, summ))
    rt = tlc.run(ctx, sd, "FrameTrace", cfg="FrameTrace.cfg", workers=1, timeout=1800, stack=True)
    cons = rt.tagged("CONSUMED")
    if not cons or cons[0]["n"] != summs[0]["streams"]:
        raise Inconclusive("FrameTrace did not consume all streams")
    for b in rt.tagged("STREAMBAD"):
        ctx.violation("encoder-stream", "TLC cannot parse the Encoder's output as the frames of %s" % b["shapes"], b)
    st0, st1 = summs[0]["stats"], summs[1]["stats"]
    ctx.cover(states=r.distinct + rh.distinct + rt.distinct, transitions=r.generated + rt.generated,
              traces_validated_against_impl=summs[0]["streams"],
              evaluations=st0.get("decodes", 0) + st0.get("packed_decodes", 0) + st0.get("unmarshals", 0) + st1.get("decodes", 0) + st1.get("unmarshals", 0),
              distinct_nontrivial=len(cases) + len(hostile), cases=len(cases), hostile_headers=len(hostile), streams=summs[0]["streams"],
              rule="cases = message sequences (shapes of 1-4 segments of 0-3 words) x every cut byte x MaxMessageSize values x reuse, each decoded with "
                   "chunk sizes 1,3,8,4096; packed streams cut at every byte; hostile = segment-count words x size words x short bodies x limits, "
                   "decoded with and without reuse under an allocation meter (GC off); Unmarshal allocation <= 64 x input + 4 KiB",
              exhaustive=True)
    ctx.sample(cases[len(cases) // 2])
    ctx.sample(hostile[len(hostile) // 3])
    ctx.assume("allocation is measured as runtime.MemStats.TotalAlloc delta with the GC disabled; the bound is gross (limit + 64 KiB)")


def replay(ctx, robj):
    raise Inconclusive("re-run bin/check C14; the failing case is recorded in the replay file")
