"""C07 - RPC capability references are counted exactly; nothing leaks or double-frees.

Same scripts, driver and trace specification as C06 (spec/rpc/RpcTrace.tla); this
check reports the rejections at reference-counting events: Shutdown of an
instrumented capability while something still holds it (or twice), a capability
nobody holds that was not shut down by the next quiescent point, a Release for
an import with the wrong count or while a local reference is live, an import
never released, capabilities not all shut down exactly once after Close."""
from props import c06, rpcpipe

LEVEL = "model_checking"


def run(ctx):
    res = c06.collect(ctx)
    c06.report(ctx, res, lambda key: key in rpcpipe.C07_EVENTS, "C06")
    import os
    if os.environ.get("VERIF_RPC_ONLY") in (None, "", "wire"):
        c06.wire_phase(ctx, res, lambda sig: sig.startswith(c06.WIRE_C07))


replay = c06.replay
