"""Shared pipeline of C15 / C19: build capnpc-go from the working tree, run it on
code-generator requests, overlay the generated packages into the module, derive the
table of struct types from the generated code, build layoutdrv, and let TLC
judge the recorded accessor effects against spec/layout/Layout.tla."""
import json
import os
import re
import shutil
import subprocess

from vlib import tlc, gobuild
from vlib.core import Inconclusive, sh, GOENV

# stored requests of the repository that are meant to generate (const: package name is a keyword, go: no import annotation)
REQUESTS = ["aircraft", "group", "rpc", "scopes", "util"]
# packages linked into the driver (their schemas must not collide with packages the driver imports otherwise)
DRIVEN = ["aircraft", "rpc", "group", "util"]
# scopes imports a package (otherscopes) whose request is not stored: generated, not compiled
COMPILED = ["aircraft", "rpc", "group", "util"]


def build_generator(ctx):
    out = ctx.path("capnpc-go")
    r = sh(["go", "build", "-o", out, "./capnpc-go"], cwd=ctx.repo, timeout=600)
    if r.returncode != 0:
        raise Inconclusive("capnpc-go does not build: " + r.stderr[-2000:])
    return out


def generate(ctx, gen, reqfile, tag, env=None):
    """Run the generator on one request; returns {relative path: bytes} or raises."""
    d = ctx.path("gen-" + tag)
    shutil.rmtree(d, ignore_errors=True)
    os.makedirs(d)
    e = dict(os.environ)
    e.update(env or {})
    with open(reqfile, "rb") as f:
        p = subprocess.run([gen], stdin=f, stdout=subprocess.PIPE, stderr=subprocess.PIPE, cwd=d, env=e, timeout=300)
    files = {}
    for root, _, fns in os.walk(d):
        for fn in fns:
            full = os.path.join(root, fn)
            with open(full, "rb") as f:
                files[os.path.relpath(full, d)] = f.read()
    return p.returncode, p.stderr.decode("utf-8", "replace"), files, d


def overlay_generated(ctx, name, gdir, files):
    """Map generated files of one request to internal/verifh/gen_<name>/."""
    repl = {}
    for rel in files:
        if rel.endswith(".go"):
            repl[os.path.join(ctx.repo, "internal", "verifh", "gen_" + name, os.path.basename(rel))] = os.path.join(gdir, rel)
    return repl


def types_table(ctx, pkgs):
    """pkgs: {name: generated source text}; writes types_gen.go for layoutdrv."""
    lines = ["package main", "", "import (", '\t"reflect"', "", '\tcapnp "capnproto.org/go/capnp/v3"']
    for name in sorted(pkgs):
        lines.append('\tg_%s "capnproto.org/go/capnp/v3/internal/verifh/gen_%s"' % (name, name))
    lines += [")", "", "func init() {"]
    n = 0
    for name in sorted(pkgs):
        for m in re.finditer(r"^func NewRoot(\w+)\(s \*capnp\.Segment\)", pkgs[name], re.M):
            t = m.group(1)
            if ("const %s_TypeID" % t) not in pkgs[name]:
                continue
            lines.append('\ttypes = append(types, typ{"%s.%s", g_%s.%s_TypeID, func(seg *capnp.Segment) (capnp.Struct, reflect.Value) {' % (name, t, name, t))
            lines.append('\t\tx, err := g_%s.NewRoot%s(seg)' % (name, t))
            lines.append('\t\tif err != nil {\n\t\t\tpanic(err)\n\t\t}')
            lines.append('\t\treturn x.Struct, reflect.ValueOf(x)')
            lines.append('\t}})')
            n += 1
    lines.append("}")
    p = ctx.path("types_gen.go")
    with open(p, "w") as f:
        f.write("\n".join(lines) + "\n")
    return p, n


def generated_request(ctx, every=1, big=False):
    """TLC (SchemaGen) -> struct layouts -> CodeGeneratorRequest built by harness/reqgen.  Returns (name, path, stats)."""
    sd = tlc.stage(ctx, "layout")
    r = tlc.run(ctx, sd, "SchemaGen", cfg="SchemaGen.cfg", workers=4, timeout=900)
    structs = r.tagged("STRUCT")
    if not structs:
        raise Inconclusive("SchemaGen produced no structs")
    structs.sort(key=lambda s: json.dumps(s, sort_keys=True))
    total = len(structs)
    if every > 1:
        structs = [s for i, s in enumerate(structs) if (i + ctx.seed) % every == 0]
    if big and structs:
        # size boundaries of the struct node itself (the wire format allows 65535 data words and 65535 pointers): the same
        # fields in a struct that declares a data / pointer section at the 16-bit arithmetic boundaries of byte counts
        base = [s for s in structs if s.get("fields")][:2] or structs[:1]
        for b in base:
            for dw, pc in ((8191, b["ptrs"]), (8192, b["ptrs"]), (8193, b["ptrs"]), (65535, b["ptrs"]), (b["dataWords"], 65535), (8193, 8193)):
                structs.append(dict(b, dataWords=max(dw, b["dataWords"]), ptrs=max(pc, b["ptrs"])))
    sf = ctx.path("structs.ndjson")
    with open(sf, "w") as f:
        for s in structs:
            f.write(json.dumps(s) + "\n")
    drv = gobuild.build(ctx, "reqgen")
    rq = ctx.path("gen.capnp.out")
    rc, out, err = gobuild.run_driver(ctx, drv, [sf, rq, "gen"], timeout=600)
    if rc != 0:
        raise Inconclusive("reqgen died rc=%d: %s" % (rc, err[-2000:]))
    ctx.log("SchemaGen: %d layouts (consistent: TLC invariant), %d used" % (total, len(structs)))
    return ("gen", rq), {"layouts": total, "used": len(structs), "states": r.distinct, "generated": r.generated}


def prepare(ctx, extra_requests=None):
    """Generate everything; returns (overlay dict, {name: source}, generator path, per-request results)."""
    gen = build_generator(ctx)
    results = {}
    overlay = {}
    srcs = {}
    reqs = [(n, os.path.join(ctx.repo, "capnpc-go", "testdata", n + ".capnp.out")) for n in REQUESTS]
    reqs += list(extra_requests or [])
    for name, rf in reqs:
        rc, err, files, gdir = generate(ctx, gen, rf, name)
        results[name] = {"rc": rc, "stderr": err, "files": files, "dir": gdir, "request": rf}
        if rc == 0:
            overlay.update(overlay_generated(ctx, name, gdir, files))
            for rel, data in files.items():
                if rel.endswith(".go"):
                    srcs[name] = data.decode("utf-8", "replace")
    return gen, overlay, srcs, results


def compile_generated(ctx, overlay, names):
    """go build (and vet-free type check) of each generated package; returns {name: error text or None}."""
    ov = ctx.path("overlay-gen.json")
    with open(ov, "w") as f:
        json.dump({"Replace": overlay}, f)
    res = {}
    for n in names:
        r = sh(["go", "build", "-overlay", ov, "./internal/verifh/gen_" + n], cwd=ctx.repo, timeout=3000)
        res[n] = None if r.returncode == 0 else (r.stdout + r.stderr)[-3000:]
    return res


def drive(ctx, mode, overlay, srcs, driven, trace="layouttrace.ndjson"):
    """Build layoutdrv with the generated packages and run it; returns (summary, path of trace)."""
    tg, ntypes = types_table(ctx, {n: srcs[n] for n in driven})
    ex = dict(overlay)
    ex[os.path.join(ctx.repo, "internal", "verifh", "layoutdrv", "types_gen.go")] = tg
    try:
        drv = gobuild.build(ctx, "layoutdrv", extra_overlay=ex)
    except Inconclusive as exn:
        # which generated package does not compile?  (decided per package by the caller)
        exn.generated_compile = compile_generated(ctx, overlay, driven)
        raise
    sd = tlc.stage(ctx, "layout")
    tf = os.path.join(sd, trace)
    rc, out, err = gobuild.run_driver(ctx, drv, [mode, tf], timeout=3400)
    if rc != 0:
        raise Inconclusive("layoutdrv %s died rc=%d: %s" % (mode, rc, err[-3000:]))
    summ = None
    for ln in out.splitlines():
        if ln.startswith("{"):
            m = json.loads(ln)
            if m.get("summary"):
                summ = m
    if not summ:
        raise Inconclusive("layoutdrv: no summary")
    return summ, sd, tf


def judge(ctx, sd, tf, summ):
    """TLC over the trace; returns (TlcResult, list of (bad, record))."""
    rt = tlc.run(ctx, sd, "Layout", cfg="Layout.cfg", workers=1, timeout=3400, heap="12g", stack=True)
    cons = rt.tagged("CONSUMED")
    if not cons or cons[0]["n"] != summ["lines"]:
        raise Inconclusive("Layout consumed %s of %d lines" % (cons, summ["lines"]))
    bad = rt.tagged("LAYOUTBAD")
    out = []
    if bad:
        with open(tf) as f:
            lines = f.readlines()
        for b in bad:
            out.append((b, json.loads(lines[b["line"] - 1])))
    return rt, out
