"""C02 - traversal and depth limits bound all work done on a hostile message.

spec/limit: ReadLimit (budget as load / CAS steps: design check, plus the
deliberately broken plain-store variant as non-vacuity control),
ReadLimitSched (the same at the granularity of the canRead yield gate:
generates the interleavings forced on the real code), LimitWalk (access paths
over EncGen messages with per-step charges and three-valued expectations for
every boundary budget and depth limit)."""
import json
import os
import shutil

from vlib import tlc, gobuild
from vlib.core import Inconclusive, VERIF
from props import c03

LEVEL = "model_checking"


def stage(ctx):
    sd = tlc.stage(ctx, "limit")
    shutil.copy(os.path.join(VERIF, "spec", "enc", "CapnpSem.tla"), sd)
    return sd


def collect(ctx, out, what, sigf):
    summ = None
    for ln in out.splitlines():
        if ln.startswith("{"):
            m = json.loads(ln)
            if m.get("summary"):
                summ = m
            else:
                ctx.violation(sigf(m), "%s: %s" % (what, json.dumps({k: v for k, v in m.items() if k not in ("segs", "steps", "hist")})[:700]), m)
    if summ is None:
        raise Inconclusive("driver produced no summary (%s)" % what)
    return summ


def run(ctx):
    sd = stage(ctx)
    # 1. design: budget conservation under all interleavings; the broken variant must violate it
    r1 = tlc.run(ctx, sd, "ReadLimit", cfg="ReadLimit.cfg", workers=12, timeout=1800)
    r2 = tlc.run(ctx, sd, "ReadLimit", cfg="ReadLimitBroken.cfg", workers=4, timeout=600, allow_violation=True)
    if r2.invariant not in ("Conservation", "Bounded", "NonNegative"):
        raise Inconclusive("non-vacuity control failed: the plain-store variant does not violate Conservation")
    ctx.log("ReadLimit design: %d states; broken variant violates %s as expected" % (r1.distinct, r2.invariant))
    # 1b. the budget invariant is inductive for unbounded budgets/sizes (Apalache, one step): design-level, never a verdict on the code
    import subprocess
    try:
        ap = subprocess.run(["apalache-mc", "check", "--cinit=CInit", "--init=IndInit", "--inv=IndInv", "--length=1",
                             "--out-dir=" + ctx.path("apalache"), "ReadLimitInd.tla"], cwd=sd, stdout=subprocess.PIPE,
                            stderr=subprocess.STDOUT, text=True, timeout=600)
        if "EXITCODE: OK" in ap.stdout:
            ctx.cover(apalache_inductive_invariant="granted + rlimit <= T /\\ rlimit >= 0 holds inductively (unbounded T, sizes)")
        else:
            ctx.note("Apalache inductive check did not succeed (design-level only): " + ap.stdout[-300:])
    except Exception as ex:  # tool trouble is not a verdict
        ctx.note("Apalache not run: %s" % ex)
    # 2. forced interleavings of concurrent readers
    cfgs = [(32, "{8, 16, 24}", 2)] if ctx.quick else [(32, "{8, 16, 24}", 2), (24, "{0, 8, 16}", 2), (40, "{8, 24}", 3)]
    scheds = []
    states = r1.distinct
    trans = r1.generated
    for i, (t, sizes, maxreads) in enumerate(cfgs):
        cfg = "Sched%d.cfg" % i
        with open(os.path.join(sd, cfg), "w") as f:
            f.write("SPECIFICATION Spec\nCONSTANTS\n  Readers = {1, 2}\n  Sizes = %s\n  T = %d\n  MaxReads = %d\nINVARIANTS Conservation Emit\nCHECK_DEADLOCK FALSE\n" % (sizes, t, maxreads))
        r = tlc.run(ctx, sd, "ReadLimitSched", cfg=cfg, workers=12, timeout=3000, heap="8g")
        scheds += r.tagged("SCHED")
        states += r.distinct
        trans += r.generated
    sf = ctx.path("scheds.ndjson")
    with open(sf, "w") as f:
        for s in scheds:
            f.write(json.dumps(s) + "\n")
    ctx.log("ReadLimitSched: %d terminated interleavings" % len(scheds))
    drv = gobuild.build(ctx, "limitdrv", also=["vwalk"])
    rc, out, err = gobuild.run_driver(ctx, drv, ["cas", sf], timeout=3000)
    if rc != 0:
        raise Inconclusive("limitdrv cas died: %s" % err[-2000:])
    s1 = collect(ctx, out, "concurrent readers", lambda m: "cas:" + m["what"])
    ctx.log("forced interleavings: %s" % s1)
    # 3. walks over EncGen messages
    sde = tlc.stage(ctx, "enc")
    mf = ctx.path("msgs.ndjson")
    gen_cfg = [("L1", 2, 1), ("L2", 3, 0)] if ctx.quick else [("L1", 3, 1), ("L2", 3, 1), ("L3", 3, 0), ("L2", 4, 0)]
    c03.generate(ctx, sde, gen_cfg, mf)
    # keep messages whose root is a valid struct or list (something to walk)
    lm = os.path.join(sd, "limitmsgs.ndjson")
    keep = 0
    cyc = ctx.path("cyclic.ndjson")
    ncyc = 0
    with open(mf) as f, open(lm, "w") as g, open(cyc, "w") as h:
        for ln in f:
            m = json.loads(ln)
            if m["val"]["t"] in ("struct", "list"):
                g.write(json.dumps({"segs": m["segs"]}) + "\n")
                keep += 1
            if '"depth"' in ln:
                h.write(ln)
                ncyc += 1
    with open(os.path.join(sd, "LimitWalk.cfg"), "w") as f:
        f.write("SPECIFICATION Spec\nCONSTANTS\n  MaxSteps = %d\n  Ds = %s\nINVARIANT Emit\nCHECK_DEADLOCK FALSE\n" % (
            4 if ctx.quick else 6, "{1, 2, 3}" if ctx.quick else "{1, 2, 3, 4, 5}"))
    r = tlc.run(ctx, sd, "LimitWalk", cfg="LimitWalk.cfg", workers=12, timeout=3400, heap="12g", stack=True)
    walks = r.tagged("WALK")
    states += r.distinct
    trans += r.generated
    wf = ctx.path("walks.ndjson")
    with open(wf, "w") as f:
        for w in walks:
            f.write(json.dumps(w) + "\n")
    ctx.log("LimitWalk: %d messages, %d walks" % (keep, len(walks)))
    rc, out, err = gobuild.run_driver(ctx, drv, ["walk", lm, wf], timeout=3400)
    if rc != 0:
        raise Inconclusive("limitdrv walk died: %s" % err[-2000:])
    s2 = collect(ctx, out, "walk", lambda m: "walk:%s:%s:%s" % (m["what"], m.get("how"), m.get("kind")))
    ctx.log("walks replayed: %s" % s2)
    # 4. recursive consumers on cyclic / deep messages with small limits (termination, bounded stack)
    if ctx.violations:
        ctx.note("recursive-consumer phase skipped: violations were already found by the walk / interleaving phases")
        rc, out, err = 0, '{"summary": true, "messages": 0, "stats": {}}', ""
    else:
        wf2 = os.path.join(sd, "consumerwork.ndjson")
        rc, out, err = gobuild.run_driver(ctx, drv, ["consumers", cyc, wf2], timeout=3400)
        if rc == 0:
            # the work bound of the depth limit, judged by TLC (spec/limit/ConsumerBound.tla)
            with open(wf2) as f:
                wlines = f.readlines()
            if wlines:
                rw = tlc.run(ctx, sd, "ConsumerBound", cfg="ConsumerBound.cfg", workers=1, timeout=1800, stack=True)
                cons = rw.tagged("CONSUMED")
                if not cons or cons[0]["n"] != len(wlines):
                    raise Inconclusive("ConsumerBound consumed %s of %d records" % (cons, len(wlines)))
                states += rw.distinct
                seenw = set()
                for b in rw.tagged("WORKBAD"):
                    rec = json.loads(wlines[b["line"] - 1])
                    key = (rec["consumer"], b["what"])
                    if key in seenw:
                        continue
                    seenw.add(key)
                    ctx.violation("consumers:work:%s" % rec["consumer"], "%s: %s on a message of %d words with DepthLimit %d and TraverseLimit %d used %d bytes of budget and produced %d bytes" % (
                        b["what"], rec["consumer"], rec["w"], rec["d"], rec["t"], rec["used"], rec["produced"]), rec)
                ctx.cover(consumer_work_records=len(wlines))
    if rc != 0:
        ctx.violation("consumers:fatal", "recursive consumer killed the process on a cyclic message with small limits: %s" % err[:1500], {"stderr": err[:4000]})
        s3 = {"messages": ncyc, "stats": {}}
    else:
        s3 = collect(ctx, out, "consumer", lambda m: "consumers:%s:%s" % (m["what"], m.get("consumer")))
    ctx.log("consumers on %d cyclic/deep messages: %s" % (ncyc, s3))
    ctx.cover(states=states, transitions=trans, traces_validated_against_impl=len(scheds) + len(walks),
              evaluations=s2["stats"].get("derefs", 0) + s1["stats"].get("events", 0) + s3["stats"].get("consumer_runs", 0),
              distinct_nontrivial=len(walks) + len(scheds), walks=len(walks), walk_runs=s2["stats"].get("runs", 0),
              interleavings_forced=len(scheds), cyclic_messages=ncyc,
              rule="walks: every access path of <= MaxSteps over EncGen messages x every depth limit x every boundary budget (prefix sums of charges, +-8); "
                   "interleavings: every terminated behaviour of ReadLimitSched (2 readers, 2-3 reads) forced through the canRead yield gate; "
                   "consumers: walk/Equal/Canonicalize/deep copy/text on every message whose value is cyclic or deeper than 6, T in {64,4096,2^16,2^22}, D in {1,2,5,64}; budget used and bytes produced by Equal/Canonicalize/deep copy/text against the bound of ConsumerBound.tla",
              exhaustive=True)
    if walks:
        ctx.sample({"walk": walks[len(walks) // 2]})
    if scheds:
        ctx.sample({"schedule": scheds[len(scheds) // 2]})
    ctx.assume("the verif-tagged yield hook between load and CAS does not change behaviour when no function is installed")


def replay(ctx, robj):
    raise Inconclusive("re-run bin/check C02; the failing walk/schedule is recorded in the replay file")
