"""C15 - generated accessors implement exactly the layout the schema declares.

spec/layout/Layout.tla states what a field descriptor of a schema node means on
the bytes of a struct (bit range, default as XOR mask, discriminant, pointer
slot, nothing else).  The check builds capnpc-go from the working tree, runs it
on code-generator requests (the repository's stored ones and requests built from
TLC-generated schemas), requires the output to compile and to be byte-identical
across runs, links the generated packages into a driver that calls every
generated setter / getter / Has / New / Which through reflection on crafted
bytes, and lets TLC judge every recorded effect against the schema node."""
import hashlib
import os

from props import layoutpipe as lp
from vlib.core import Inconclusive

LEVEL = "model_checking"


def run(ctx):
    greq, gstats = lp.generated_request(ctx, every=8 if ctx.quick else 3, big=True)
    gen, overlay, srcs, results = lp.prepare(ctx, extra_requests=[greq])
    # the requests that are meant to generate do generate
    for n in lp.REQUESTS + ["gen"]:
        if results[n]["rc"] != 0:
            ctx.violation("generate:" + n, "capnpc-go fails on request %s: %s" % (n, results[n]["stderr"][-400:]), {"request": results[n]["request"]})
    # byte-identical output: again, in other environments (map iteration order is random per process)
    runs = 3 if ctx.quick else 12
    for n in lp.REQUESTS + ["gen"]:
        if results[n]["rc"] != 0:
            continue
        want = {k: hashlib.sha256(v).hexdigest() for k, v in results[n]["files"].items()}
        for i in range(runs):
            rc, err, files, _ = lp.generate(ctx, gen, results[n]["request"], "%s-again" % n, env={"GOMAXPROCS": str(1 + i % 4)})
            got = {k: hashlib.sha256(v).hexdigest() for k, v in files.items()}
            if rc != 0 or got != want:
                ctx.violation("determinism:" + n, "request %s: run %d produced different output (rc=%d)" % (n, i + 2, rc), {"request": results[n]["request"], "first": want, "again": got})
                break
    ok = [n for n in lp.REQUESTS + ["gen"] if results[n]["rc"] == 0]
    driven = [n for n in lp.DRIVEN + ["gen"] if n in ok]
    if not driven:
        raise Inconclusive("no generated package to drive")
    try:
        # building the driver compiles every generated package
        summ, sd, tf = lp.drive(ctx, "gen", overlay, srcs, driven)
    except Inconclusive as exn:
        comp = getattr(exn, "generated_compile", None)
        if not comp or not any(comp.values()):
            raise
        for n, err in comp.items():
            if err:
                ctx.violation("compile:" + n, "generated code for request %s does not compile: %s" % (n, err[-600:]), {"request": results[n]["request"], "error": err})
        return
    rt, bad = lp.judge(ctx, sd, tf, summ)
    for b, rec in bad:
        cls = "%s:%s:%s" % (rec["k"], rec["type"], rec["field"])
        ctx.violation(cls, "%s: %s.%s (%s) %s" % (b["what"], rec["type"], rec["field"], rec["k"], rec.get("what", "")), {"what": b["what"], "record": rec})
    ctx.cover(states=rt.distinct, transitions=rt.generated, traces_validated_against_impl=summ["lines"], evaluations=summ["lines"],
              distinct_nontrivial=summ["types"], struct_types=summ["types"], records=summ["counts"], requests=ok, determinism_runs=runs + 1, generated_layouts=gstats,
              rule="every struct type of the generated packages %s; every field, descending into groups: each setter with 2-5 boundary values on all-zero and all-one "
                   "backgrounds with marker pointers in every slot; each getter after the setter and on a byte pattern; New/Set and Has of every pointer field; "
                   "Which on 4 raw discriminants; allocation sizes; generator output compared across %d runs and compiled" % (driven, runs + 1),
              exhaustive=False)
    ctx.sample({"types": summ["types"], "counts": summ["counts"]})
    ctx.assume("schemas = the repository's stored code-generator requests (aircraft, rpc, group, scopes, util); the capnp compiler itself is not available offline")
