"""Wire-level trace validation of real connections (part of C06 / C07).

Traces come from the tracing transport of the verif build (hook verifWrapTransport): (1) the repository's own rpc
tests, run with CAPNP_VERIF_TRACE set; (2) harness/rpcstress: two real Conns joined by a pipe under seeded concurrent
workloads.  Every connection end is one execution; spec/rpc/RpcWire.tla validates each."""
import collections
import json
import os
import re

from vlib import tlc, gobuild
from vlib.core import Inconclusive, sh


def split(tracefile, sync=False):
    """Executions (one per connection end).  The synchronisation events of the verif build (dir = "sync") belong to
    RpcSync (props/rpcsync.py); the wire specification sees messages only."""
    by = collections.defaultdict(list)
    with open(tracefile) as f:
        for ln in f:
            try:
                e = json.loads(ln)
            except ValueError:
                continue        # a line cut short by a dying process
            if e.get("dir") == "sync" and not sync:
                continue
            by[(e["pid"], e["conn"])].append(e)
    out = []
    for k in sorted(by):
        out.append([{"dir": "reset", "pid": k[0], "conn": k[1]}] + sorted(by[k], key=lambda e: e["seq"]))
    return out


def validate(ctx, sd, execs):
    """Returns (rejected [(event, execution, position)], states)."""
    tf = os.path.join(sd, "rpcwire.ndjson")
    rej, states = [], 0
    while execs:
        with open(tf, "w") as f:
            for ex in execs:
                for e in ex:
                    f.write(json.dumps(e) + "\n")
        rt = tlc.run(ctx, sd, "RpcWire", cfg="RpcWire.cfg", workers=1, timeout=3000, heap="8g", allow_violation=True, dfs_queue=True)
        states += rt.distinct
        bad = [ln for ln in rt.out.splitlines() if "REJECTED_AT_LINE" in ln]
        if rt.ok and not bad:
            break
        if not bad:
            raise Inconclusive("RpcWire failed without naming a line:\n%s" % rt.out[-2500:])
        at = int(re.search(r"REJECTED_AT_LINE\"?,\s*(\d+)", bad[0]).group(1))
        n = 0
        for i, ex in enumerate(execs):
            if at <= n + len(ex):
                rej.append((ex[at - n - 1], ex, at - n - 1))
                del execs[i]
                break
            n += len(ex)
        else:
            raise Inconclusive("RpcWire rejected line %d beyond the trace" % at)
        if len(rej) >= 20:
            break
    return rej, states


def repo_tests(ctx, sd):
    """go test -tags verif ./rpc with tracing on."""
    tf = ctx.path("wire-repo-tests.ndjson")
    if os.path.exists(tf):
        os.remove(tf)
    r = sh(["go", "test", "-tags", "verif", "-vet=off", "-count=1", "./rpc"], cwd=ctx.repo, timeout=900, env={"CAPNP_VERIF_TRACE": tf})
    if r.returncode != 0 or not os.path.exists(tf):
        # the suite failing is not this check's verdict (the baseline command decides that); no traces, nothing to validate
        ctx.note("go test ./rpc (verif build) did not pass or wrote no trace: %s" % (r.stdout + r.stderr)[-300:])
        return [], 0
    execs = split(tf)
    return execs, sum(len(x) - 1 for x in execs)


def stress(ctx, rounds, workers, ops):
    drv = gobuild.build(ctx, "rpcstress")
    tf = ctx.path("wire-stress.ndjson")
    if os.path.exists(tf):
        os.remove(tf)
    rc, out, err = gobuild.run_driver(ctx, drv, [str(rounds), str(workers), str(ops)], timeout=3000, env={"CAPNP_VERIF_TRACE": tf})
    problems, summ = [], None
    for ln in out.splitlines():
        if ln.startswith("{"):
            m = json.loads(ln)
            if m.get("summary"):
                summ = m
            else:
                problems.append(m)
    if rc not in (0, 3):
        frames = [ln for ln in err.splitlines() if ln.startswith("capnproto.org/go/capnp/v3/") and "verifh" not in ln]
        head = [ln for ln in err.splitlines() if ln.startswith("panic:") or ln.startswith("fatal error:")]
        if not frames:
            raise Inconclusive("rpcstress died outside library code: %s" % err[-3000:])
        problems.append({"what": "process-died", "head": head[0] if head else "rc%d" % rc, "frame": frames[0].split("(")[0], "stderr": err[-4000:]})
    elif rc == 0 and not summ:
        raise Inconclusive("rpcstress: no summary")
    execs = split(tf) if os.path.exists(tf) else []
    return execs, problems, summ or {}


def brief(e):
    return {k: v for k, v in e.items() if v not in ("", -1, 0, False, []) and k not in ("pid",)}


def run(ctx, sd, quick):
    """Returns dict(violations=[(sig, text, obj)], cover={...})."""
    viol = []
    ex1, n1 = repo_tests(ctx, sd)
    ex2, problems, summ = stress(ctx, 60 if quick else 600, 3, 25 if quick else 40)
    n2 = sum(len(x) - 1 for x in ex2)
    for p in problems:
        frame = ""
        if p.get("dump"):
            lib = [ln.split("(")[0] for ln in p["dump"].splitlines() if ln.startswith("capnproto.org/go/capnp/v3") and "verifh" not in ln]
            frame = "+".join(sorted(set(x.rsplit("/", 1)[-1] for x in lib))[:3])
        viol.append(("stress:%s:%s" % (p["what"], p.get("op") or p.get("head", "")[:50] or frame), "two real connections under a concurrent workload: %s" % json.dumps({k: v for k, v in p.items() if k != "dump"})[:600] + ("\n" + p["dump"][:2500] if p.get("dump") else ""), p))
    rej, states = validate(ctx, sd, ex1 + ex2)
    for off, ex, pos in rej:
        viol.append(("wire:%s:%s:%s" % (off.get("dir"), off.get("m"), off.get("kind", "")),
                     "the wire history of connection end %s/%s is not a behaviour of RpcWire: first unexplained message #%d %s; history=%s" % (
                         ex[0].get("pid"), ex[0].get("conn"), pos, json.dumps(brief(off)), json.dumps([brief(e) for e in ex[max(1, pos - 25):pos + 1]])[:3000]),
                     {"trace": ex[:pos + 1], "rejected_at": pos}))
    if summ and summ.get("capabilities_created") != summ.get("capabilities_shut_down"):
        viol.append(("stress:capabilities-not-shut-down", "after both connections were closed and every reference dropped, %s capabilities were created but %s shut down" % (
            summ.get("capabilities_created"), summ.get("capabilities_shut_down")), summ))
    cov = dict(wire_connection_ends=len(ex1) + len(ex2) + len(rej), wire_messages=n1 + n2, wire_messages_repo_tests=n1, wire_rejected=len(rej),
               stress=summ, wire_states=states)
    return dict(violations=viol, cover=cov, states=states)
