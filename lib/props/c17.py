"""C17 - Equal is exactly the documented structural equality.

spec/enc/ValGen.tla: ValEq transcribes the documentation of capnp.Equal on value
trees; TLC enumerates values to a nesting depth and, for each, its one-edit
neighbours (one bit / one element / one trailing word / list-kind upgrades /
extra null or zero fields) and prints (a, b, ValEq(a, b)).  The driver builds a
and b through the builder API in different arenas and build orders and calls
Equal both ways, on a itself, on a deep copy and on a re-encoding."""
import json
import os

from vlib import tlc, gobuild
from vlib.core import Inconclusive

LEVEL = "model_checking"


def gen(ctx, sd, depth, mode, tag):
    cfg = "ValGen_%s%d.cfg" % (mode, depth)
    with open(os.path.join(sd, cfg), "w") as f:
        f.write('SPECIFICATION Spec\nCONSTANTS\n  Depth = %d\n  Mode = "%s"\nINVARIANTS Reflexive Symmetric CanonSound CanonLayoutIndependent %s\nCHECK_DEADLOCK FALSE\n'
                % (depth, mode, "EmitEq" if mode == "eq" else "EmitCanon"))
    r = tlc.run(ctx, sd, "ValGen", cfg=cfg, workers=12, timeout=3400, heap="12g", stack=True)
    return r.tagged(tag), r


def run(ctx):
    sd = tlc.stage(ctx, "enc")
    depth = 2 if ctx.quick else 3
    pairs, r = gen(ctx, sd, depth, "eq", "PAIR")
    if not pairs:
        raise Inconclusive("ValGen produced no pairs")
    seen = set()
    pf = ctx.path("pairs.ndjson")
    n = 0
    counts = {"yes": 0, "no": 0, "either": 0}
    with open(pf, "w") as f:
        for p in pairs:
            k = json.dumps([p["a"], p["b"]], sort_keys=True)
            if k in seen:
                continue
            seen.add(k)
            counts[p["eq"]] += 1
            f.write(json.dumps(p) + "\n")
            n += 1
    ctx.log("ValGen depth %d: %d values, %d distinct pairs %s" % (depth, r.distinct, n, counts))
    drv = gobuild.build(ctx, "encval")
    rc, out, err = gobuild.run_driver(ctx, drv, ["eq", pf], timeout=3400)
    if rc != 0:
        raise Inconclusive("encval died rc=%d: %s" % (rc, err[-3000:]))
    summ = None
    for ln in out.splitlines():
        if ln.startswith("{"):
            m = json.loads(ln)
            if m.get("summary"):
                summ = m
                continue
            ka = m["a"].get("k", "") if m["a"]["t"] == "list" else ""
            kb = m["b"].get("k", "") if m["b"]["t"] == "list" else ""
            sig = "equal:%s:%s%s/%s%s:want=%s" % (m["what"], m["a"]["t"], ka, m["b"]["t"], kb, m.get("want"))
            ctx.violation(sig, "Equal %s: spec says %s, library says %s (%s) a=%s b=%s" % (
                m["what"], m.get("want"), m.get("got"), m.get("arenas"), json.dumps(m["a"]), json.dumps(m["b"])), m)
    if not summ:
        raise Inconclusive("encval: no summary")
    ctx.log("encval eq: %s" % summ)
    ctx.cover(states=r.distinct, transitions=r.generated, traces_validated_against_impl=n,
              evaluations=summ["stats"].get("equal_calls", 0), distinct_nontrivial=n, pairs=n, verdicts=counts,
              rule="pairs (a, b): a ranges over spec/enc/ValGen.tla Vals(Depth), b over its one-edit neighbours (and a itself); "
                   "each pair is built in 4 arena/build-order combinations; Equal(a,b), Equal(b,a), Equal(a,a), Equal(a, deep copy), Equal(a, re-encoding)",
              exhaustive=True, depth=depth)
    for p in pairs[:2] + pairs[len(pairs) // 2: len(pairs) // 2 + 2]:
        ctx.sample(p)
    ctx.assume("the builder constructs the value it is asked for (C04/C05); 'either' verdicts (bit list vs struct list) are not judged")


def replay(ctx, robj):
    case = robj["case"]
    pf = ctx.path("pairs.ndjson")
    with open(pf, "w") as f:
        f.write(json.dumps({"a": case["a"], "b": case["b"], "eq": case.get("want", "either"), "da": case.get("da") or []}) + "\n")
    drv = gobuild.build(ctx, "encval")
    rc, out, err = gobuild.run_driver(ctx, drv, ["eq", pf], timeout=600)
    for ln in out.splitlines():
        if ln.startswith("{"):
            m = json.loads(ln)
            if not m.get("summary"):
                ctx.violation("equal:%s" % m["what"], json.dumps(m)[:500], m)
