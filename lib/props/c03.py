"""C03 - every value read equals what the encoding spec says the bytes denote.

Deciding spec: spec/enc/CapnpSem.tla (Value = the strict reading of the
encoding spec) driven by spec/enc/EncGen.tla (slot-driven generator of messages
over a boundary alphabet).  TLC computes the expected value of every generated
message; the driver reads it through the public accessors."""
import json
import os

from vlib import tlc, gobuild
from vlib.core import Inconclusive

LEVEL = "model_checking"

# (SegLens operator, MaxFill, RichFills)
QUICK = [("L0", 1, 1), ("L0b", 1, 1), ("L1b", 2, 1), ("L1", 2, 2), ("L2", 2, 2), ("L3", 3, 1), ("L2", 3, 1)]
THOROUGH = [("L0", 1, 1), ("L0b", 1, 1), ("L1b", 3, 2), ("L1", 3, 2), ("L2", 3, 2), ("L3", 3, 1), ("L4", 3, 1), ("L2", 4, 1), ("L3", 4, 0)]


def generate(ctx, sd, configs, outpath, depth=6):
    """Run EncGen for each config; write messages (ndjson); returns (count, states, transitions)."""
    n = 0
    states = trans = 0
    with open(outpath, "w") as out:
        for i, (segl, maxfill, rich) in enumerate(configs):
            cfg = "EncGen_gen%d.cfg" % i
            with open(os.path.join(sd, cfg), "w") as f:
                f.write("SPECIFICATION Spec\nCONSTANTS\n  SegLens <- %s\n  MaxFill = %d\n  RichFills = %d\n  D = %d\n"
                        "INVARIANTS FillPreserves Emit\nCHECK_DEADLOCK FALSE\n" % (segl, maxfill, rich, depth))
            r = tlc.run(ctx, sd, "MCEncGen", cfg=cfg, workers=12, timeout=3400, heap="12g", stack=True)
            msgs = r.tagged("MSG")
            if len(msgs) != r.distinct:
                raise Inconclusive("EncGen printed %d messages for %d states" % (len(msgs), r.distinct))
            for m in msgs:
                out.write(json.dumps(m) + "\n")
            n += len(msgs)
            states += r.distinct
            trans += r.generated
            ctx.log("EncGen %s fill<=%d rich<=%d: %d messages" % (segl, maxfill, rich, len(msgs)))
    return n, states, trans


def sig_of(m):
    d = m["diff"]
    # class: what kind of disagreement, on a spec-clean message or not
    kind = d.split(":", 1)[1].strip() if ":" in d else d
    for key in ("spec says", "struct data", "pointer count", "list kind/length", "element count", "element spec",
                "capability index", "panic", "message rejected", "Bit view", "Uint64 view", "read beyond",
                "pointer beyond", "HasPtr", "Data()", "Text()", "negative list length", "views differ"):
        if key in kind:
            kind = key
            break
    return "read:%s" % kind


def run(ctx):
    sd = tlc.stage(ctx, "enc")
    mf = ctx.path("msgs.ndjson")
    n, states, trans = generate(ctx, sd, QUICK if ctx.quick else THOROUGH, mf)
    drv = gobuild.build(ctx, "encread", also=["vwalk"])
    rc, out, err = gobuild.run_driver(ctx, drv, ["c03", mf], timeout=3400)
    if rc != 0:
        raise Inconclusive("encread c03 died rc=%d: %s" % (rc, err[-3000:]))
    summ = None
    nm = 0
    for ln in out.splitlines():
        if not ln.startswith("{"):
            continue
        m = json.loads(ln)
        if m.get("summary"):
            summ = m
            continue
        nm += 1
        ctx.violation(sig_of(m), "mode=%s %s segs=%s" % (m["mode"], m["diff"], json.dumps(m["segs"])), m)
    if not summ:
        raise Inconclusive("no summary from encread")
    ctx.log("c03: %s mismatches=%d" % (summ, nm))
    ctx.cover(states=states, transitions=trans, traces_validated_against_impl=summ["messages"],
              evaluations=summ["stats"].get("reads", 0), distinct_nontrivial=summ["clean"],
              messages=summ["messages"], spec_clean_messages=summ["clean"],
              rule="messages = reachable states of spec/enc/EncGen.tla (slot-driven generator over the boundary alphabet); "
                   "non-trivial = messages whose spec value contains no Err node (fully spec-valid); every message is read in "
                   "4 presentations (exact-size arena, MultiSegment, Unmarshal of the framed bytes, MarshalPacked/UnmarshalPacked); "
                   "where the spec value is Err the implementation is free",
              exhaustive=True, configs=[list(c) for c in (QUICK if ctx.quick else THOROUGH)])
    with open(mf) as f:
        lines = f.readlines()
    for i in (1, len(lines) // 3, 2 * len(lines) // 3, len(lines) - 1):
        ctx.sample(json.loads(lines[i]))
    ctx.assume("TLC evaluates CapnpSem.Value correctly; CapnpSem is a faithful strict reading of capnproto.org/encoding.html")


def replay(ctx, robj):
    case = robj["case"]
    sd = tlc.stage(ctx, "enc")
    # recompute the spec value of the recorded message with TLC, then re-read it
    segs = case["segs"]
    tla = "<<" + ",".join("<<" + ",".join("<<" + ",".join(str(b) for b in w) + ">>" for w in s) + ">>" for s in segs) + ">>"
    with open(os.path.join(sd, "One.tla"), "w") as f:
        f.write("---- MODULE One ----\nEXTENDS CapnpSem, Json\nM == %s\nVARIABLE d\nInit == d = FALSE\n"
                "Next == ~d /\\ d' = TRUE /\\ PrintT(<<\"MSG\", ToJson([segs |-> M, val |-> Value(M, 6), nfill |-> 0, clean |-> Clean(Value(M, 6))])>>)\n"
                "Spec == Init /\\ [][Next]_d\n====\n" % tla)
    with open(os.path.join(sd, "One.cfg"), "w") as f:
        f.write("SPECIFICATION Spec\nCHECK_DEADLOCK FALSE\n")
    r = tlc.run(ctx, sd, "One", cfg="One.cfg", workers=1, timeout=600, stack=True)
    mf = ctx.path("one.ndjson")
    with open(mf, "w") as f:
        f.write(json.dumps(r.tagged("MSG")[0]) + "\n")
    drv = gobuild.build(ctx, "encread", also=["vwalk"])
    rc, out, err = gobuild.run_driver(ctx, drv, ["c03", mf], timeout=600)
    for ln in out.splitlines():
        if ln.startswith("{"):
            m = json.loads(ln)
            if not m.get("summary"):
                ctx.violation(sig_of(m), "mode=%s %s" % (m["mode"], m["diff"]), m)
