"""Shared pipeline of the builder-side encoding checks (C04, C05, C16):
BuilderAbs (TLC) -> behaviours -> encbuild (real library, many arenas) ->
Go-side read-back comparison + dumps -> EncTrace (TLC decodes the real bytes)."""
import json
import os
import random

from vlib import tlc, gobuild
from vlib.core import Inconclusive

ARENAS = [
    {"name": "std-single", "kind": "std-single"},
    {"name": "std-multi", "kind": "std-multi"},
    {"name": "single-tight", "kind": "single", "caps": [1, 1]},
    {"name": "single-0-3", "kind": "single", "caps": [2, 3]},
    {"name": "multi-1", "kind": "multi", "caps": [1]},
    {"name": "multi-2-3-reuse", "kind": "multi", "caps": [2, 3], "reuse": True},
    {"name": "multi-3-1-2", "kind": "multi", "caps": [3, 1, 2]},
    {"name": "multi-4-reuse", "kind": "multi", "caps": [4], "reuse": True},
    {"name": "multi-1-2-reuse", "kind": "multi", "caps": [1, 2], "reuse": True},
    {"name": "multi-6-2", "kind": "multi", "caps": [6, 2]},
]


def write_cfg(sd, name, nmsgs, maxops, maxobjs, sizes, shapes, complens, ops, plan="NoPlan"):
    with open(os.path.join(sd, name), "w") as f:
        f.write("SPECIFICATION Spec\nCONSTANTS\n  NMsgs = %d\n  MaxOps = %d\n  MaxObjs = %d\n  D = 6\n"
                "  Sizes <- %s\n  ListShapes <- %s\n  CompLens = %s\n  Ops <- %s\n  Plan <- %s\n"
                "INVARIANTS Acyclic EmitBeh\nCHECK_DEADLOCK FALSE\n" % (nmsgs, maxops, maxobjs, sizes, shapes, complens, ops, plan))


def behaviours(ctx, sd, plan):
    """plan: list of dicts {mode: ex|sim, nmsgs, maxops, maxobjs, sizes, shapes, complens, ops, num, per_prefix}.
    Returns list of behaviours and (states, transitions)."""
    out = []
    states = trans = 0
    rng = random.Random(ctx.seed)
    for i, p in enumerate(plan):
        cfg = "Builder_gen%d.cfg" % i
        write_cfg(sd, cfg, p.get("nmsgs", 1), p["maxops"], p["maxobjs"], p["sizes"], p["shapes"], p["complens"], p["ops"], p.get("plan", "NoPlan"))
        if p["mode"] == "ex":
            r = tlc.run(ctx, sd, "MCBuilder", cfg=cfg, workers=12, timeout=3000, heap="12g")
            bs = r.tagged("BEH")
            states += r.distinct
            trans += r.generated
        else:
            r = tlc.run(ctx, sd, "MCBuilder", cfg=cfg, workers=4, simulate="num=%d" % p["num"], depth=p["maxops"] + 1,
                        seed=ctx.seed * 1000 + i, timeout=3000, heap="12g")
            allb = r.tagged("BEH")
            # the simulator evaluates the invariant on every candidate successor: keep a few per common prefix
            groups = {}
            for b in allb:
                key = json.dumps(b["ops"][:-1], sort_keys=True)
                groups.setdefault(key, []).append(b)
            bs = []
            for key in groups:
                g = groups[key]
                rng.shuffle(g)
                bs += g[:p.get("per_prefix", 2)]
            states += r.generated
            trans += r.generated
        r.out, r.printed = "", []      # the raw output of a large run is several GB: drop it as soon as it is parsed
        if not bs:
            raise Inconclusive("BuilderAbs produced no behaviours for plan %d" % i)
        ctx.log("BuilderAbs plan %d (%s, %d ops): %d behaviours" % (i, p["mode"], p["maxops"], len(bs)))
        limit = p.get("limit")
        if limit and len(bs) > limit:
            rng.shuffle(bs)
            bs = bs[:limit]
        out += bs
    return out, states, trans


def run(ctx, plan, arenas=None, dump_every=1, dump_last_every=None):
    """Returns dict with go mismatches, tlc bad lines, counts."""
    sd = tlc.stage(ctx, "enc")
    arenas = arenas or ARENAS
    bs, states, trans = behaviours(ctx, sd, plan)
    bf = ctx.path("beh.ndjson")
    with open(bf, "w") as f:
        for b in bs:
            f.write(json.dumps(b) + "\n")
    af = ctx.path("arenas.json")
    with open(af, "w") as f:
        json.dump(arenas, f)
    drv = gobuild.build(ctx, "encbuild", also=["vwalk"])
    df = os.path.join(sd, "dumps.ndjson")
    rc, out, err = gobuild.run_driver(ctx, drv, ["run", bf, af, df], timeout=3400, env={"VERIF_DUMP_EVERY": str(dump_every), "VERIF_DUMP_LAST_EVERY": str(dump_last_every or (1 if ctx.quick else 4))})
    if rc != 0:
        raise Inconclusive("encbuild died rc=%d: %s" % (rc, err[-3000:]))
    go_mis, summ = [], None
    for ln in out.splitlines():
        if ln.startswith("{"):
            m = json.loads(ln)
            if m.get("summary"):
                summ = m
            else:
                m["behaviour"] = bs[m["beh"] - 1] if 0 < m.get("beh", 0) <= len(bs) else None
                go_mis.append(m)
    if not summ:
        raise Inconclusive("encbuild: no summary")
    ctx.log("encbuild: %s; go-side mismatches=%d" % (summ["stats"], len(go_mis)))
    ndumps = summ["stats"].get("dumps", 0)
    r = tlc.run(ctx, sd, "EncTrace", cfg="EncTrace.cfg", workers=12, timeout=3400, heap="16g", stack=True)
    done = sum(b["n"] for b in r.tagged("BLOCKDONE"))
    if done != ndumps:
        raise Inconclusive("EncTrace consumed %d of %d dump lines" % (done, ndumps))
    bad = r.tagged("DUMPBAD")
    tlc_bad = []
    if bad:
        want = {}
        for b in bad:
            want.setdefault(b["line"], []).append(b["what"])
        with open(df) as f:
            for i, ln in enumerate(f, 1):
                if i in want:
                    rec = json.loads(ln)
                    for w in want[i]:
                        tlc_bad.append({"what": w, "beh": rec["beh"], "arena": rec["arena"], "step": rec["step"], "m": rec["m"],
                                        "segs": rec["segs"], "exp": rec["exp"], "behaviour": bs[rec["beh"] - 1],
                                        "framed": rec["framed"] if w == "framing" else None})
    ctx.log("EncTrace: %d dumps decoded by TLC, bad=%d" % (done, len(tlc_bad)))
    sample = bs[len(bs) // 2]
    return {"go": go_mis, "tlc": tlc_bad, "summ": summ, "behaviours": len(bs), "dumps": done,
            "states": states + r.distinct, "transitions": trans + r.generated, "sample": sample, "arenas": [a["name"] for a in arenas]}


def opsig(beh, step):
    """signature of a failing case: the operation kinds up to the failing step"""
    if not beh:
        return "?"
    return ">".join(o["op"] for o in beh["ops"][:step])
