"""C16 - deep copy yields an equal, independent tree with capabilities re-homed.

BuilderAbs with two messages and the copying operations enabled (SetPtr across
messages, SetRoot, PointerList.Set, List.SetStruct, Struct.CopyFrom, struct-list
elements as sources).  The spec gives the value of *both* messages after every
step - so a later write on either side that shows through to the other, a
wrong truncation / zero extension, or a shared (not copied) object is a value
mismatch - and the capability table of each message (a copied capability
pointer gets a fresh entry denoting the source's capability).  At the end the
messages are reset one by one: each instrumented capability must be shut down
exactly when the last table referencing it is gone."""
from props import encpipe, c04

LEVEL = "model_checking"

OPS = "OpsAll"
QUICK = [
    dict(mode="ex", nmsgs=2, maxops=3, maxobjs=6, sizes="SizesTiny", shapes="ShapesTiny", complens="{1}", ops=OPS, limit=4000),
    dict(mode="sim", nmsgs=2, maxops=9, maxobjs=12, sizes="SizesAll", shapes="ShapesAll", complens="{1, 2}", ops=OPS, num=120, per_prefix=2, limit=1200),
    # same-message copies followed by mutations of either side: small alphabets so that handles get reused
    dict(mode="sim", nmsgs=1, maxops=6, maxobjs=8, sizes="SizesTiny", shapes="ShapesTiny", complens="{1}", ops=OPS, plan="PlanCopy", num=150, per_prefix=3, limit=3000),
    dict(mode="sim", nmsgs=2, maxops=7, maxobjs=9, sizes="SizesTiny", shapes="ShapesTiny", complens="{1}", ops=OPS, plan="PlanCopy2", num=150, per_prefix=3, limit=3000),
    dict(mode="sim", nmsgs=1, maxops=7, maxobjs=9, sizes="SizesSmall", shapes="ShapesTiny", complens="{1, 2}", ops=OPS, plan="PlanOverwrite", num=300, per_prefix=2, limit=1200),
]
THOROUGH = [
    dict(mode="ex", nmsgs=2, maxops=3, maxobjs=6, sizes="SizesSmall", shapes="ShapesSmall", complens="{2}", ops=OPS, limit=40000),
    dict(mode="sim", nmsgs=2, maxops=12, maxobjs=16, sizes="SizesAll", shapes="ShapesAll", complens="{0, 1, 2, 3}", ops=OPS, num=1500, per_prefix=2, limit=12000),
    dict(mode="sim", nmsgs=3, maxops=10, maxobjs=14, sizes="SizesAll", shapes="ShapesAll", complens="{1, 2}", ops=OPS, num=400, per_prefix=2, limit=3000),
    # (exhaustive enumeration of PlanCopy at 6 operations prints more behaviours than fit in memory: sampled instead)
    dict(mode="sim", nmsgs=1, maxops=6, maxobjs=8, sizes="SizesTiny", shapes="ShapesTiny", complens="{1}", ops=OPS, plan="PlanCopy", num=5000, per_prefix=3, limit=40000),
    dict(mode="sim", nmsgs=1, maxops=7, maxobjs=9, sizes="SizesSmall", shapes="ShapesTiny", complens="{1, 2}", ops=OPS, plan="PlanOverwrite", num=1500, per_prefix=2, limit=4000),
    dict(mode="sim", nmsgs=2, maxops=7, maxobjs=9, sizes="SizesTiny", shapes="ShapesTiny", complens="{1}", ops=OPS, plan="PlanCopy2", num=4000, per_prefix=3, limit=30000),
]
ARENAS = [a for a in encpipe.ARENAS if a["name"] in ("std-single", "std-multi", "single-tight", "multi-1", "multi-2-3-reuse", "multi-3-1-2")]


def run(ctx):
    res = encpipe.run(ctx, QUICK if ctx.quick else THOROUGH, arenas=ARENAS, dump_every=3 if ctx.quick else 12, dump_last_every=1 if ctx.quick else 12)
    c04.report(ctx, res, want_go=True, want_tlc=True)
    ncopy = sum(1 for m in [res["sample"]] for o in m["ops"] if o["op"] in ("setstruct", "copyfrom", "setroot"))
    c04.cover(ctx, res, "behaviours over 2-3 messages with copying operations (cross-message SetPtr/SetRoot/PointerList.Set, List.SetStruct, "
                        "CopyFrom, struct-list elements as sources); the spec states the value and the capability table of every message after "
                        "every step; real bytes decoded by TLC; capabilities are instrumented hooks checked at Reset")


replay = c04.replay
