"""C19 - struct mapping (pogs) round-trips and agrees with the generated accessors.

Same specification as C15 (spec/layout/Layout.tla): what a schema field
descriptor means on the bytes of a struct.  For every struct type of the
generated packages a Go mirror type is built from the schema
(reflect.StructOf); pogs.Insert must write exactly what SetField says (value XOR
default at the field's place, discriminants of the selected unions, nothing of
inactive members), pogs.Extract on raw bytes must return GetField and the
discriminant and leave inactive members untouched; fully populated values
round-trip and the generated getters see what was inserted."""
from props import layoutpipe as lp
from vlib.core import Inconclusive

LEVEL = "model_checking"


def run(ctx):
    greq, gstats = lp.generated_request(ctx, every=8 if ctx.quick else 3)
    gen, overlay, srcs, results = lp.prepare(ctx, extra_requests=[greq])
    ok = [n for n in lp.DRIVEN + ["gen"] if results[n]["rc"] == 0]
    driven = ok
    if not driven:
        raise Inconclusive("no generated package to drive")
    summ, sd, tf = lp.drive(ctx, "pogs", overlay, srcs, driven)
    rt, bad = lp.judge(ctx, sd, tf, summ)
    for b, rec in bad:
        cls = "%s:%s:%s:%s" % (rec["who"], rec["k"], rec["type"], rec["field"])
        ctx.violation(cls, "%s: %s %s.%s (%s) %s" % (b["what"], rec["who"], rec["type"], rec["field"], rec["k"], rec.get("what", "")[:300]), {"what": b["what"], "record": rec})
    ctx.cover(states=rt.distinct, transitions=rt.generated, traces_validated_against_impl=summ["lines"], evaluations=summ["lines"],
              distinct_nontrivial=summ["types"], struct_types=summ["types"], records=summ["counts"], generated_layouts=gstats,
              rule="every struct type of the generated packages %s with a Go mirror built from its schema node (nested structs to depth 2, groups as nested structs, "
                   "Which fields for unions): Insert of each primitive field with 2-5 boundary values (other fields at their defaults, garbage in inactive union members); "
                   "Extract of each primitive field from all-one and patterned raw bytes with the discriminants selecting it; one fully populated value per top-level "
                   "union member inserted, extracted, compared (DeepEqual) and read back through the generated getters" % (driven,),
              exhaustive=False)
    ctx.sample({"types": summ["types"], "counts": summ["counts"]})
    ctx.assume("Go mirror types use the documented default field naming; renamed / embedded / omitted field tags are exercised only by the repository's own tests")
