"""C01 - reading arbitrary bytes never crashes, hangs or escapes the segments.

The hostile inputs are the reachable states of spec/enc/EncGen.tla (valid and
invalid placements of every pointer kind at every boundary the case analysis of
CapnpSem.Locate distinguishes), schema-directed variants of them (root
discriminant set to each member of aircraftlib.Z) and seeded byte corruptions.
Oracle: no panic (recovered in process; a dying driver is bisected), no hang
(watchdog), every byte slice handed out aliases the supplied segments."""
import json
import os

from vlib import tlc, gobuild
from vlib.core import Inconclusive
from props import c03

LEVEL = "model_checking"

QUICK = [("L0", 1, 1), ("L0b", 1, 1), ("L1b", 2, 1), ("L1", 2, 2), ("L2", 2, 2), ("L3", 2, 1), ("L2", 3, 1)]
THOROUGH = [("L0", 1, 1), ("L0b", 1, 1), ("L1b", 3, 2), ("L1", 3, 2), ("L2", 3, 2), ("L3", 3, 1), ("L4", 3, 1), ("L2", 4, 1)]


def sig_of(m):
    det = m.get("detail", "")
    # class = consumer family + kind + library frame (for panics)
    cons = m["consumer"].split("@")[0]
    frame = ""
    if "|" in det:
        frame = det.split("|", 1)[1].strip().split(" ")[0]
        frame = frame.split("(")[0]
    return "%s:%s:%s" % (m["kind"], cons, frame)


def run_parallel(ctx, drv, mf, nlines, env, parts=8):
    """The consumers of one message run in one goroutine (so that a hang is attributable); messages are spread over processes."""
    from concurrent.futures import ThreadPoolExecutor
    with open(mf) as f:
        lines = f.readlines()
    if len(lines) < 4 * parts:
        return run_file(ctx, drv, mf, nlines, env)
    chunks = [lines[i::parts] for i in range(parts)]
    files = []
    for i, ch in enumerate(chunks):
        pf = ctx.path("msgs-part%d.ndjson" % i)
        with open(pf, "w") as f:
            f.writelines(ch)
        files.append((pf, len(ch), "p%d" % i))
    with ThreadPoolExecutor(max_workers=parts) as ex:
        results = list(ex.map(lambda a: run_file(ctx, drv, a[0], a[1], env, a[2]), files))
    faults, summ = [], {"summary": True, "messages": 0, "stats": {}}
    for f2, s2 in results:
        faults += f2
        if not s2:
            return faults, None
        summ["messages"] += s2.get("messages", 0)
        for k, v in s2.get("stats", {}).items():
            summ["stats"][k] = summ["stats"].get(k, 0) + v
    return faults, summ


def run_file(ctx, drv, mf, nlines, env, sfx=""):
    """Run the driver over a message file; if it dies, bisect to the killing message."""
    rc, out, err = gobuild.run_driver(ctx, drv, ["c01", mf], timeout=3400, env=env)
    faults, summ = [], None
    for ln in out.splitlines():
        if ln.startswith("{"):
            m = json.loads(ln)
            if m.get("summary"):
                summ = m
            else:
                faults.append(m)
    if rc == 0 and summ:
        return faults, summ
    if rc == 3 and summ:  # watchdog: one consumer run did not finish; confirm it alone, then go on behind that message
        hangs = [m for m in faults if m["kind"] == "hang"]
        faults = [m for m in faults if m["kind"] != "hang"]
        for m in hangs:
            if confirm_hang(ctx, drv, m):
                faults.append(m)
            else:
                ctx.note("a %s run on message %s exceeded the watchdog once but finished when re-run alone (machine load): not reported"
                         % (m["consumer"], m.get("line")))
        with open(mf) as f:
            lines = f.readlines()
        rest = lines[summ["messages"]:]
        if rest:
            part = ctx.path("rest%s-%d.ndjson" % (sfx, len(rest)))
            with open(part, "w") as f:
                f.writelines(rest)
            f2, s2 = run_file(ctx, drv, part, len(rest), env, sfx)
            faults += f2
            if s2:
                for k, v in s2.get("stats", {}).items():
                    summ["stats"][k] = summ["stats"].get(k, 0) + v
                summ["messages"] += s2.get("messages", 0)
        summ.pop("aborted", None)
        return faults, summ
    # driver died (fatal error that recover() cannot catch, e.g. stack overflow): bisect
    with open(mf) as f:
        lines = f.readlines()
    lo, hi = 0, len(lines)
    ctx.log("driver died rc=%d; bisecting %d messages: %s" % (rc, len(lines), err[-300:]))
    while hi - lo > 1:
        mid = (lo + hi) // 2
        part = ctx.path("bisect%s.ndjson" % sfx)
        with open(part, "w") as f:
            f.writelines(lines[lo:mid])
        rc2, _, _ = gobuild.run_driver(ctx, drv, ["c01", part], timeout=3400, env=env)
        if rc2 != 0:
            hi = mid
        else:
            lo = mid
    part = ctx.path("bisect%s.ndjson" % sfx)
    with open(part, "w") as f:
        f.writelines(lines[lo:hi])
    rc3, out3, err3 = gobuild.run_driver(ctx, drv, ["c01", part], timeout=3400, env=env)
    if rc3 == 0:
        raise Inconclusive("driver death did not reproduce on bisection: %s" % err[-2000:])
    rec = json.loads(lines[lo])
    head = err3.strip().splitlines()[0] if err3.strip() else "exit %d" % rc3
    faults.append({"line": lo + 1, "mode": "?", "variant": "?", "consumer": "process", "kind": "fatal",
                   "detail": head + " | " + _frame(err3), "segs": rec["segs"]})
    return faults, {"summary": True, "messages": lo, "stats": {}, "aborted": "fatal"}


def confirm_hang(ctx, drv, m):
    """A watchdog report is timing based: re-run that very presentation alone with a longer limit."""
    one = ctx.path("hang-confirm-%s.ndjson" % m.get("line"))
    with open(one, "w") as f:
        f.write(json.dumps({"segs": m["segs"], "val": {"t": "err", "r": ""}, "clean": False, "nfill": 0}) + "\n")
    lim = (m.get("variant") or "").split("/")[-1]
    only = "%s|%s|%s" % (m.get("mode"), lim, m.get("consumer"))
    try:
        rc, out, err = gobuild.run_driver(ctx, drv, ["c01", one], timeout=900,
                                          env={"VERIF_C01_MUT": "0", "VERIF_C01_HANG": "300", "VERIF_C01_ONLY": only})
    except Inconclusive:
        return True      # not even the single consumer run finished within 15 minutes
    return rc == 3 and '"kind":"hang"' in out


def _frame(err):
    for ln in err.splitlines():
        if "capnproto.org/go/capnp/v3" in ln and "verifh" not in ln and not ln.startswith("\t"):
            return ln.strip()
    return ""


def run(ctx):
    sd = tlc.stage(ctx, "enc")
    mf = ctx.path("msgs.ndjson")
    n, states, trans = c03.generate(ctx, sd, QUICK if ctx.quick else THOROUGH, mf)
    drv = gobuild.build(ctx, "encread", also=["vwalk"])
    # schema-directed family: populated values of the rendered schema types with every word replaced by boundary patterns
    sf = ctx.path("samples.ndjson")
    rc, out, err = gobuild.run_driver(ctx, drv, ["samples", sf], timeout=300)
    if rc != 0 or not os.path.exists(sf):
        raise Inconclusive("encread samples failed rc=%d: %s" % (rc, err[-1500:]))
    with open(sf) as f, open(mf, "a") as g:
        extra = f.readlines()
        g.writelines(extra)
    n += len(extra)
    ctx.cover(schema_directed_samples=len(extra))
    env = {"VERIF_C01_MUT": "2" if ctx.quick else "8"}
    faults, summ = run_parallel(ctx, drv, mf, n, env)
    for m in faults:
        ctx.violation(sig_of(m), "%s in %s (%s, %s): %s segs=%s" % (
            m["kind"], m["consumer"], m.get("mode"), m.get("variant"), m.get("detail", "")[:600], json.dumps(m.get("segs"))), m)
    if not summ:
        raise Inconclusive("no summary from encread c01")
    st = summ.get("stats", {})
    ctx.log("c01: messages=%s inputs=%s consumer runs=%s faults=%d" % (summ.get("messages"), st.get("inputs"), st.get("consumer_runs"), len(faults)))
    if summ.get("aborted") and not faults:
        raise Inconclusive("driver aborted without a fault record")
    ctx.cover(states=states, transitions=trans, traces_validated_against_impl=n,
              evaluations=st.get("consumer_runs", 0), distinct_nontrivial=st.get("inputs", 0),
              messages=n, inputs_with_variants=st.get("inputs", 0),
              rule="inputs = EncGen states + per message: 18 root-discriminant variants (aircraftlib.Z union members), seeded byte "
                   "corruptions, truncated last segment; each through exact-size arena and Unmarshal, default limits and "
                   "(TraverseLimit 2^40, DepthLimit 6); consumers: accessor walk, slice-escape check, Equal, Canonicalize, deep copy "
                   "(SetRoot into single- and multi-segment messages), text.Marshal as 10 schema types, pogs.Extract as Z and PlaneBase",
              exhaustive=False)
    with open(mf) as f:
        lines = f.readlines()
    for i in (1, len(lines) // 2, len(lines) - 1):
        ctx.sample(json.loads(lines[i])["segs"])
    ctx.assume("Go's memory safety turns any out-of-segment access into a panic because each segment is its own exact-size allocation")


def replay(ctx, robj):
    case = robj["case"]
    mf = ctx.path("one.ndjson")
    with open(mf, "w") as f:
        f.write(json.dumps({"segs": case["segs"], "val": {"t": "err", "r": ""}, "clean": False, "nfill": 0}) + "\n")
    drv = gobuild.build(ctx, "encread", also=["vwalk"])
    faults, summ = run_file(ctx, drv, mf, 1, {"VERIF_C01_MUT": "0"})
    for m in faults:
        ctx.violation(sig_of(m), "%s in %s: %s" % (m["kind"], m["consumer"], m.get("detail", "")[:600]), m)
