"""C04 - what is written through the builder API is what is read back, everywhere.

BuilderAbs (TLA+) gives, for every operation sequence, the value each message
must denote after every step.  The driver replays the sequences on the real
library in 10 arena configurations (spare capacity filled with 0xAA) and reads
back through the accessors after every step and, at the end, through
Marshal/Unmarshal, MarshalPacked/UnmarshalPacked, Encoder/Decoder (plain,
packed, reuse) with 5 chunkings."""
from props import encpipe

LEVEL = "model_checking"

OPS = "OpsC04"
QUICK = [
    dict(mode="ex", maxops=2, maxobjs=4, sizes="SizesAll", shapes="ShapesAll", complens="{0, 2}", ops=OPS),
    dict(mode="ex", maxops=3, maxobjs=4, sizes="SizesSmall", shapes="ShapesSmall", complens="{2}", ops=OPS, limit=4000),
    dict(mode="sim", maxops=10, maxobjs=8, sizes="SizesAll", shapes="ShapesAll", complens="{0, 1, 2, 3}", ops=OPS, num=300, per_prefix=2, limit=2500),
    dict(mode="sim", maxops=8, maxobjs=7, sizes="SizesTiny", shapes="ShapesTiny", complens="{1, 2}", ops=OPS, num=300, per_prefix=1, limit=1500),
    # overwriting populated structs through List.SetStruct / Struct.CopyFrom (planned: build, populate, overwrite)
    dict(mode="sim", maxops=7, maxobjs=9, sizes="SizesSmall", shapes="ShapesTiny", complens="{1, 2}", ops="OpsAll", plan="PlanOverwrite", num=400, per_prefix=2, limit=1500),
]
THOROUGH = [
    dict(mode="ex", maxops=3, maxobjs=4, sizes="SizesSmall", shapes="ShapesSmall", complens="{2}", ops=OPS),
    dict(mode="ex", maxops=2, maxobjs=4, sizes="SizesAll", shapes="ShapesAll", complens="{0, 1, 3}", ops=OPS),
    dict(mode="sim", maxops=12, maxobjs=10, sizes="SizesAll", shapes="ShapesAll", complens="{0, 1, 2, 3}", ops=OPS, num=600, per_prefix=2, limit=8000),
    dict(mode="sim", maxops=7, maxobjs=9, sizes="SizesSmall", shapes="ShapesTiny", complens="{1, 2}", ops="OpsAll", plan="PlanOverwrite", num=1500, per_prefix=2, limit=4000),
]


def report(ctx, res, want_go=True, want_tlc=True):
    if want_go:
        for m in res["go"]:
            ctx.violation("%s:%s" % (m["path"].split(":")[0], encpipe.opsig(m.get("behaviour"), m.get("step", 0))),
                          "arena=%s step=%s path=%s: %s" % (m.get("arena"), m.get("step"), m["path"], m["diff"]), m)
    if want_tlc:
        for b in res["tlc"]:
            ctx.violation("tlc-%s:%s" % (b["what"], encpipe.opsig(b["behaviour"], b["step"])),
                          "TLC decoding of the real bytes: %s (arena=%s step=%d) segs=%s" % (b["what"], b["arena"], b["step"], b["segs"]), b)


def cover(ctx, res, what):
    st = res["summ"]["stats"]
    ctx.cover(states=res["states"], transitions=res["transitions"], traces_validated_against_impl=res["dumps"],
              evaluations=st.get("readbacks", 0) + st.get("roundtrips", 0) + res["dumps"],
              distinct_nontrivial=res["behaviours"], behaviours=res["behaviours"], arenas=res["arenas"],
              api_operations_replayed=st.get("ops", 0), serialisation_roundtrips=st.get("roundtrips", 0),
              rule=what, exhaustive=False)
    ctx.sample({"behaviour": res["sample"]})
    ctx.assume("TLC evaluates BuilderAbs/CapnpSem correctly; BuilderAbs states what the documented builder API means")


def run(ctx):
    res = encpipe.run(ctx, QUICK if ctx.quick else THOROUGH, dump_every=3 if ctx.quick else 10)
    # C04's verdict: read-back through the library (direct and through every serialisation path) and
    # the value TLC decodes from the real bytes
    report(ctx, res, want_go=True, want_tlc=False)
    for b in res["tlc"]:
        if b["what"] == "value":
            ctx.violation("tlc-value:%s" % encpipe.opsig(b["behaviour"], b["step"]),
                          "value decoded by TLC from the real bytes differs from the written value (arena=%s step=%d) segs=%s" % (b["arena"], b["step"], b["segs"]), b)
    cover(ctx, res, "behaviours = operation sequences of spec/enc/BuilderAbs.tla (exhaustive to 2-3 ops over small alphabets + simulated 10-12 op "
                    "sequences), each replayed in every arena configuration; after every step the message is read back and compared with the "
                    "spec's value; after the last step 13 serialisation round trips; every dump is also decoded by TLC (EncTrace)")


def replay(ctx, robj):
    from vlib.core import Inconclusive
    case = robj["case"]
    beh = case.get("behaviour")
    if not beh:
        raise Inconclusive("replay file carries no behaviour")
    import json, os
    from vlib import tlc, gobuild
    sd = tlc.stage(ctx, "enc")
    bf = ctx.path("beh.ndjson")
    with open(bf, "w") as f:
        f.write(json.dumps(beh) + "\n")
    af = ctx.path("arenas.json")
    with open(af, "w") as f:
        json.dump([a for a in encpipe.ARENAS if a["name"] == case.get("arena")] or encpipe.ARENAS, f)
    drv = gobuild.build(ctx, "encbuild", also=["vwalk"])
    rc, out, err = gobuild.run_driver(ctx, drv, ["run", bf, af, os.path.join(sd, "dumps.ndjson")], timeout=600)
    for ln in out.splitlines():
        if ln.startswith("{"):
            m = json.loads(ln)
            if not m.get("summary"):
                m["behaviour"] = beh
                ctx.violation("%s:%s" % (m["path"].split(":")[0], encpipe.opsig(beh, m.get("step", 0))), m["diff"], m)
    r = tlc.run(ctx, sd, "EncTrace", cfg="EncTrace.cfg", workers=2, timeout=600, stack=True)
    for b in r.tagged("DUMPBAD"):
        ctx.violation("tlc-%s:%s" % (b["what"], encpipe.opsig(beh, len(beh["ops"]))), "TLC: %s at dump line %d" % (b["what"], b["line"]), {"behaviour": beh, "arena": case.get("arena")})
