"""C05 - produced messages are valid Cap'n Proto that any implementation can read.

Same behaviours and arenas as C04; the verdict here is TLC's: the real segment
bytes and the Marshal output are decoded by CapnpSem/FrameCore (the independent
decoder): every reachable pointer is defined by the spec, objects are disjoint,
list padding is zero, the framing describes exactly the segments, and the
decoded value is the value that was written."""
from props import encpipe, c04

LEVEL = "model_checking"


def run(ctx):
    res = encpipe.run(ctx, c04.QUICK if ctx.quick else c04.THOROUGH, dump_every=2 if ctx.quick else 8)
    c04.report(ctx, res, want_go=False, want_tlc=True)
    # API failures make the produced message unusable too
    for m in res["go"]:
        # (a received message that is built upon must still serialise to a valid message of the same value)
        if m["path"] in ("api", "marshal", "segments", "newmessage") or m["path"].endswith(("then-alloc", "then-alloc-remarshal")):
            ctx.violation("%s:%s" % (m["path"], encpipe.opsig(m.get("behaviour"), m.get("step", 0))), "arena=%s: %s" % (m.get("arena"), m["diff"]), m)
    c04.cover(ctx, res, "every dump (segment bytes after every API step in every arena; Marshal output after the last step) is decoded by TLC: "
                        "Value = written value, no undefined pointer, disjoint extents, zero padding, framing = segments")


replay = c04.replay
