"""C20 - text rendering is well formed, faithful and independent of encoder history.

spec/layout/StrQuote.tla: string literals of the text format (reader Unquote =
well-formedness; the spec's own quoting round-trips - design check) and the
generator of byte strings over class representatives.
spec/layout/TextTrace.tla: trace specification: every literal the real code
produced is well formed and denotes its value; every field token shown in a
rendered struct equals what the generated accessor returns; the text of a value
is the same whatever the encoder's history."""
import json
import os

from vlib import tlc, gobuild
from vlib.core import Inconclusive
from props import layoutpipe as lp

LEVEL = "model_checking"


def run(ctx):
    sd = tlc.stage(ctx, "layout")
    with open(os.path.join(sd, "Gen.cfg"), "w") as f:
        f.write("SPECIFICATION GSpec\nCONSTANTS\n  Reps = {97, 34, 92, 39, 10, 0, 127, 128, 255, 32}\n  MaxLen = %d\nINVARIANTS RoundTrip EmitString\nCHECK_DEADLOCK FALSE\n"
                % (3 if ctx.quick else 4))
    r = tlc.run(ctx, sd, "StrQuote", cfg="Gen.cfg", workers=8, timeout=1800)
    strs = r.tagged("STR")
    sf = ctx.path("strings.ndjson")
    with open(sf, "w") as f:
        for s in strs:
            f.write(json.dumps(s) + "\n")
    ctx.log("StrQuote: %d strings; Unquote(SpecQuote(s)) = s holds for all" % len(strs))
    drv = gobuild.build(ctx, "textdrv")
    tf = os.path.join(sd, "texttrace.ndjson")
    reuse = "200000" if ctx.quick else "2000000"
    rc, out, err = gobuild.run_driver(ctx, drv, ["run", sf, tf, reuse], timeout=3400)
    if rc != 0:
        raise Inconclusive("textdrv died rc=%d: %s" % (rc, err[-2000:]))
    summ = None
    for ln in out.splitlines():
        if ln.startswith("{"):
            m = json.loads(ln)
            if m.get("summary"):
                summ = m
            elif m.get("error"):
                ctx.violation("marshal-error", "text.Marshal failed: %s" % m["error"], m)
    if not summ:
        raise Inconclusive("textdrv: no summary")
    rt = tlc.run(ctx, sd, "TextTrace", cfg="TextTrace.cfg", workers=1, timeout=3400, heap="12g", stack=True)
    cons = rt.tagged("CONSUMED")
    if not cons or cons[0]["n"] != summ["lines"]:
        raise Inconclusive("TextTrace consumed %s of %d lines" % (cons, summ["lines"]))
    bad = rt.tagged("TEXTBAD")
    if bad:
        with open(tf) as f:
            lines = f.readlines()
        seen = set()
        for b in bad:
            rec = json.loads(lines[b["line"] - 1])
            def bs(x):
                return bytes(x).decode("latin-1")
            if rec["k"] == "lit":
                cls = "lit:" + b["what"] + ":" + ",".join(sorted({("quote" if c in (34, 39) else "backslash" if c == 92 else "ctrl" if c < 32 or c == 127 else "high" if c > 127 else "plain") for c in rec["s"]} - {"plain"}))
                detail = "string %r rendered as %r" % (bs(rec["s"]), bs(rec["lit"]))
            elif rec["k"] == "field":
                cls = "field:%s:%s" % (b["what"], rec["vid"].rstrip("0123456789") + "." + rec["path"].split("[")[0])
                detail = "value %s field %s shows %r, accessor returns %r" % (rec["vid"], rec["path"], bs(rec["tok"]), bs(rec["acc"]))
            else:
                cls = "history:" + rec["vid"].rstrip("0123456789")
                detail = "value %s after %d prior Encodes renders as %r" % (rec["vid"], rec["n"], bs(rec["text"])[:200])
            ctx.violation(cls, "%s: %s" % (b["what"], detail), {"what": b["what"], "record": rec})
    # ---- second half: every field kind x default x union/group membership of the TLC-generated schemas
    greq, gstats = lp.generated_request(ctx, every=8 if ctx.quick else 3)
    gen, overlay, srcs, results = lp.prepare(ctx, extra_requests=[greq])
    driven = [n for n in ["aircraft", "gen"] if results[n]["rc"] == 0]
    if "gen" not in driven:
        raise Inconclusive("capnpc-go failed on the generated request (C15 decides that): " + results["gen"]["stderr"][-300:])
    summ2, sd2, tf2 = lp.drive(ctx, "text", overlay, srcs, driven, trace="texttrace.ndjson")
    ctx.log("layoutdrv text: %s" % {k: summ2[k] for k in summ2 if k != "counts"})
    rt2 = tlc.run(ctx, sd2, "TextTrace", cfg="TextTrace.cfg", workers=1, timeout=3400, heap="12g", stack=True)
    ctx.log("TextTrace (generated schemas): %d states" % rt2.distinct)
    cons = rt2.tagged("CONSUMED")
    if not cons or cons[0]["n"] != summ2["lines"]:
        raise Inconclusive("TextTrace consumed %s of %d lines (generated schemas)" % (cons, summ2["lines"]))
    bad = rt2.tagged("TEXTBAD")
    if bad:
        with open(tf2) as f:
            lines = f.readlines()
        for b in bad:
            rec = json.loads(lines[b["line"] - 1])
            bs = lambda x: bytes(x).decode("latin-1")
            if rec["k"] == "field":
                tok = bs(rec["tok"])
                shape = "inf/nan" if tok.lower().lstrip("+-") in ("inf", "nan") else "other"
                cls = "genfield:%s:%s:%s" % (b["what"], rec["kind"], shape)
                detail = "type %s field %s shows %r, accessor returns %r" % (rec["vid"], rec["path"], tok, bs(rec["acc"]))
            else:
                cls = "gen:%s" % b["what"]
                detail = rec["vid"]
            ctx.violation(cls, "%s: %s" % (b["what"], detail), {"what": b["what"], "record": rec})
    ctx.cover(states=r.distinct + rt.distinct + rt2.distinct, transitions=r.generated + rt.generated + rt2.generated,
              traces_validated_against_impl=summ["lines"] + summ2["lines"],
              evaluations=summ["lines"] + summ2["lines"], distinct_nontrivial=summ["strings"] + summ["samples"] + summ2["types"], strings=summ["strings"], struct_samples=summ["samples"],
              encoder_reuse=summ["reuse"], generated_layouts=gstats, generated_types=summ2["types"], generated_records=summ2["counts"],
              rule="strings = every string of <= MaxLen bytes over 10 class representatives (from TLC) + every single byte alone and between letters; "
                   "each through strquote.Append and as Text / List(Text) element / Data of rendered structs; struct samples of Zdate, PlaneBase, "
                   "HoldsText, Zdata, Z with boundary numbers, enums, booleans; each field token paired with the generated accessor's value; "
                   "a long-lived Encoder re-renders a probe set after 1, 10, 1000 and every reuse/16 prior Encodes (half of them of Z, the largest field table); "
                   "every struct type of the aircraft request and of the TLC-generated schemas (SchemaGen: kind x default x union/group membership): each primitive, Text and Data "
                   "field set to 2-10 values (floats incl. inf, -inf, nan), rendered, parsed back; every field shown must be a well-formed word / literal denoting the generated getter's value",
              exhaustive=True)
    ctx.sample({"string": strs[len(strs) // 2]})
    ctx.assume("the harness' tokenizer of the text format splits at the quote that ends a literal (a backslash escapes the next byte)")
