"""C20 - text rendering is well formed, faithful and independent of encoder history.

spec/layout/StrQuote.tla: string literals of the text format (reader Unquote =
well-formedness; the spec's own quoting round-trips - design check) and the
generator of byte strings over class representatives.
spec/layout/TextTrace.tla: trace specification: every literal the real code
produced is well formed and denotes its value; every field token shown in a
rendered struct equals what the generated accessor returns; the text of a value
is the same whatever the encoder's history."""
import json
import os

from vlib import tlc, gobuild
from vlib.core import Inconclusive

LEVEL = "model_checking"


def run(ctx):
    sd = tlc.stage(ctx, "layout")
    with open(os.path.join(sd, "Gen.cfg"), "w") as f:
        f.write("SPECIFICATION GSpec\nCONSTANTS\n  Reps = {97, 34, 92, 39, 10, 0, 127, 128, 255, 32}\n  MaxLen = %d\nINVARIANTS RoundTrip EmitString\nCHECK_DEADLOCK FALSE\n"
                % (3 if ctx.quick else 4))
    r = tlc.run(ctx, sd, "StrQuote", cfg="Gen.cfg", workers=8, timeout=1800)
    strs = r.tagged("STR")
    sf = ctx.path("strings.ndjson")
    with open(sf, "w") as f:
        for s in strs:
            f.write(json.dumps(s) + "\n")
    ctx.log("StrQuote: %d strings; Unquote(SpecQuote(s)) = s holds for all" % len(strs))
    drv = gobuild.build(ctx, "textdrv")
    tf = os.path.join(sd, "texttrace.ndjson")
    reuse = "200000" if ctx.quick else "2000000"
    rc, out, err = gobuild.run_driver(ctx, drv, ["run", sf, tf, reuse], timeout=3400)
    if rc != 0:
        raise Inconclusive("textdrv died rc=%d: %s" % (rc, err[-2000:]))
    summ = None
    for ln in out.splitlines():
        if ln.startswith("{"):
            m = json.loads(ln)
            if m.get("summary"):
                summ = m
            elif m.get("error"):
                ctx.violation("marshal-error", "text.Marshal failed: %s" % m["error"], m)
    if not summ:
        raise Inconclusive("textdrv: no summary")
    rt = tlc.run(ctx, sd, "TextTrace", cfg="TextTrace.cfg", workers=1, timeout=3400, heap="12g", stack=True)
    cons = rt.tagged("CONSUMED")
    if not cons or cons[0]["n"] != summ["lines"]:
        raise Inconclusive("TextTrace consumed %s of %d lines" % (cons, summ["lines"]))
    bad = rt.tagged("TEXTBAD")
    if bad:
        with open(tf) as f:
            lines = f.readlines()
        seen = set()
        for b in bad:
            rec = json.loads(lines[b["line"] - 1])
            def bs(x):
                return bytes(x).decode("latin-1")
            if rec["k"] == "lit":
                cls = "lit:" + b["what"] + ":" + ",".join(sorted({("quote" if c in (34, 39) else "backslash" if c == 92 else "ctrl" if c < 32 or c == 127 else "high" if c > 127 else "plain") for c in rec["s"]} - {"plain"}))
                detail = "string %r rendered as %r" % (bs(rec["s"]), bs(rec["lit"]))
            elif rec["k"] == "field":
                cls = "field:%s:%s" % (b["what"], rec["vid"].rstrip("0123456789") + "." + rec["path"].split("[")[0])
                detail = "value %s field %s shows %r, accessor returns %r" % (rec["vid"], rec["path"], bs(rec["tok"]), bs(rec["acc"]))
            else:
                cls = "history:" + rec["vid"].rstrip("0123456789")
                detail = "value %s after %d prior Encodes renders as %r" % (rec["vid"], rec["n"], bs(rec["text"])[:200])
            ctx.violation(cls, "%s: %s" % (b["what"], detail), {"what": b["what"], "record": rec})
    ctx.cover(states=r.distinct + rt.distinct, transitions=r.generated + rt.generated, traces_validated_against_impl=summ["lines"],
              evaluations=summ["lines"], distinct_nontrivial=summ["strings"] + summ["samples"], strings=summ["strings"], struct_samples=summ["samples"],
              encoder_reuse=summ["reuse"],
              rule="strings = every string of <= MaxLen bytes over 10 class representatives (from TLC) + every single byte alone and between letters; "
                   "each through strquote.Append and as Text / List(Text) element / Data of rendered structs; struct samples of Zdate, PlaneBase, "
                   "HoldsText, Zdata, Z with boundary numbers, enums, booleans; each field token paired with the generated accessor's value; "
                   "a long-lived Encoder re-renders a probe set after 1, 10, 1000 and every reuse/16 prior Encodes (half of them of Z, the largest field table)",
              exhaustive=True)
    ctx.sample({"string": strs[len(strs) // 2]})
    ctx.assume("the harness' tokenizer of the text format splits at the quote that ends a literal (a backslash escapes the next byte)")


def replay(ctx, robj):
    raise Inconclusive("re-run bin/check C20; the failing record is in the replay file")
