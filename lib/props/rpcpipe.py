"""Shared pipeline of the RPC checks (C06, C07, C08, C09): RpcEnv scripts -> rpcdrv -> RpcTrace."""
import json
import os
import random
import re

from vlib import tlc, gobuild
from vlib.core import Inconclusive

C06_EVENTS = {"msg:return", "msg:call", "msg:bootstrap", "msg:finish", "app-start", "l-result", "app-return"}
C07_EVENTS = {"shutdown", "msg:release", "close-returned", "quiesce-refs", "l-handle", "l-release"}


def gen_scripts(ctx, sd, maxlen, maxcalls, local, close, tag):
    cfg = "Env_%s.cfg" % tag
    with open(os.path.join(sd, cfg), "w") as f:
        f.write("SPECIFICATION Spec\nCONSTANTS\n  MaxLen = %d\n  MaxCalls = %d\n  WithLocal = %s\n  WithClose = %s\nINVARIANT Emit\nCHECK_DEADLOCK FALSE\n"
                % (maxlen, maxcalls, "TRUE" if local else "FALSE", "TRUE" if close else "FALSE"))
    r = tlc.run(ctx, sd, "RpcEnv", cfg=cfg, workers=10, timeout=3000, heap="12g")
    return r.tagged("SCRIPT"), r


def gen_embargo(ctx, sd, ncalls, maxpump):
    """Scripts of spec/rpc/RpcEmbargo.tla (both roles) + the design check: with the embargo every behaviour delivers the
    pipelined calls in order; without it (control) TLC must find an InOrder violation."""
    out, states, gen = [], 0, 0
    for side in ("caller", "callee"):
        cfg = "Emb_%s.cfg" % side
        with open(os.path.join(sd, cfg), "w") as f:
            f.write('SPECIFICATION Spec\nCONSTANTS\n  Side = "%s"\n  NCalls = %d\n  Embargo = TRUE\n  MaxPump = %d\n'
                    'INVARIANTS TypeOK InOrder NoDup EchoBehind Emit\nCHECK_DEADLOCK FALSE\n' % (side, ncalls, maxpump))
        r = tlc.run(ctx, sd, "RpcEmbargo", cfg=cfg, workers=4, timeout=600, heap="4g")
        out += r.tagged("SCRIPT")
        states += r.distinct
        gen += r.generated
    cfg = "Emb_control.cfg"
    with open(os.path.join(sd, cfg), "w") as f:
        f.write('SPECIFICATION Spec\nCONSTANTS\n  Side = "caller"\n  NCalls = %d\n  Embargo = FALSE\n  MaxPump = %d\n'
                'INVARIANTS InOrder\nCHECK_DEADLOCK FALSE\n' % (ncalls, maxpump))
    r = tlc.run(ctx, sd, "RpcEmbargo", cfg=cfg, workers=1, timeout=600, heap="4g", allow_violation=True)
    if r.ok or r.invariant != "InOrder":
        raise Inconclusive("RpcEmbargo control (no embargo) did not violate InOrder: the model is vacuous")
    return out, states, gen


def gen_windows(ctx, sd):
    """Scripts of spec/rpc/RpcWindow.tla: the peer / the application act while a message of the connection is in flight."""
    r = tlc.run(ctx, sd, "RpcWindow", cfg="RpcWindow.cfg", workers=1, timeout=600)
    out = r.tagged("SCRIPT")
    if not out:
        raise Inconclusive("RpcWindow produced no scripts")
    out.sort(key=lambda x: json.dumps(x, sort_keys=True))
    return out, r.distinct


def run_scripts(ctx, drv, scripts, tf, wire=None):
    """Runs scripts through rpcdrv (restarting after hangs / deaths); returns (violations-by-driver, summary)."""
    sf = ctx.path("scripts.ndjson")
    with open(sf, "w") as f:
        for i, s in enumerate(scripts):
            f.write(json.dumps({"id": "s%d" % i, "script": s}) + "\n")
    skip = 0
    lines = []
    found = []
    events = 0
    while skip < len(scripts):
        part = ctx.path("rpctrace-part.ndjson")
        if os.path.exists(part):
            os.remove(part)
        rc, out, err = gobuild.run_driver(ctx, drv, ["run", sf, part, str(skip)], timeout=3400, env={"CAPNP_VERIF_TRACE": wire} if wire else None)
        markers = re.findall(r"^SCRIPT (\d+) (\S+)", err, re.M)
        summ = None
        for ln in out.splitlines():
            if ln.startswith("{"):
                m = json.loads(ln)
                if m.get("summary"):
                    summ = m
                elif m.get("what") == "hang":
                    found.append(("hang", m))
        if rc != 0:
            # the process died while running the last announced script: a panic in a library goroutine
            last = int(markers[-1][0]) if markers else skip + 1
            head = [ln for ln in err.splitlines() if ln.startswith("panic:") or ln.startswith("fatal error:")]
            frames = [ln for ln in err.splitlines() if ln.startswith("capnproto.org/go/capnp/v3/") and "verifh" not in ln]
            if not frames:
                raise Inconclusive("rpcdrv died outside library code: %s" % err[-3000:])
            found.append(("death", {"script": scripts[last - 1], "head": head[0] if head else "rc%d" % rc, "frame": frames[0].split("(")[0],
                                    "stderr": err[-4000:]}))
            if os.path.exists(part):
                # the trace file of a dead driver ends somewhere inside the execution that killed it (possibly inside a line):
                # keep the complete executions only
                good = []
                with open(part) as f:
                    for ln in f:
                        try:
                            json.loads(ln)
                        except ValueError:
                            break
                        good.append(ln)
                resets = [i for i, ln in enumerate(good) if '"ev":"reset"' in ln]
                if resets and not any('"ev":"end"' in ln for ln in good[resets[-1]:]):
                    good = good[:resets[-1]]
                lines += good
            skip = last
            continue
        if not summ:
            raise Inconclusive("rpcdrv: no summary")
        events += summ["events"]
        with open(part) as f:
            lines += f.readlines()
        if "resume_at" in summ:
            skip = summ["resume_at"]
            continue
        break
    with open(tf, "w") as f:
        f.writelines(lines)
    return found, {"scripts": len(scripts), "events": events}


# every event kind the trace specification has an action for; anything else in a trace is an error of the machinery
ENDSTATE_EVENTS = {"reset", "hostile", "msg", "l-call", "l-pcall", "l-result", "app-return", "shutdown", "close", "close-returned",
                   "transport-closed", "done", "view", "end", "app-start", "app-cancelled", "reported", "fault", "quiesce", "quiesce-refs", "l-bootstrap",
                   "l-handle", "l-release", "peer-deliver", "peer-echo", "held", "hold-expired", "released", "l-cancel", "policy",
                   # events the end-state specification deliberately has no action for (their presence is the violation)
                   "send-after-close", "close-hung", "not-done"}
KNOWN_EVENTS = {"reset", "msg", "app-start", "app-return", "app-cancelled", "shutdown", "l-handle", "l-release", "l-result", "l-bootstrap",
                "l-call", "l-pcall", "held", "hold-expired", "released", "l-cancel", "policy", "reported", "fault", "transport-closed", "done", "end", "peer-deliver", "peer-echo", "view",
                "quiesce", "quiesce-refs", "close", "close-returned"}
MAX_REJECTED = 60


def validate(ctx, sd, tf, classes, other_sink=None):
    """TLC validation with removal of rejected executions.  Returns (list of (cls, event, execution, pos), states).
    Every execution is either accepted or listed; info["accepted"] counts the accepted ones."""
    with open(tf) as f:
        lines = f.readlines()
    total = sum(1 for x in lines if '"ev":"reset"' in x)
    rej = []
    states = 0
    while lines:
        with open(tf, "w") as f:
            f.writelines(lines)
        rt = tlc.run(ctx, sd, "RpcTrace", cfg="RpcTrace.cfg", workers=1, timeout=3400, heap="8g", allow_violation=True, dfs_queue=True)
        states += rt.distinct
        bad = [ln for ln in rt.out.splitlines() if "REJECTED_AT_LINE" in ln]
        if rt.ok and not bad:
            break
        if not bad:
            raise Inconclusive("RpcTrace failed without naming a line:\n%s" % rt.out[-2500:])
        at = int(re.search(r"REJECTED_AT_LINE\"?,\s*(\d+)", bad[0]).group(1))
        idx = min(at, len(lines)) - 1
        start = max(i for i in range(idx + 1) if '"ev":"reset"' in lines[i])
        end = next((i for i in range(start + 1, len(lines)) if '"ev":"reset"' in lines[i]), len(lines))
        ex = [json.loads(x) for x in lines[start:end]]
        off = ex[min(idx - start, len(ex) - 1)]
        if off["ev"] not in KNOWN_EVENTS:
            raise Inconclusive("the trace contains an event the trace specification has no action for: %s" % json.dumps(off))
        key = off["ev"] + (":" + off["m"] if off["ev"] == "msg" else "")
        rej.append((key, off, ex, idx - start))
        del lines[start:end]
        if len(rej) >= MAX_REJECTED:
            ctx.note("validation stopped after %d rejected executions; %d executions were not examined" % (
                len(rej), sum(1 for x in lines if '"ev":"reset"' in x)))
            lines = []
            break
    ctx.cover(executions_rejected=len(rej), executions_total=total)
    if not ctx.quick and not rej and total:
        # vacuity guard (thorough tier): which actions of the trace specification were never taken by any execution
        try:
            rc = tlc.run(ctx, sd, "RpcTrace", cfg="RpcTrace.cfg", workers=1, timeout=3400, heap="8g", allow_violation=True, dfs_queue=True, coverage=True)
            never = sorted({k.split("@")[0] for k in tlc.uncovered_actions(rc)})
            ctx.cover(trace_spec_actions_never_taken=never)
        except Inconclusive:
            ctx.note("coverage run of RpcTrace did not finish; action coverage not recorded")
    return rej, states


def brief(e):
    return {k: v for k, v in e.items() if v not in ("", -1, 0, False, [])}
