"""C06 - every RPC call gets exactly one correct return, in order, with pipelining.

spec/rpc/RpcEnv.tla enumerates scripts (peer messages + application actions);
the driver plays the peer over an in-memory transport against a real Conn whose
local capabilities are server.Server instances with scripted method bodies;
spec/rpc/RpcTrace.tla validates the complete event log (every message in both
directions, application events)."""
import json
import os
import random

from vlib import tlc, gobuild
from vlib.core import Inconclusive
from props import rpcpipe

LEVEL = "model_checking"
MINE = lambda key: key not in rpcpipe.C07_EVENTS     # every rejection is reported by exactly one of C06 / C07


def collect(ctx):
    sd = tlc.stage(ctx, "rpc")
    rng = random.Random(ctx.seed)
    s1, r1 = rpcpipe.gen_scripts(ctx, sd, 6, 3, False, False, "a")
    s2, r2 = rpcpipe.gen_scripts(ctx, sd, 6, 2, True, False, "b")
    s3, r3 = rpcpipe.gen_scripts(ctx, sd, 6, 2, True, True, "c")
    # local calls only (capabilities in parameters, releaseParamCaps, Release of parameter exports)
    s4, r4 = rpcpipe.gen_scripts(ctx, sd, 7, 0, True, False, "d")
    s4 = [x for x in s4 if any(a["kind"] == "withcap" for a in x)]
    for s in (s1, s2, s3, s4):
        rng.shuffle(s)
    n = 500 if ctx.quick else 6000
    emb, est, egen = rpcpipe.gen_embargo(ctx, sd, 3 if ctx.quick else 4, 5 if ctx.quick else 7)
    win, wst = rpcpipe.gen_windows(ctx, sd)
    est += wst
    scripts = emb + win + s1[:n] + s2[:n] + s3[:n // 2] + s4[:n // 2]
    # the same scripts with an answer queue of one entry: the second call pipelined on an unreturned answer waits until the queue drains
    POLICY = {"a": "policy", "q": -1, "on": -1, "exp": -1, "n": 0, "tag": -1, "kind": "", "rel": False, "h": "", "cap": -1, "k": 1}
    tight = [x for x in s1 if sum(1 for a in x if a["a"] == "p-call" and a["on"] >= 2) >= 2]
    scripts += [[POLICY] + x for x in tight[:n // 3]]
    if os.environ.get("VERIF_RPC_ONLY") == "embargo":      # development aid
        scripts = emb
    if os.environ.get("VERIF_RPC_ONLY") == "window":
        scripts = win
    if os.environ.get("VERIF_RPC_ONLY") == "wire":
        scripts = emb[:2]
    ctx.log("RpcEnv: %d + %d + %d + %d scripts, %d chosen; RpcEmbargo: %d scripts (%d states, design invariants hold, control violates InOrder); RpcWindow: %d scripts"
            % (len(s1), len(s2), len(s3), len(s4), len(scripts) - len(emb) - len(win), len(emb), est, len(win)))
    drv = gobuild.build(ctx, "rpcdrv")
    tf = os.path.join(sd, "rpctrace.ndjson")
    found, summ = rpcpipe.run_scripts(ctx, drv, scripts, tf)
    rej, states = rpcpipe.validate(ctx, sd, tf, None)
    return dict(sd=sd, scripts=scripts, found=found, summ=summ, rej=rej, states=states + r1.distinct + r2.distinct + r3.distinct + r4.distinct + est,
                trans=r1.generated + r2.generated + r3.generated + r4.generated + egen, embargo=len(emb))


def report(ctx, res, mine, label):
    for kind, m in res["found"]:
        if kind == "hang":
            ctx.violation("hang:" + ">".join(a["a"] for a in m["script"]),
                          "the connection did not wind down: script %s\n%s" % (json.dumps([rpcpipe.brief(a) for a in m["script"]]), m["dump"][:2500]), m)
        else:
            ctx.violation("death:%s:%s" % (m["head"][:60], m["frame"]),
                          "the process died (%s) in %s while running script %s" % (m["head"], m["frame"], json.dumps([rpcpipe.brief(a) for a in m["script"]])), m)
    other = 0
    for key, off, ex, pos in res["rej"]:
        race = reuse_race(ex)
        if race:
            # root cause known (D27): judged under C06 whatever event the trace specification stumbled over first
            if label == "C07":
                ctx.violation(race, "execution %s: the peer finished answer and reused its id after the Return was on the wire; the connection "
                              "aborted ('answer ID reused'): trace=%s" % (ex[0].get("h"), json.dumps([rpcpipe.brief(e) for e in ex])[:3000]),
                              {"trace": ex, "rejected_at": pos})
            continue
        if mine(key):
            ctx.violation("trace:%s:%s" % (key, off.get("kind", "")),
                          "execution %s is not a behaviour of RpcTrace: first unexplained event #%d %s; trace=%s" % (
                              ex[0].get("h"), pos, json.dumps(rpcpipe.brief(off)), json.dumps([rpcpipe.brief(e) for e in ex])[:3500]),
                          {"trace": ex, "rejected_at": pos})
        else:
            other += 1
    if other:
        ctx.note("%d executions were rejected at events judged by the sibling property (%s)" % (other, label))
    ctx.cover(states=res["states"], transitions=res["trans"], traces_validated_against_impl=res["summ"]["scripts"],
              evaluations=res["summ"]["events"], distinct_nontrivial=res["summ"]["scripts"], scripts=res["summ"]["scripts"],
              rejected=len(res["rej"]), hangs_or_deaths=len(res["found"]),
              rule="scripts = maximal behaviours of spec/rpc/RpcEnv.tla (peer: Bootstrap, Calls on promised answers / exports with and without "
                   "capability parameters, Finish with either releaseResultCaps, Release; application: method bodies returning a new capability / "
                   "nothing / an error; local Bootstrap, calls on the import, peer Returns, release; Close), sampled with the seed; one fresh Conn "
                   "per script; the event log of every script validated by TLC against RpcTrace",
              exhaustive=False)
    ctx.sample({"script": [rpcpipe.brief(a) for a in res["scripts"][0]]})
    ctx.sample({"script": [rpcpipe.brief(a) for a in res["scripts"][len(res["scripts"]) // 2]]})
    ctx.assume("script actions not enabled at run time are skipped; the driver waits for the receive loop to be idle and 2 ms of silence between actions")


def wire_phase(ctx, res, mine):
    """Wire-level trace validation of real connections (repository tests + two-connection stress), spec/rpc/RpcWire.tla."""
    from props import rpcwire
    w = rpcwire.run(ctx, res["sd"], ctx.quick)
    for sig, text, obj in w["violations"]:
        if mine(sig):
            ctx.violation(sig, text, obj)
    ctx.cover(**w["cover"])
    ctx.cover(states=w["states"])
    ctx.log("RpcWire: %d connection ends, %d messages (%d from the repository's rpc tests), %d rejected; stress: %s" % (
        w["cover"]["wire_connection_ends"], w["cover"]["wire_messages"], w["cover"]["wire_messages_repo_tests"], w["cover"]["wire_rejected"], w["cover"]["stress"]))


# wire-phase findings about reference counting belong to C07, everything else to C06
WIRE_C07 = ("wire:send:release", "stress:capabilities-not-shut-down")


def reuse_race(ex):
    """The execution shows the connection aborting with 'answer ID n reused' although it had put the Return for n on the wire and
    received the Finish for n before the peer reused n (known finding D27)."""
    import re
    for i, e in enumerate(ex):
        if e["ev"] != "reported":
            continue
        m = re.search(r"answer ID (\d+) reused", e.get("h", ""))
        if not m:
            continue
        n = int(m.group(1))
        opens = [j for j in range(i) if ex[j]["ev"] == "msg" and ex[j]["dir"] == "recv" and ex[j]["m"] in ("call", "bootstrap") and ex[j]["q"] == n]
        if len(opens) < 2:
            continue
        first, second = opens[-2], opens[-1]
        ret = any(ex[j]["ev"] == "msg" and ex[j]["dir"] == "send" and ex[j]["m"] == "return" and ex[j]["q"] == n for j in range(first, second))
        fin = any(ex[j]["ev"] == "msg" and ex[j]["dir"] == "recv" and ex[j]["m"] == "finish" and ex[j]["q"] == n for j in range(first, second))
        # ... and the reuse arrived while that Return was still inside the transport's send (between "held" and "released")
        held = [j for j in range(first, second) if ex[j]["ev"] == "held" and ex[j]["m"] == "return" and ex[j]["q"] == n]
        if ret and fin and held and not any(ex[j]["ev"] == "released" for j in range(held[-1], second)):
            return "race:answer-id-reused-before-return-bookkeeping"
    return None


def run(ctx):
    res = collect(ctx)
    report(ctx, res, MINE, "C07")
    if os.environ.get("VERIF_RPC_ONLY") in (None, "", "wire"):
        wire_phase(ctx, res, lambda sig: not sig.startswith(WIRE_C07))


def replay(ctx, robj):
    raise Inconclusive("re-run bin/check C06; the script and trace are recorded in the replay file")
