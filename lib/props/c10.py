"""C10 - a capability is shut down exactly once, only after its last user is gone.

spec/cap/ClientRef.tla: implementation-shaped model of capability.go (one action
per critical section); TLC checks all interleavings of 2-3 threads for
deadlock, double close, Shutdown while referenced / during a call, exact counts
at quiescence (design check; FixTransfer = FALSE reproduces defect D16 and is
kept as a non-vacuity control).
spec/cap/ClientRefAbs.tla: property-level specification + trace specification.
The driver runs small multi-threaded programs on real Clients under a gate
scheduler (verif yield points before every lock acquisition and channel wait of
capability.go), enumerating schedules systematically; every execution's event
trace is validated by TLC against ClientRefAbs."""
import itertools
import json
import os
import random

from vlib import tlc, gobuild
from vlib.core import Inconclusive

LEVEL = "model_checking"


def thread_programs(owner, maxlen, fulfill):
    """All op sequences of one thread.  owner 1 owns c1 (-> k1), owner 2 owns c2 (-> promise p1)."""
    base = "c1" if owner == 1 else "c2"
    extra = [] if owner == 1 else ["c9"]
    fresh = ["c3", "c5", "c7"] if owner == 1 else ["c4", "c6", "c8"]
    wname = "w1" if owner == 1 else "w2"
    out = []

    def rec(seq, live, released, nfresh, hasweak, fulfilled):
        if seq:
            out.append(list(seq))
        if len(seq) == maxlen:
            return
        for h in live:
            rec(seq + [dict(op="Release", h=h, new="", w="")], [x for x in live if x != h], released + [h], nfresh, hasweak, fulfilled)
            rec(seq + [dict(op="Call", h=h, new="", w="")], live, released, nfresh, hasweak, fulfilled)
            if nfresh < len(fresh):
                rec(seq + [dict(op="AddRef", h=h, new=fresh[nfresh], w="")], live + [fresh[nfresh]], released, nfresh + 1, hasweak, fulfilled)
            if not hasweak:
                rec(seq + [dict(op="WeakRef", h=h, new="", w=wname)], live, released, nfresh, True, fulfilled)
            break  # one representative live handle per op kind keeps the family small
        if len(live) > 1:
            h = live[-1]
            rec(seq + [dict(op="Release", h=h, new="", w="")], live[:-1], released + [h], nfresh, hasweak, fulfilled)
            rec(seq + [dict(op="Call", h=h, new="", w="")], live, released, nfresh, hasweak, fulfilled)
        for h in released[:1]:
            rec(seq + [dict(op="Call", h=h, new="", w="")], live, released, nfresh, hasweak, fulfilled)
            rec(seq + [dict(op="IsValid", h=h, new="", w="")], live, released, nfresh, hasweak, fulfilled)
        if hasweak and nfresh < len(fresh):
            rec(seq + [dict(op="WeakAddRef", h="", new=fresh[nfresh], w=wname)], live + [fresh[nfresh]], released, nfresh + 1, hasweak, fulfilled)
        if fulfill and not fulfilled:
            if owner == 1 and live:
                rec(seq + [dict(op="Fulfill", h=live[0], new="", w="")], live, released, nfresh, hasweak, True)
            rec(seq + [dict(op="Fulfill", h="nil", new="", w="")], live, released, nfresh, hasweak, True)

    rec([], [base] + extra, [], 0, False, False)
    return out


def programs(ctx):
    rng = random.Random(ctx.seed)
    progs = []
    # the D16 family first: promise fulfilment racing releases of both sides
    core = [
        [[dict(op="Fulfill", h="c1", new="", w=""), dict(op="Release", h="c1", new="", w="")], [dict(op="Release", h="c2", new="", w="")]],
        [[dict(op="Fulfill", h="c1", new="", w="")], [dict(op="Call", h="c2", new="", w=""), dict(op="Release", h="c2", new="", w="")]],
        [[dict(op="Release", h="c1", new="", w="")], [dict(op="AddRef", h="c2", new="c4", w=""), dict(op="Release", h="c2", new="", w="")]],
    ]
    R = lambda h: dict(op="Release", h=h, new="", w="")
    C = lambda h: dict(op="Call", h=h, new="", w="")
    core += [
        # last reference released while a call through another reference / the same client is inside the hook
        [[C("c1")], [R("c9"), R("c1")]],
        [[C("c1"), R("c1")], [C("c9"), R("c9")]],
        [[dict(op="Fulfill", h="c1", new="", w=""), R("c1")], [R("c9"), C("c2"), R("c2")]],
        # weak references: upgrade after / while the last strong reference goes away
        [[dict(op="WeakRef", h="c1", new="", w="w1"), R("c1"), dict(op="WeakAddRef", h="", new="c3", w="w1")], [R("c9")]],
        [[dict(op="WeakRef", h="c1", new="", w="w1"), dict(op="WeakAddRef", h="", new="c3", w="w1"), R("c3")], [R("c9")]],
        [[dict(op="WeakRef", h="c1", new="", w="w1"), R("c1"), dict(op="WeakAddRef", h="", new="c3", w="w1"), C("c3")], [R("c9"), dict(op="IsValid", h="c9", new="", w="")]],
        [[dict(op="Fulfill", h="nil", new="", w="")], [dict(op="WeakRef", h="c2", new="", w="w2"), dict(op="WeakAddRef", h="", new="c4", w="w2"), C("c2"), R("c2")]],
    ]
    F = lambda h: dict(op="Fulfill", h=h, new="", w="")
    core += [
        # three threads: the last reference goes away while a call is inside the hook, and the promise is fulfilled before the call ends
        [[C("c2")], [R("c2")], [F("c1")]],
        [[C("c2")], [R("c2")], [F("nil")]],
        [[C("c1")], [R("c1")], [R("c9")]],
        [[C("c2")], [R("c2")], [F("c1"), C("c1")]],
        [[C("c2"), C("c2")], [F("c1")], [R("c2"), R("c1"), R("c9")]],
    ]
    core += [
        # the last reference to k1 is dropped through the promised client, untouched since Fulfill (its cached hook is still the
        # resolved promise hook), while a call made through a direct reference is inside k1
        [[C("c1")], [F("c1"), R("c1"), R("c9"), R("c2")]],
        [[C("c9"), R("c9")], [F("c1"), R("c1"), R("c2")]],
        [[C("c1")], [F("c1")], [R("c1"), R("c9"), R("c2")]],
    ]
    cb = 1500 if ctx.quick else 8000      # hand-picked race programs are explored (nearly) exhaustively
    for i, c in enumerate(core):
        progs.append({"id": "core-%d" % i, "threads": c, "budget": cb})
    # the promised client has two references (c2, c0) used by different threads
    core0 = [
        [[C("c2"), R("c2")], [R("c0")], [F("c1")]],
        [[C("c2")], [C("c0"), R("c0")], [F("c1"), R("c1")]],
        [[R("c2")], [C("c0"), R("c0")], [F("nil")]],
        [[dict(op="WeakRef", h="c2", new="", w="w2"), R("c2"), dict(op="WeakAddRef", h="", new="c4", w="w2")], [C("c0"), R("c0")], [F("c1")]],
    ]
    for i, c in enumerate(core0):
        progs.append({"id": "core0-%d" % i, "threads": c, "extra": "c0", "budget": cb})
    # a weak reference to k1 exists from the start: upgrades racing the last Release while a call is still inside the hook
    WA = lambda new: dict(op="WeakAddRef", h="", new=new, w="w1")
    corew = [
        [[C("c1")], [R("c9"), R("c1")], [WA("c3"), C("c3"), R("c3")]],
        [[C("c9"), R("c9")], [R("c1")], [WA("c3"), R("c3")]],
        [[C("c1"), R("c1")], [R("c9"), WA("c3")], [WA("c5"), C("c5")]],
    ]
    for i, c in enumerate(corew):
        progs.append({"id": "corew-%d" % i, "threads": c, "weak": "w1", "budget": cb})
        progs.append({"id": "corew-%d-rnd" % i, "threads": c, "weak": "w1", "budget": cb // 3, "mode": "rnd"})
    # chains of promises: p1 is fulfilled with a client of promise p2 (before / after / while p2 is resolved)
    F2 = lambda h: dict(op="Fulfill", h=h, new="", w="p2")
    core2 = [
        [[F2("c1"), F("c7"), R("c1"), R("c9"), R("c7"), C("c2"), R("c2")]],
        [[F("c7"), F2("c1"), R("c1"), R("c9"), R("c7"), C("c2"), R("c2")]],
        [[F2("c1"), R("c1")], [F("c7"), R("c7"), R("c9")], [C("c2"), R("c2")]],
        [[F("c7"), R("c7"), C("c2")], [F2("nil")], [R("c2")]],
        [[F2("c1")], [F("c7")], [dict(op="AddRef", h="c2", new="c4", w=""), R("c2"), C("c4"), R("c4")]],
    ]
    for i, c in enumerate(core2):
        progs.append({"id": "core2-%d" % i, "threads": c, "promise2": True, "budget": cb})
        if len(c) > 1:
            progs.append({"id": "core2-%d-rnd" % i, "threads": c, "promise2": True, "budget": cb // 3, "mode": "rnd"})
    t1 = thread_programs(1, 2 if ctx.quick else 3, True)
    t2 = thread_programs(2, 2 if ctx.quick else 3, False)
    t2f = thread_programs(2, 2, True)
    pairs = [(a, b) for a in t1 for b in t2] + [(a, b) for a in thread_programs(1, 2, False) for b in t2f if any(o["op"] == "Fulfill" for o in b)]
    rng.shuffle(pairs)
    limit = 220 if ctx.quick else 3000
    for i, (a, b) in enumerate(pairs[:limit]):
        progs.append({"id": "p-%d" % i, "threads": [a, b]})
    # three threads: a second handle of k1 used by thread 3
    return progs


def validate_traces(ctx, sd, tf, module, cfg, chunk=250000):
    """TLC validates every execution in the trace file against the abstract spec; a rejected execution is
    reported, removed, and the rest re-checked.  Returns (rejected, states).  Large trace files are validated
    in chunks of whole executions (TLC keeps every state of a trace in memory)."""
    with open(tf) as f:
        all_lines = f.readlines()
    if len(all_lines) > chunk:
        rejected = states = 0
        start = 0
        while start < len(all_lines) and rejected < 8:
            end = min(start + chunk, len(all_lines))
            while end < len(all_lines) and '"ev":"reset"' not in all_lines[end]:
                end += 1
            with open(tf, "w") as f:
                f.writelines(all_lines[start:end])
            r2, s2 = validate_traces(ctx, sd, tf, module, cfg, chunk=10 ** 12)
            rejected += r2
            states += s2
            start = end
        return rejected, states
    lines = all_lines
    rejected = 0
    states = 0
    while lines:
        with open(tf, "w") as f:
            f.writelines(lines)
        rt = tlc.run(ctx, sd, module, cfg=cfg, workers=1, timeout=3400, heap="8g", allow_violation=True, dfs_queue=True)
        states += rt.distinct
        bad = [ln for ln in rt.out.splitlines() if "REJECTED_AT_LINE" in ln]
        if rt.ok and not bad:
            break
        if not bad:
            raise Inconclusive("%s failed without naming a line:\n%s" % (module, rt.out[-2000:]))
        import re as _re
        at = int(_re.search(r"REJECTED_AT_LINE\"?,\s*(\d+)", bad[0]).group(1))     # 1-based line that could not be consumed
        idx = min(at, len(lines)) - 1
        start = max(i for i in range(idx + 1) if '"ev":"reset"' in lines[i])
        end = next((i for i in range(start + 1, len(lines)) if '"ev":"reset"' in lines[i]), len(lines))
        ex = [json.loads(x) for x in lines[start:end]]
        off = ex[min(idx - start, len(ex) - 1)]
        prog = ex[0].get("prog")
        ctx.violation("trace:%s:%s:%s" % (off.get("ev"), off.get("op") or off.get("k"), off.get("res", "")),
                      "execution of program %s is not a behaviour of %s: first unexplained event #%d %s; trace=%s" % (
                          prog, module, idx - start, json.dumps({k: v for k, v in off.items() if v not in ("", 0)}),
                          json.dumps([{k: v for k, v in e.items() if v not in ("", 0)} for e in ex])[:3000]),
                      {"program": prog, "trace": ex, "rejected_at": idx - start})
        rejected += 1
        del lines[start:end]
        if rejected >= 8:
            break
    return rejected, states


def run(ctx):
    sd = tlc.stage(ctx, "cap")
    # 1. design check of the implementation-shaped model
    r = tlc.run(ctx, sd, "ClientRef", cfg="ClientRef_TRUE.cfg" if ctx.quick else "ClientRef_T3.cfg", workers=12, timeout=3000, heap="12g")
    rb = tlc.run(ctx, sd, "ClientRef", cfg="ClientRef_FALSE.cfg", workers=4, timeout=900, allow_violation=True)
    if not rb.invariant:
        raise Inconclusive("non-vacuity control failed: the model with the unrepaired reference transfer satisfies all invariants")
    ctx.log("ClientRef design: %d states; unrepaired transfer violates %s (control)" % (r.distinct, rb.invariant))
    # 2. programs under the gate scheduler
    progs = programs(ctx)
    pf = ctx.path("programs.ndjson")
    with open(pf, "w") as f:
        for p in progs:
            f.write(json.dumps(p) + "\n")
    drv = gobuild.build(ctx, "capdrv", also=["vsched"])
    tf = os.path.join(sd, "captrace.ndjson")
    budget = "40" if ctx.quick else "300"
    rc, out, err = gobuild.run_driver(ctx, drv, ["run", pf, tf, "dfs", budget], timeout=3400)
    if rc != 0:
        # a panic in library code kills the driver: that is a finding (e.g. close of closed channel)
        head = [ln for ln in err.splitlines() if ln.startswith("panic:") or ln.startswith("fatal error:")]
        first = "\n".join(err.split("\n\n")[0:2])
        if "verifh" in first.split("capnproto.org/go/capnp/v3.")[0] and "capnproto.org/go/capnp/v3." not in first.replace("capnproto.org/go/capnp/v3/internal/verifh", ""):
            raise Inconclusive("the driver crashed in harness code: %s" % err[:2000])
        ctx.violation("driver-death:" + (head[0][:60] if head else "rc%d" % rc),
                      "the driver died while running client programs: %s" % err[:3000], {"stderr": err[:6000]})
        return
    summ = None
    for ln in out.splitlines():
        if ln.startswith("{"):
            m = json.loads(ln)
            if m.get("summary"):
                summ = m
            elif m.get("what") == "hang":
                ctx.violation("hang:" + "/".join(o["op"] for t in m["prog"]["threads"] for o in t),
                              "execution did not terminate: program %s schedule %s\n%s" % (json.dumps(m["prog"]), m["schedule"], m["dump"][:3000]), m)
    if not summ:
        raise Inconclusive("capdrv: no summary")
    ctx.log("capdrv: %s" % summ)
    rejected, validated_states = validate_traces(ctx, sd, tf, "ClientRefAbs", "ClientRefAbs.cfg")
    st = summ["stats"]
    ctx.cover(states=r.distinct + validated_states, transitions=r.generated, traces_validated_against_impl=st.get("executions", 0),
              evaluations=st.get("events", 0), distinct_nontrivial=st.get("executions", 0), programs=len(progs),
              programs_fully_explored=st.get("programs_fully_explored", 0), executions=st.get("executions", 0), rejected=rejected,
              rule="programs = two threads x <= 2-3 operations each over handles they own (AddRef, Release, Call, IsValid, WeakRef, WeakClient.AddRef, "
                   "Fulfill(client|nil)); executions = depth-first enumeration of gate schedules (<= budget per program) at the yield points of "
                   "capability.go; every execution trace validated by TLC against ClientRefAbs (linearisation inferred by TLC)",
              exhaustive=False)
    ctx.sample({"program": progs[0]})
    ctx.sample({"program": progs[len(progs) // 2]})
    ctx.assume("yield points only add scheduling points; a goroutine that does not reach a yield point within 3 ms is treated as blocked (affects which schedule is explored, never the verdict)")


def replay(ctx, robj):
    raise Inconclusive("re-run bin/check C10; the program and rejected trace are recorded in the replay file")
