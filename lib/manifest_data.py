SETUP = "bin/setup"
HOOKS = {
    "guard": "verif",
    "enable": "go build -tags verif (drivers are added to the module with -overlay, see lib/vlib/gobuild.py)",
    "baseline_off_cmd": "cd /repo && GOFLAGS=-mod=mod GOPROXY=off GOSUMDB=off GOTOOLCHAIN=local go test -json -vet=off -count=1 -timeout 25m ./...",
    "source_commits": [],
    "add_only": True,
}
ENGINES = [
    {"name": "tlc", "path": "/usr/local/bin/tlc", "serves_properties": [], "kind_free_text": "TLC 1.8.0 explicit-state model checker: design checks, vector/behaviour generation, trace validation"},
    {"name": "harness", "path": "/verif/harness", "serves_properties": [], "kind_free_text": "Go drivers compiled into /repo's module via go build -overlay; replay TLC behaviours on the real code and record traces"},
]
NOTES = "All checks: bin/check <ID> --tier quick|thorough. Exit 0 held / 1 VIOLATION / 2 inconclusive (infrastructure). See DESIGN.md."

CHECKS = {
    "C13": {
        "engine": "tlc",
        "level": "model_checking",
        "design_ref": "DESIGN.md section 4 C13, Appendix K",
        "technique": "TLA+ transducer spec of the packing scheme; TLC enumerates all short packed strings (spec->code replay on Unpack/Reader in 114 chunking modes) and independently unpacks real Pack output (code->spec trace validation)",
        "text": "Exhaustive small-scope: every packed string of <= 5 (quick) / 6 (thorough) symbols over a 9-15 symbol alphabet is classified by the TLA+ transducer (output, complete/truncated-where) and the real one-shot and streaming decoders must agree with it in every chunking mode; Pack output for run-length families around 255/510 words and seeded random payloads is decoded by TLC itself.",
        "note": "Trusted: TLC, the TLA+ transducer as a reading of the packing spec (cross-checked by PackedDesign: all packings of all 2-word payloads over {0,7} bytes round-trip), the driver's RLE expansion. Allocation is bounded only grossly (output <= 2048 x input).",
    },
}

NOT_APPLICABLE = {
    "C%02d" % i: "check not built yet in this session (planned, see DESIGN.md section 9); not claimed until its TLA+ spec and conformance harness exist" for i in range(1, 21)
}
