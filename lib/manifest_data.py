SETUP = "bin/setup"
HOOKS = {
    "guard": "verif",
    "enable": "go build -tags verif (drivers are added to the module with -overlay, see lib/vlib/gobuild.py)",
    "baseline_off_cmd": "cd /repo && GOFLAGS=-mod=mod GOPROXY=off GOSUMDB=off GOTOOLCHAIN=local go test -json -vet=off -count=1 -timeout 25m ./...",
    "source_commits": ["0c4db6e", "42202d4", "7d1cb3d", "e865236", "d3573ec", "14ec97e"],
    "add_only": True,
}
ENGINES = [
    {"name": "tlc", "path": "/usr/local/bin/tlc", "serves_properties": [], "kind_free_text": "TLC 1.8.0 explicit-state model checker: design checks, vector/behaviour generation, trace validation"},
    {"name": "harness", "path": "/verif/harness", "serves_properties": [], "kind_free_text": "Go drivers compiled into /repo's module via go build -overlay; replay TLC behaviours on the real code and record traces"},
]
NOTES = "All checks: bin/check <ID> --tier quick|thorough. Exit 0 held / 1 VIOLATION / 2 inconclusive (infrastructure). See DESIGN.md."

CHECKS = {
    "C13": {
        "engine": "tlc",
        "level": "model_checking",
        "design_ref": "DESIGN.md section 4 C13, Appendix K",
        "technique": "TLA+ transducer spec of the packing scheme; TLC enumerates all short packed strings (spec->code replay on Unpack/Reader in 114 chunking modes) and independently unpacks real Pack output (code->spec trace validation)",
        "text": "Exhaustive small-scope: every packed string of <= 5 (quick) / 6 (thorough) symbols over a 9-15 symbol alphabet is classified by the TLA+ transducer (output, complete/truncated-where) and the real one-shot and streaming decoders must agree with it in every chunking mode; Pack output for run-length families around 255/510 words and seeded random payloads is decoded by TLC itself.",
        "note": "Trusted: TLC, the TLA+ transducer as a reading of the packing spec (cross-checked by PackedDesign: all packings of all 2-word payloads over {0,7} bytes round-trip), the driver's RLE expansion. Allocation is bounded only grossly (output <= 2048 x input).",
    },
}

CHECKS["C03"] = {
    "engine": "tlc",
    "level": "model_checking",
    "design_ref": "DESIGN.md section 4 C03, Appendix B/G",
    "technique": "TLA+ encoding semantics (CapnpSem.Value) + TLC-enumerated messages from a slot-driven boundary-alphabet generator (EncGen); spec->code replay: the real accessors must return the tree TLC computes",
    "text": "Every reachable state of EncGen (a message built by assigning, to each reachable pointer slot in turn, each word of an alphabet derived from the case analysis of the pointer-resolution spec: all pointer kinds x boundary offsets x boundary sizes, far/double-far pads, composite tags) is read through the public accessors in 4 presentations and compared node by node with CapnpSem.Value; where the spec value is Err the implementation is free. Includes mixed-width data reads, beyond-section defaults, reads wider than / straddling the end of a (sub-word) data section, and both directions of the list upgrade rule. The quick tier includes the 3-segment family with 3 assigned slots (double-far pointers to objects at the start of a segment: defect D29).",
    "note": "Bounded: <= 3 segments of <= 5 words, <= 3-4 assigned pointer slots, lists <= 64 elements. Trusted: TLC, CapnpSem as a reading of encoding.html (generator and decoder are cross-checked by FillPreserves), the walker's JSON rendering.",
}
CHECKS["C01"] = {
    "engine": "tlc",
    "level": "model_checking",
    "design_ref": "DESIGN.md section 4 C01",
    "technique": "TLC-enumerated hostile messages (EncGen states: valid and invalid boundary placements of every pointer kind) + schema-directed and seeded byte-level variants, replayed through every read-side consumer; oracle = no panic / no fatal error / no hang / no slice outside the segments",
    "text": "The same TLC-generated message space as C03 (which contains one message per branch of the spec's pointer-resolution case analysis, taken and not taken), each in ~7 variants, is pushed through accessor walk, Equal, Canonicalize, deep copy, text.Marshal under 10 schema types and pogs.Extract, with default limits and with a 2^40 traversal budget; panics are recovered and reported, fatal errors (stack overflow) are found by bisecting the dying driver, hangs by a watchdog.",
    "note": "No value oracle (that is C03). Exhaustive only within the EncGen bounds; arbitrary bit patterns are sampled (seeded). Messages containing a list of > 2^20 elements are not run with the 2^40 budget (work legitimately proportional to T). Session 4: degenerate framings (first segment without a root word) are part of the EncGen families; a schema-directed family (populated PlaneBase / Z / Aircraft / HoldsText values with every word in turn replaced by four boundary patterns) goes through the same consumers.",
}

CHECKS["C04"] = {
    "engine": "tlc",
    "level": "model_checking",
    "design_ref": "DESIGN.md section 4 C04",
    "technique": "TLA+ abstract builder semantics (BuilderAbs) enumerated/simulated by TLC; operation sequences replayed on the real builder API in 10 arena configurations; expected value after every step computed by TLC and compared with accessor read-back, 13 serialisation round trips, and TLC's own decoding of the raw bytes (EncTrace)",
    "text": "BuilderAbs states what each builder operation means on an abstract object store; TLC enumerates all sequences of <= 2-3 operations over small alphabets and simulates 10-12 operation sequences. Each is replayed in scripted arenas (single/multi segment, capacities 1-6 words, 0xAA-filled spare capacity, with and without segment reuse) so near, far and double-far pointers all occur. After every step the message must read back as the spec's value; at the end also through Marshal/Unmarshal, packed, Encoder/Decoder with chunk sizes 1,7,8,9,4096 and buffer reuse.",
    "note": "Bounded by the generator constants (struct sizes <= 3 words, lists <= 65 elements, <= 12 operations, <= 10 handles). Trusted: TLC, BuilderAbs as a reading of the documented API (same-message SetPtr aliases, list members are copied).",
}
CHECKS["C05"] = {
    "engine": "tlc",
    "level": "model_checking",
    "design_ref": "DESIGN.md section 4 C05",
    "technique": "code->spec trace validation: the raw segment bytes after every builder step and the Marshal output are decoded by TLC with the TLA+ encoding spec (CapnpSem, FrameCore): strict WellFormed + Value = written value",
    "text": "TLC is the independent decoder: for every dump (same behaviours/arenas as C04) it checks that every reachable pointer is defined by the spec (bounds, landing pads, composite word count = n x element size), reachable extents are pairwise disjoint, sub-word list padding is zero, the stream framing describes exactly the segments (count, sizes, padding) and the decoded value equals the value BuilderAbs says was written.",
    "note": "Strictness is the encoding spec's, not the library reader's. Object sharing created by same-message SetPtr is one extent, not an overlap.",
}
CHECKS["C16"] = {
    "engine": "tlc",
    "level": "model_checking",
    "design_ref": "DESIGN.md section 4 C16",
    "technique": "BuilderAbs with 2-3 messages and the copying operations; TLC gives the value and capability table of every message after every step; replay on the real library + TLC decoding of the bytes; instrumented capabilities checked at Reset",
    "text": "Copy semantics (deep copy across messages and for struct-list members, truncation / zero extension into a struct of another size, surplus pointers nulled, capability pointers re-homed into a fresh table entry of the destination) are actions of BuilderAbs; independence is checked because later operations mutate one side and both messages' expected values are compared after every step; capability reference ownership is checked by resetting the messages one by one and counting Shutdown calls of instrumented hooks.",
    "note": "Bounds as C04. Capability identity is observed through ClientHook.Brand.",
}

CHECKS["C17"] = {
    "engine": "tlc",
    "level": "model_checking",
    "design_ref": "DESIGN.md section 4 C17",
    "technique": "TLA+ transcription of the documented equality (ValGen.ValEq) evaluated by TLC on enumerated value trees and their one-edit neighbours; spec->code: the real Equal must return TLC's verdict on values built in different layouts",
    "text": "TLC enumerates value trees to depth 2 (quick) / 3 (thorough) and, for each, the neighbours that differ in exactly one bit / element / trailing word / extra null or zero field / list-kind upgrade, computes the three-valued verdict (yes / no / either where the documentation is silent: bit list vs struct list) and checks reflexivity and symmetry of ValEq itself. The driver builds both sides in 4 arena x build-order layouts and requires Equal(a,b) = Equal(b,a) = verdict, Equal(a,a), Equal(a, deep copy), Equal(a, re-encoding); a spec-generated layout of a whose padding bits and bytes carry garbage (as a foreign encoder may write) must compare equal to a and give the same verdict against b.",
    "note": "Capabilities are compared through shared instrumented clients (same table index = same capability). Values come from the builder (C04/C05) and from ValGen.DirtyCanon layouts.",
}
CHECKS["C18"] = {
    "engine": "tlc",
    "level": "model_checking",
    "design_ref": "DESIGN.md section 4 C18",
    "technique": "TLA+ definition of the canonical encoding (ValGen.Canon) cross-checked inside TLC against the decoder spec (Value(Canon(v)) ValEq v, WellFormed, fixed point, layout independence); spec->code: Canonicalize output must equal Canon(v) byte for byte for every layout",
    "text": "For every generated struct value (including padded / versioned variants with trailing zero words and null pointers, composite lists with and without pointers, data-only and zero-sized elements, nested lists) built in 4 layouts, the bytes returned by Canonicalize must be exactly the word sequence TLC computes from the spec; canonicalising the result must return it unchanged; values containing a capability must be rejected.",
    "note": "List-kind upgrades are not claimed to canonicalise identically. Source padding is zero because values come from the builder.",
}

CHECKS["C02"] = {
    "engine": "tlc",
    "level": "model_checking",
    "design_ref": "DESIGN.md section 4 C02, Appendix L",
    "technique": "TLA+ models of the traversal budget (load/CAS steps of concurrent readers; Apalache inductive invariant) and of access paths with depth accounting; spec->code: TLC-enumerated interleavings forced on the real canRead through a yield gate, TLC-enumerated walks replayed at every boundary budget and depth limit with three-valued expectations",
    "text": "(i) ReadLimit: all interleavings of 3 readers x 2 reads conserve the budget (and the plain-store variant violates it: non-vacuity control); every terminated interleaving of ReadLimitSched (2 readers, 2-3 reads, sizes 0-24) is forced on the real code through the verif yield point between load and CAS, comparing each read's result and the remaining budget. (ii) LimitWalk: every access path of <= 4-6 steps over ~1.8k-10k EncGen messages (cyclic, aliasing) mixing Struct.Ptr, PointerList.At and List.Struct, for D in 1..5 and every boundary T: a dereference must fail when the cumulative size handed out would exceed T or the path already holds D dereferences, must succeed when levels < D and the budget fits, and the budget must really decrease by the size handed out (verif getter). (iii) recursive consumers on all cyclic/deep messages with small T, D terminate without fatal error.",
    "note": "Charges are lower bounds a correct accounting must make (bit lists: ceil(n/8) bytes; the library charges more). Depth oracle is three-valued between 'derefs' and 'levels' so that refactorings of the accounting do not raise alarms.",
}

CHECKS["C14"] = {
    "engine": "tlc",
    "level": "model_checking",
    "design_ref": "DESIGN.md section 4 C14",
    "technique": "TLA+ framing spec (decoder results as a function of the byte prefix and the limit) enumerated by TLC over message sequences x every cut byte x limits x reuse; hostile header words with reaction class and allocation bound; code->spec: TLC parses the real Encoder's streams",
    "text": "Every case TLC enumerates (19k quick / ~10^6 thorough) is decoded by the real Decoder with 4 chunk sizes, with and without buffer reuse: exactly the messages whose frames precede the cut, then io.EOF iff the cut is on a frame boundary, else an error; frames larger than MaxMessageSize are rejected. Packed streams are cut at every byte. Hostile headers (segment-count words x size words x short bodies, complete tables of 101-1001 empty segments) must be accepted/rejected as the spec says (513 segments: either) and may not allocate more than the limit + 64 KiB; Unmarshal may allocate at most 64 x input + 4 KiB.",
    "note": "Allocation accounting is gross (TotalAlloc delta, GC off). For packed streams one extra complete message before the error is tolerated (the packed reader reports a missing run-length byte on the next read).",
}

CHECKS["C10"] = {
    "engine": "tlc",
    "level": "model_checking",
    "design_ref": "DESIGN.md section 4 C10, Appendix C, Appendix I",
    "technique": "implementation-shaped TLA+ model of capability.go model-checked over all interleavings (design); property-level TLA+ spec ClientRefAbs used as trace specification: real multi-threaded executions under a gate scheduler at verif yield points are validated by TLC (linearisation points inferred)",
    "text": "ClientRef (one action per critical section) is checked by TLC for 2-3 threads: no deadlock, no double close, no Shutdown while referenced or during a call, exact counts at quiescence; the variant with the unrepaired reference transfer must violate NoShutWhileReferenced (control). Binding: ~240 (quick) programs of two and three threads (hand-picked race programs explored with a 1500 / 20000 schedule budget, among them the last Release of a promised client waiting for a call while another thread fulfils the promise, and two references to the promise used by different threads) over AddRef/Release/Call/IsValid/WeakRef/WeakClient.AddRef/Fulfill are run on real Clients with instrumented hooks; schedules are enumerated depth-first at 16 yield points (before every lock acquisition / channel wait in capability.go, inside the hook's Send, at call boundaries); ~9k execution traces per run are accepted only if TLC finds a linearisation satisfying ClientRefAbs (Shutdown at most once, only with no live reference denoting the hook after following resolutions and no call inside, calls delivered to the denoted hook, results, obligations at quiescence).",
    "note": "Schedules are bounded (<= 40/300 per generated program, 1500/20000 per hand-picked race program). A worker that does not reach a yield point within 3 ms is treated as blocked (affects exploration only). The documented guarantee that Fulfill returns after the promise hook's Shutdown is not part of the property and is checked at quiescence only. Session 4: race programs in which the last reference is dropped through the promised client, untouched since Fulfill, while a call is inside the target.",
}
CHECKS["C11"] = {
    "engine": "tlc",
    "level": "model_checking",
    "design_ref": "DESIGN.md section 4 C11, Appendix M",
    "technique": "implementation-shaped TLA+ model of answer.go + proxy hook (design, with unrepaired variants as controls); property-level trace spec PromiseAbs validated by TLC on real executions under the gate scheduler; deadlocks reported from goroutine dumps with a frame signature",
    "text": "Programs (a resolver thread: Fulfill/Reject/Join, chains of three promises joined leaf first and root first; caller threads: pipelined calls on two paths, repeated Future.Client, calls through pipelined clients, Struct/Done/ReleaseClients) run on real Promises with an instrumented pipeline caller and result capability; schedules enumerated at the yield points of answer.go and capability.go. TLC accepts a trace only if every call is delivered exactly once to the destination determined at its linearisation point (pipeline caller of the chain's last promise before resolution, else the capability at that path, else failure), resolution waits for calls handed to the pipeline caller, waiters return only after resolution, and a pipelined client may fail as released only after ReleaseClients was called on every promise sharing its outcome. An execution in which no worker can move for 1 s is reported with the library frames it is stuck in.",
    "note": "Known finding D17 (deadlock between resolve and a call through a pipelined client) is listed in known_findings.json by its frame signature. Borrowed clients may fail once every promise of their join chain has been asked to release them (never earlier). Session 4: PromiseAbs distinguishes handles made before resolution: usable until every promise of the join component was released, unusable afterwards (chains released in every order, one promise asked twice).",
}
CHECKS["C12"] = {
    "engine": "tlc",
    "level": "model_checking",
    "design_ref": "DESIGN.md section 4 C12, Appendix J",
    "technique": "implementation-shaped TLA+ model of server.go (design); TLC-generated environment scripts replayed on a real server.Server; event log validated by TLC against the trace specification ServerTrace",
    "text": "Server.tla (start gate, slot semaphore, full/drain, shutdown) is model-checked for 3-4 calls x 1-2 slots; AnswerQueue.tla (server/answer.go: queued, late and direct calls) for a chain of three entries and two late callers, its variants 'basis 0 ready when the drain starts' and 'return right after delivery' must violate OrderOnResult / OrderOnEntry (controls). ServerEnv enumerates scripts (3 concurrent invocations, ack / return ok|err / cancel, pipelined calls on acknowledged answers, Shutdown anywhere); 1000 (quick) sampled scripts plus every script (<= 250 quick) in which a caller waiting for a slot or at the gate is cancelled while later callers wait behind it, run against the real server with MaxConcurrentCalls 1 and 2; a call that is never delivered shows as an execution that does not wind down; answer queues are overfilled (calls blocked together are unordered among themselves, behind the queued ones) and calls are pipelined on queued pipelined calls' answers, followed by direct calls on their results; TLC checks each event log: one started-and-unacknowledged call at a time, cap, start order consistent with Send returns, exactly one result per call equal to the implementation's, pipelined calls delivered in order only after a successful return, cancellation visible after Shutdown, user shutdown once after running calls returned, nothing starts afterwards.",
    "note": "No hook needed (the implementation, callers, result capability and Shutdowner are harness code). Interleavings depend on timing jitter (seeded sleeps), not on a scheduler.",
}

CHECKS["C06"] = {
    "engine": "tlc",
    "level": "model_checking",
    "design_ref": "DESIGN.md section 0.2 / 4 C06, Appendix D",
    "technique": "TLC-generated peer/application scripts (RpcEnv; RpcEmbargo: a TLA+ model of the Level 1 embargo in both roles, model-checked with a no-embargo control) replayed against a real Conn over an in-memory transport played by the harness; the complete wire + application event log validated by TLC against the trace specification RpcTrace",
    "text": "RpcTrace derives everything from the wire history: each received Bootstrap/Call opens an answer that gets exactly one Return with its own id and the result (or exception) the method body produced; method bodies of one capability start in wire order of the calls addressed to it (direct, pipelined before/after the answer returned); a question id chosen by the connection is not reused before its Finish was sent (cancelled questions stay in use until their Return); each local call resolves once with the peer's Return. Ordering across promise resolution: every maximal behaviour of RpcEmbargo (caller role: local calls pipelined on a question that resolves to a capability of this vat; the peer reflects them and echoes the Disembargo; callee role: the method returns the capability it was given, pipelined calls are queued / forwarded, the peer asks for the loop-back) is replayed; TLC requires calls made on one pipeline to reach the implementation in the order they were made (calls blocked together under the embargo are unordered), none under embargo before the echo, Disembargo(senderLoopback) only while the promised answer is addressable, forwarded calls in wire order and at most once, the echo behind every earlier forwarded call with the right id and import, forwarded calls answered with the peer's result. 1500 (quick) scripts sampled from ~250k maximal behaviours of RpcEnv plus all of RpcEmbargo, one fresh Conn each; every rejected execution is reported by exactly one of C06 / C07.",
    "note": "The scripted peer is kept well formed (actions depending on skipped actions are skipped). Windows inside a handler (e.g. between popping a question and sending its Finish) are not schedulable: no yield points in package rpc.",
}
CHECKS["C07"] = {
    "engine": "tlc",
    "level": "model_checking",
    "design_ref": "DESIGN.md section 0.2 / 4 C07, Appendix D",
    "technique": "same scripts, driver and trace specification as C06; the reference-counting rules of RpcTrace decide: wire counts derived from descriptors sent, Release and Finish(releaseResultCaps); holders of each instrumented capability; Shutdown only when nothing holds it and by the next quiescent point; Release of imports with the exact count once no local reference is live; everything shut down exactly once after Close",
    "text": "Local capabilities are server.Server instances with a Shutdowner that logs; the application returns fresh capabilities in results (the connection then owns the only reference), so the instant at which each must be shut down is determined by the wire history: Finish of the answer that returned it, Release messages, releaseResultCaps (before or after the Return), Close. Imports arrive as call parameters and as the local Bootstrap result; their Release must carry the number of descriptors received. Local calls carry capabilities of this vat in their parameters: the export gains a wire reference per descriptor and loses it by Release or by a Return with releaseParamCaps. Method bodies cancelled by Close may complete with a new capability (a-oncancel), which must be released before Close returns.",
    "note": "One capability per call / result (several descriptors of one export in one message are not generated). Session 4: RpcWindow W11 (the Release of an import is held inside the transport while the Return of an outstanding Bootstrap brings a new reference to it).",
}
CHECKS["C08"] = {
    "engine": "tlc",
    "level": "model_checking",
    "design_ref": "DESIGN.md section 0.2 / 4 C08",
    "technique": "TLC-enumerated scripts (8 well-formed prefixes x 44 hostile message kinds x probe x Close once/twice) replayed against a real Conn; process survival + RpcEndState trace specification (allowed reaction, no send after close, local calls resolve, Close returns, Done closes, locks free, capabilities released) + RpcSync trace specification over the recorded sender-lock / task / shutdown events of every connection (projection of the lock model RpcLocks.tla, see C09)",
    "text": "Hostile kinds cover the id spaces and unions of rpc.capnp: unknown / reused ids in Call, Bootstrap, Finish (twice), Release (unknown, too many), Return, Disembargo; capability descriptors naming no export or using receiverAnswer / thirdPartyHosted / unknown members; unknown members of Message, MessageTarget, Return, Disembargo.context, PromisedAnswer.Op; sendResultsTo.yourself; null params / target; Resolve / Provide / Accept / Join; Abort; empty message; a call addressed to its own answer; capability tables whose first entry is a good new import and whose second is bad (calls and Returns); undeliverable calls that carry a capability; Returns for unknown questions with capabilities. A panic in a library goroutine kills the driver and is attributed to the running script.",
    "note": "Byte-level corruption of a stream transport is not part of this check (C01 covers hostile bytes at the message level). Session 4: prefix with a local call parked while it builds its parameters + Returns for predictable question ids; the synchronisation history of every connection is validated against RpcSync.",
}
CHECKS["C09"] = {
    "engine": "tlc",
    "level": "model_checking",
    "design_ref": "DESIGN.md section 0.2 / 0.7 / 4 C09",
    "technique": "(i) RpcLocks.tla, an implementation-shaped TLA+ model of the connection's synchronisation skeleton (Conn.mu, sender lock, task WaitGroup, bgctx, shutdown; receive loop, method goroutines, application senders, two Close callers, NewMessage / send faults, cancellable contexts), model-checked by TLC for deadlock freedom, its invariants and termination under fairness, with four variants that re-introduce repaired defects and must deadlock (controls); (ii) trace validation: the verif build records sender-lock, task and shutdown-phase events of every real Conn (hook verifSync) and RpcSync.tla - the projection of RpcLocks onto the recorded variables - must accept every execution; (iii) TLC-enumerated fault plans (base scenarios x {NewMessage, send, receive} failure x operation index x Close once/twice; Close injected at every step) replayed against a real Conn with a fault-injecting transport, judged by the RpcEndState trace specification + verif view of the connection mutex / sender lock; (iv) torn-write scripts on the stream transport (StreamTornGen / StreamTornTrace)",
    "text": "For every plan: every local call resolves (not by the harness' own timeout), Close returns also the second time, Done closes, nothing is sent after the transport was closed, every capability is shut down, and afterwards mu.TryLock succeeds and the sender lock is free. A run that does not finish within 8 s is reported with a goroutine dump. For every connection of every plan the recorded synchronisation history must be a behaviour of RpcSync: sender lock exclusive, sends only under it (or by shutdown once it is alone), task counter never negative, no task added and no sender lock taken after shutdown's Wait returned, shutdown once and in order (cancel, wait with no task left, close), lock free and no task left at transport close. RpcLocks (2 methods, 1-2 application senders, 2 Close callers, 2-3 incoming messages, 1 fault) satisfies the same rules in every reachable state, never deadlocks and always terminates with the connection shut and both locks free.",
    "note": "Base scenarios include an embargo in force (both roles) and method bodies that complete with a capability when cancelled; torn writes of the stream transport are covered by the StreamTornGen / StreamTornTrace pair of this check. RpcLocks abstracts the tables (questions, answers, exports) away: what is sent and to whom is the subject of C06-C08.",
}

CHECKS["C15"] = {
    "engine": "tlc",
    "level": "model_checking",
    "design_ref": "DESIGN.md section 0 (C15/C19/C20), section 4 C15",
    "technique": "TLA+ layout semantics (Layout.tla: SetField/GetField of a field descriptor on the bytes of a struct) as a trace specification; TLC generates the schemas (SchemaGen.tla: every field kind x default x union/group membership x alignment situation, layout consistency checked as an invariant); capnpc-go built from the working tree generates code for them and for the stored requests, the code is compiled and every generated accessor is called through reflection; TLC judges every recorded before/after byte image",
    "text": "For 7035 TLC-generated struct layouts (quick: every 8th, thorough: every 3rd, rotating with the seed) plus the repository's stored requests (aircraft, rpc, group, util; scopes generated only): the generator succeeds, its output is byte-identical across 4-13 runs and compiles; for every struct and every field (descending into groups) the setter is called with boundary values on all-zero and all-one backgrounds with marker pointers in every slot and the after-image must equal SetField(before) exactly; getters must return GetField on patterned bytes; New/Set/Has of pointer fields may change only their slot and the discriminant; getters and Has of an inactive union member must refuse; Which reads the declared discriminant; allocated sizes equal the node's; a struct / list field with a null slot reads as that field's own default (also when another member of the union shares the slot with a different default).",
    "note": "Schemas come from SchemaGen (filler, tested field of every kind with zero / non-zero default - struct and list defaults included -, plain / union / group / group-in-union / two union members sharing one slot, groups with up to four fields, follower) and the stored requests; interface (capability) typed fields are generated and compiled but their setters are not called. Trusted: TLC, Layout.tla as a reading of the schema language's field descriptors, harness/reqgen (builds the CodeGeneratorRequest from TLC's layouts). Session 4: generated list fields rotate through 14 element types (void included); size-boundary structs (8191 / 8192 / 8193 / 65535 data words, 65535 pointers) have their allocation size judged.",
}
CHECKS["C19"] = {
    "engine": "tlc",
    "level": "model_checking",
    "design_ref": "DESIGN.md section 0 (C15/C19/C20), section 4 C19",
    "technique": "same TLA+ layout specification and TLC-generated schemas as C15; pogs.Insert / pogs.Extract are driven with Go mirror types built from the schema nodes (reflect.StructOf) and every recorded byte image / extracted value is judged by TLC against SetField/GetField; round trips and agreement with the generated getters reported through the same trace",
    "text": "For every struct type of the generated packages: Insert of each primitive field with boundary values (all other active fields at their defaults, garbage in the inactive members of the selected unions) must produce exactly SetField plus the discriminants on the path; Extract from all-one and patterned raw bytes must return GetField, the right Which values, and leave inactive members zero; one fully populated value per top-level union member is inserted, extracted and compared (DeepEqual), and the generated getters must see the inserted values; extraction from a null struct shows every field's default; a null struct / list slot extracts as the field's default (pointer, and struct-by-value mirror types). Insert over a struct that already holds a populated value (same union member with zero values, another member with zero and with populated values) must be indistinguishable through Extract from the same Insert into a fresh struct.",
    "note": "Mirror type variants: default naming, fields embedded three levels deep, renamed with capnp tags, nested structs by value. Nested struct types deeper than 2 are left out of the mirror types.",
}
CHECKS["C20"] = {
    "engine": "tlc",
    "level": "model_checking",
    "design_ref": "DESIGN.md section 0 (C15/C19/C20), section 4 C20",
    "technique": "TLA+ specification of text-format string literals (StrQuoteCore: reader Unquote; design check Unquote(SpecQuote(s)) = s) + TLC-generated byte strings over class representatives; code->spec trace validation (TextTrace): every literal the real code produced is well formed and denotes its value, every field token equals the generated accessor's value, the text of a value is the same after any number of prior Encodes",
    "text": "Every byte string of <= 3 (quick) / 4 (thorough) bytes over 10 class representatives plus every single byte, through strquote.Append and as Text, List(Text) element and Data of rendered structs; struct samples with boundary numbers, enums, booleans, unions; a long-lived Encoder re-renders a probe set after 1, 10, 1000 and every 1/16 of 200000 (quick) / 2000000 (thorough) prior Encodes; every struct type of the TLC-generated schemas (groups with several fields followed by parent fields, unions, defaults) is rendered with each field set to boundary values, on a fresh encoder and on one encoder shared by all types, every shown field compared with the generated getter and every expected field required to be present.",
    "note": "The harness tokenizer of the text format is trusted to split fields; literals themselves are judged by TLC. Session 4: primitive-list members (Float64 / Float32 with inf, -inf, nan; Int64; Bool; UInt8) judged token by token.",
}

NOT_APPLICABLE = {
    "C%02d" % i: "check not built yet in this session (planned, see DESIGN.md section 9); not claimed until its TLA+ spec and conformance harness exist" for i in range(1, 21)
}
